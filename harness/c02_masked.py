"""
C02 -- instances whose `__dict__` holds more than plain managed attributes (real code + oracle; the Lean tie of a
sub-grammar is in `c02_masked_tie.py`).

`DeepCopyMethod.deepcopy` walks *every* `__dict__` entry of an instance.  The heap model's class grammar only produces
entries that are plain managed attributes; the entries below exist on real instances as well and must be duplicated
just the same when a copy is derived (C02-r3s2: "masked attributes are carried by reference"):

  cached      annotated, `@spec_property(cache=True)`: the value computed on first access is stored in `__dict__['cached']`
  cached_no   the same with `overridable=False`
  cached_inv  the same with `invalidated_by=['n']`
  cached_ref  `@spec_property(cache=True)` whose getter returns the instance's own `base` object (aliasing inside the instance)
  over        annotated, `@spec_property` (overridable, not cached): an assigned override is stored in `__dict__['over']`
  al          annotated, `Alias('base')`: a local override is stored in `__dict__['__spec_classes_Alias_al_override']`
  alp         annotated, `Alias('base', passthrough=True)`: no storage of its own
  alf         annotated, `Alias('nowhere', fallback=<value>)`: every read yields (a copy of) the class-level fallback
  pr          annotated, builtin `property` with a setter that stores into `_pr` (an unmanaged `__dict__` entry)
  sps         annotated, `@spec_property` with a setter that stores into `_sps`
  unann       NOT annotated `@spec_property(cache=True)`: the cache is an unmanaged `__dict__` entry
  fcp         `functools.cached_property` (unmanaged `__dict__` entry)
  scratch     an attribute nobody declared, assigned from outside (`obj.scratch = value`)

A *scenario* (JSON-serialisable, replayable through `corr_C02.oracle({"masked": scenario})`) = value kind x size x
class variant x how the entries are materialised (constructor / in-place assignment / copy-on-write helper / first
access) x which entries x generation of the receiver x holder shape x derivation route.  The oracle is written from
the property text and knows nothing about `__deepcopy__`:
 (i)   no mutable object is reachable from both the result and the receiver -- through the instance `__dict__`s *and*
       through the public attribute interface (`getattr` of every declared/descriptor attribute, recursively) --
       except objects the caller handed to the call and values of attributes declared do_not_copy;
 (ii)  attributes declared do_not_copy (a masked one included) are carried by identity;
 (iii) every mutable object seen on one side is mutated in place (and restored): what the other side shows through its
       interface must not move.
"""
import copy
import functools
import warnings

import heap_common as H

VALUE_KINDS = ("list", "dict", "set", "child", "children", "table")
VARIANTS = ("base", "lazy", "sub", "sub2", "plain", "frozen", "dnc", "dncsub")
MODES = ("ctor", "inplace", "cow")
SETTABLE = ("over", "al", "pr", "sps", "cached", "cached_inv", "cached_ref")  # accept an assigned value
ON_ACCESS = ("cached", "cached_no", "cached_inv", "cached_ref", "unann", "fcp")  # materialised by reading them
ENTRIES = ("cached", "cached_no", "cached_inv", "cached_ref", "over", "al", "pr", "sps", "unann", "fcp", "scratch")
HOLDERS = ("self", "attr", "member", "table")
DNC_ATTRS = ("over", "cached")

_CLASSES = {}


def _value_kind(vk):
    """-> (annotation, mk(n, tag) building a new value with `n` elements)"""
    from typing import Dict, List, Set

    Child = _child_class()
    if vk == "list":
        return List[int], lambda n, t: [t * 10 + i for i in range(n)]
    if vk == "dict":
        return Dict[str, int], lambda n, t: {f"k{i}": t * 10 + i for i in range(n)}
    if vk == "set":
        return Set[int], lambda n, t: {t * 10 + i for i in range(n)}
    if vk == "child":
        return Child, lambda n, t: Child(xs=[t * 10 + i for i in range(n)])
    if vk == "children":
        return List[Child], lambda n, t: [Child(xs=[t * 10 + i]) for i in range(n)]
    if vk == "table":
        return Dict[str, Child], lambda n, t: {f"k{i}": Child(xs=[t * 10 + i]) for i in range(n)}
    raise ValueError(vk)


def _child_class():
    if "Child" not in _CLASSES:
        from typing import List

        from spec_classes import spec_class

        @spec_class(bootstrap=True)
        class Child:
            xs: List[int] = []
            tag: str = ""

        _CLASSES["Child"] = Child
    return _CLASSES["Child"]


def classes(vk, variant):
    """(M, Outer) for a value kind and a class variant (built once per process and repo)."""
    key = (vk, variant)
    if key in _CLASSES:
        return _CLASSES[key]
    from typing import Dict, List

    from spec_classes import Attr, spec_class, spec_property
    from spec_classes.types import Alias

    T, mk = _value_kind(vk)
    kw = {}
    if variant != "lazy":
        kw["bootstrap"] = True
    if variant == "frozen":
        kw["frozen"] = True
    if variant == "dnc":
        kw["do_not_copy"] = list(DNC_ATTRS)

    @spec_class(**kw)
    class M:
        label: str = ""
        n: int = 0
        base: T = Attr(default_factory=lambda: mk(2, 1))
        cached: T
        cached_no: T
        cached_inv: T
        cached_ref: T
        over: T
        al: T = Alias("base")
        alp: T = Alias("base", passthrough=True)
        alf: T = Alias("nowhere", fallback=mk(2, 0))  # nothing to alias: every read hands out the fallback
        pr: T
        sps: T

        @spec_property(cache=True)
        def cached(self):
            return mk(2, 2)

        @spec_property(cache=True, overridable=False)
        def cached_no(self):
            return mk(2, 3)

        @spec_property(cache=True, invalidated_by=["n"])
        def cached_inv(self):
            return mk(2, 4)

        @spec_property(cache=True)
        def cached_ref(self):
            return self.base

        @spec_property
        def over(self):
            return mk(2, 5)

        @property
        def pr(self):
            return self._pr

        @pr.setter
        def pr(self, v):
            self._pr = v

        @spec_property
        def sps(self):
            return self._sps

        @sps.setter
        def sps(self, v):
            self._sps = v

        @spec_property(cache=True)
        def unann(self):
            return mk(2, 6)

        @functools.cached_property
        def fcp(self):
            return mk(2, 7)

    cls = M
    if variant in ("sub", "sub2", "dncsub"):
        skw = {"bootstrap": True}
        if variant == "dncsub":
            skw["do_not_copy"] = list(DNC_ATTRS)

        @spec_class(**skw)
        class S(M):
            extra: int = 0

        cls = S
        if variant == "sub2":

            @spec_class(bootstrap=True)
            class S2(S):
                more: List[int] = []

            cls = S2
    elif variant == "plain":

        class P(M):
            pass

        cls = P

    @spec_class(bootstrap=True)
    class Outer:
        name: str = ""
        inner: cls
        members: List[cls]
        table: Dict[str, cls]

    # what the class DEFINITIONS declare about do_not_copy (the oracle never judges by the library's own metadata)
    chain = [k for k in cls.__mro__ if k is not object]
    for k in chain + [Outer, _child_class()]:
        H.DECLARED_CLASS_DNC[k] = False
        dnc_here = variant == "dnc" or (variant == "dncsub" and k is not M)
        H.DECLARED_ATTR_DNC[k] = {a: bool(dnc_here and a in DNC_ATTRS and k not in (Outer, _child_class())) for a in k.__spec_class__.attrs}
    _CLASSES[key] = (cls, Outer, mk)
    return _CLASSES[key]


def reset_classes():
    _CLASSES.clear()
    _IFACE.clear()


# ---------------------------------------------------------------------------
# building a receiver
# ---------------------------------------------------------------------------


class NotApplicable(Exception):
    pass


def _quiet(fn, *a, **k):
    return fn(*a, **k)  # (warnings are silenced once per scenario, in `run_scenario`)


def make_receiver(sc, salt=0):
    """An instance of the scenario's class with the chosen entries materialised, `gen` derivations old."""
    cls, _Outer, mk = classes(sc["vk"], sc["variant"])
    n, mode, mat = sc["n"], sc["mode"], sc["mat"]
    frozen = sc["variant"] == "frozen"
    if mode == "inplace" and frozen:
        raise NotApplicable("in-place assignment on a frozen class")
    assigned = [a for a in mat if a in SETTABLE]
    # `pr` / `sps` read their backing field: always give them one
    for a in ("pr", "sps"):
        if a not in assigned:
            assigned.append(a)
    kwargs = {"base": mk(n, 8 + salt)}
    tagno = 10 + 20 * salt
    values = {}
    for a in assigned:
        tagno += 1
        values[a] = mk(n, tagno)
    if mode == "ctor" or frozen:
        early = [a for a in assigned if mode == "ctor" or a in ("pr", "sps")]
    else:
        early = [a for a in ("pr", "sps")]
    obj = _quiet(cls, **kwargs, **{a: values[a] for a in early})
    for a in assigned:
        if a in early:
            continue
        if mode == "inplace":
            _quiet(setattr, obj, a, values[a])
        else:
            obj = _quiet(getattr(obj, "with_" + a), values[a])
    if "scratch" in mat:
        if frozen:
            obj.__dict__["scratch"] = mk(n, 9)
        else:
            obj.scratch = mk(n, 9)
    when = sc.get("when", "before")
    if when == "before":
        for a in mat:
            if a in ON_ACCESS and a not in assigned:
                getattr(obj, a)
    for _ in range(sc["gen"]):
        obj = obj.with_label(obj.label + "g")
    if when == "after":
        for a in mat:
            if a in ON_ACCESS and a not in assigned:
                getattr(obj, a)
    return obj


def make_root(sc):
    """(root, target): `root` is what the route is applied to; `target` the M instance inside it."""
    holder = sc["holder"]
    if holder == "self":
        r = make_receiver(sc)
        return r, r
    _cls, Outer, _mk = classes(sc["vk"], sc["variant"])
    a, b, c = make_receiver(sc, 0), make_receiver(sc, 1), make_receiver(sc, 2)
    o = Outer(inner=a, members=[b], table={"k": c})
    return o, {"attr": a, "member": b, "table": c}[holder]


# ---------------------------------------------------------------------------
# derivation routes: name -> fn(root, mk, n) -> (result, objects handed in by the caller)
# ---------------------------------------------------------------------------


def _ident(v):
    return v


def _self_routes():
    def with_(attr, tag):
        def f(r, mk, n):
            v = mk(n, tag)
            return _quiet(getattr(r, "with_" + attr), v), [v]

        return f

    def call(helper, *a, **k):
        return lambda r, mk, n: (_quiet(getattr(r, helper), *a, **k), [])

    def elem(attr):
        def f(r, mk, n):
            from spec_classes.utils.naming import get_singular_form

            helper = getattr(r, "with_" + get_singular_form(attr))
            cur = getattr(r, attr)
            if isinstance(cur, list):
                item = mk(1, 40)[0] if isinstance(mk(1, 40), list) else 41
                return _quiet(helper, item), [item]
            if isinstance(cur, dict):
                item = next(iter(mk(1, 42).values()))
                return _quiet(helper, "knew", item), [item]
            if isinstance(cur, set):
                return _quiet(helper, 4242), []
            raise NotApplicable("not a collection")

        return f

    routes = {
        "deepcopy": lambda r, mk, n: (copy.deepcopy(r), []),
        "copy+deepcopy": lambda r, mk, n: (copy.deepcopy(copy.copy(r)), []),
        "with_label": call("with_label", "x"),
        "update(label)": call("update", label="y"),
        "transform(label)": call("transform", label=lambda v: v + "!"),
        "reset_label": call("reset_label"),
        "with_n": call("with_n", 5),
        "update(n,label)": call("update", n=6, label="z"),
        "with_base": with_("base", 30),
        "transform_base(ident)": call("transform_base", _ident),
        "update_base()": call("update_base"),
        "reset_base": call("reset_base"),
        "with_base_item": elem("base"),
        "reset()": call("reset"),
        "transform(base=ident)": call("transform", base=_ident),
    }
    for a, t in (("over", 31), ("al", 32), ("alp", 33), ("pr", 34), ("sps", 35), ("cached", 36), ("cached_ref", 37)):
        routes[f"with_{a}"] = with_(a, t)
    for a in ("over", "al", "cached", "cached_inv", "pr"):
        routes[f"reset_{a}"] = call(f"reset_{a}")
    for a in ("over", "cached", "al", "pr"):
        routes[f"transform_{a}(ident)"] = call(f"transform_{a}", _ident)
        routes[f"update_{a}()"] = call(f"update_{a}")
    routes["with_over_item"] = elem("over")
    routes["with_cached_item"] = elem("cached")
    return routes


def _outer_routes(sc):
    def inst(mk, n):
        return make_receiver(dict(sc, gen=0), salt=3)

    def with_member(o, mk, n):
        v = inst(mk, n)
        return _quiet(o.with_member, v), [v]

    def with_table(o, mk, n):
        v = inst(mk, n)
        return _quiet(o.with_table_item, "new", v), [v]

    def with_inner(o, mk, n):
        v = inst(mk, n)
        return _quiet(o.with_inner, v), [v]

    def c(helper, *a, **k):
        return lambda o, mk, n: (_quiet(getattr(o, helper), *a, **k), [])

    return {
        "deepcopy(outer)": lambda o, mk, n: (copy.deepcopy(o), []),
        "outer.with_name": c("with_name", "x"),
        "outer.update(name)": c("update", name="y"),
        "outer.transform(name)": c("transform", name=lambda v: v + "!"),
        "outer.reset_name": c("reset_name"),
        "outer.update_inner(label)": c("update_inner", label="q"),
        "outer.update_inner()": c("update_inner"),
        "outer.transform_inner(ident)": c("transform_inner", _ident),
        "outer.transform_inner(label)": c("transform_inner", label=lambda v: v + "!"),
        "outer.with_inner(new)": with_inner,
        "outer.with_member(new)": with_member,
        "outer.update_member(0,label)": c("update_member", 0, label="z"),
        "outer.transform_member(0,ident)": c("transform_member", 0, _ident),
        "outer.transform_members(ident)": c("transform_members", _ident),
        "outer.update_members()": c("update_members"),
        "outer.with_table_item(new)": with_table,
        "outer.update_table_item(k,label)": c("update_table_item", "k", label="z"),
        "outer.transform_table_item(k,ident)": c("transform_table_item", "k", _ident),
        "outer.transform(inner=ident)": c("transform", inner=_ident),
    }


# (Fixed finding d2528ed: `transform_<a>(lambda v: v)` / `update_<a>()` on an attribute whose value is NOT stored under
# `__dict__[<a>]` -- builtin property / spec_property with a setter writing `_a`; Alias with or without a local override;
# an uncached spec_property returning `self.other` -- handed the receiver's own object to the copy. The routes are part
# of the generated scenarios, so a regression is an ordinary violation.)
KNOWN_DEFECT_ROUTES = ()
SELF_ROUTES = tuple(r for r in _self_routes() if r not in KNOWN_DEFECT_ROUTES)
OUTER_ROUTES = tuple(_outer_routes({"vk": "list", "variant": "base", "n": 0, "mode": "ctor", "mat": [], "gen": 0}))


def routes_for(holder):
    return SELF_ROUTES if holder == "self" else OUTER_ROUTES


# ---------------------------------------------------------------------------
# the oracle
# ---------------------------------------------------------------------------

_SCALARS = (bool, int, float, str, bytes, type)


_IFACE = {}


def interface_names(obj):
    """Every attribute of a spec instance a user can read: declared attributes, descriptor attributes of the class
    (spec_property / property / cached_property / Alias, annotated or not) and whatever else sits in `__dict__`."""
    cls = type(obj)
    names = _IFACE.get(cls)
    if names is None:
        names = list(cls.__spec_class__.attrs)
        for k in cls.__mro__:
            for name, v in vars(k).items():
                if name.startswith("__") or name in names:
                    continue
                if isinstance(v, (property, functools.cached_property)) or type(v).__name__ in ("spec_property", "Alias", "DeprecatedAlias", "cached_property"):
                    names.append(name)
        _IFACE[cls] = names
    extra = [name for name in obj.__dict__ if name not in names and not name.startswith("__spec_class")]
    return names + extra if extra else names


def _read(obj, name):
    try:
        return True, getattr(obj, name)
    except Exception as e:  # noqa: BLE001
        return False, type(e).__name__


def view_ids(obj, out=None, depth=0):
    """id -> object for every mutable object visible from `obj` through containers, instance `__dict__`s and the
    attribute interface of spec instances.  (Objects a getter builds anew on every read are included; they are kept
    alive by `out`, so their ids cannot be re-used while the two sides are compared.)"""
    if out is None:
        out = {}
    if obj is None or isinstance(obj, _SCALARS) or id(obj) in out or depth > 30:
        return out
    if type(obj) is list:
        out[id(obj)] = obj
        for x in obj:
            view_ids(x, out, depth + 1)
    elif type(obj) is dict:
        out[id(obj)] = obj
        for x in obj.values():
            view_ids(x, out, depth + 1)
    elif type(obj) is set:
        out[id(obj)] = obj
    elif hasattr(type(obj), "__spec_class__") and hasattr(obj, "__dict__"):
        out[id(obj)] = obj
        for x in list(obj.__dict__.values()):
            view_ids(x, out, depth + 1)
        for name in interface_names(obj):
            ok, v = _read(obj, name)
            if ok:
                view_ids(v, out, depth + 1)
    else:
        H.mutable_ids(obj, None, out)
    return out


def view_content(obj, depth=0):
    """Identity-free content as seen through the attribute interface."""
    if obj is None or isinstance(obj, _SCALARS):
        return obj
    if depth > 30:
        return "..."
    if type(obj) is list:
        return ["list"] + [view_content(x, depth + 1) for x in obj]
    if type(obj) is dict:
        return {"dict": [(k, view_content(v, depth + 1)) for k, v in obj.items()]}
    if type(obj) is set:
        return {"set": sorted(map(repr, obj))}
    if hasattr(type(obj), "__spec_class__") and hasattr(obj, "__dict__"):
        items = []
        for name in interface_names(obj):
            ok, v = _read(obj, name)
            items.append((name, view_content(v, depth + 1) if ok else ("raises", v)))
        return {"inst": type(obj).__name__, "view": sorted(items, key=lambda kv: kv[0])}
    return H.content(obj)


def dict_content(obj):
    return H.content(obj)


def _where(root, target_ids, path="", seen=None, depth=0):
    """Paths (through `__dict__` entries / items) under which objects with the given ids sit."""
    if seen is None:
        seen = set()
    out = []
    if root is None or isinstance(root, _SCALARS) or id(root) in seen or depth > 12:
        return out
    seen.add(id(root))
    if id(root) in target_ids:
        out.append(path or ".")
    if type(root) is list:
        for i, x in enumerate(root):
            out += _where(x, target_ids, f"{path}[{i}]", seen, depth + 1)
    elif type(root) is dict:
        for k, x in root.items():
            out += _where(x, target_ids, f"{path}[{k!r}]", seen, depth + 1)
    elif hasattr(root, "__dict__") and hasattr(type(root), "__spec_class__"):
        for k, x in root.__dict__.items():
            out += _where(x, target_ids, f"{path}.__dict__[{k!r}]", seen, depth + 1)
    return out


def dnc_allowed(obj, out=None, seen=None):
    """ids reachable through attributes declared do_not_copy (declared for the class the instance belongs to)."""
    return H.dnc_held_ids(obj, out, seen)


def judge(label, recv, res, handed, targeted=()):
    """-> list of violation strings for one derivation `res` of `recv`."""
    out = []
    allowed = {}
    for o in handed:
        H.mutable_ids(o, None, allowed)
    dnc_allowed(recv, allowed)
    # (ii) do_not_copy attributes carried by identity
    if type(res) is type(recv) and hasattr(type(recv), "__spec_class__"):
        for a in list(type(recv).__spec_class__.attrs):
            if a in targeted or a not in recv.__dict__ or not H.declared_attr_dnc(type(recv), a):
                continue
            v = recv.__dict__[a]
            if v is None or isinstance(v, _SCALARS):
                continue
            if res.__dict__.get(a) is not v:
                out.append(f"{label}: do_not_copy attribute `{a}` was not carried by identity")
    # (i) through the instance __dict__s
    r_ids, s_ids = H.mutable_ids(res), H.mutable_ids(recv)
    shared = {i for i in r_ids if i in s_ids and i not in allowed}
    if shared:
        kinds = sorted({type(r_ids[i]).__name__ for i in shared})
        out.append(f"{label}: result shares {len(shared)} mutable object(s) ({kinds}) with the receiver, at {sorted(set(_where(res, shared)))[:6]}")
        return out
    # (i) through the attribute interface (kept alive in rv / sv)
    rv, sv = view_ids(res), view_ids(recv)
    for o in handed:
        view_ids(o, allowed)
    vshared = {i for i in rv if i in sv and i not in allowed}
    if vshared:
        kinds = sorted({type(rv[i]).__name__ for i in vshared})
        out.append(f"{label}: through their attributes, result and receiver show {len(vshared)} common mutable object(s) ({kinds})")
        return out
    # (iii) differential probes: all objects of one side at once; one by one only to name the culprit
    for side, other, ids in (("result", recv, rv), ("receiver", res, sv)):
        before = view_content(other)
        objs = [o for i, o in ids.items() if i not in allowed]
        undos = [H.probe_mutate(o) for o in objs]
        moved = view_content(other) != before
        for u in reversed(undos):
            u()
        if not moved:
            continue
        for o in objs:
            undo = H.probe_mutate(o)
            moved = view_content(other) != before
            undo()
            if moved:
                out.append(f"{label}: an in-place change of a {type(o).__name__} of the {side} is visible through the other instance")
                return out
        out.append(f"{label}: in-place changes of objects of the {side} are visible through the other instance")
        return out
    return out


def _targeted(route):
    """attributes the call itself re-assigns (for the do_not_copy identity clause)"""
    if route == "reset()":
        return tuple(ENTRIES) + ("base", "label", "n", "alp")
    for pre in ("with_", "reset_", "transform_", "update_"):
        if route.startswith(pre):
            a = route[len(pre):].split("(")[0]
            if a.endswith("_item"):
                a = a[: -len("_item")]
            return (a, "base") if a == "alp" else (a,)  # (`alp` passes assignments through to `base`)
    return ()


def run_scenario(sc):
    """-> (status, violations): status 'ok' | 'n/a' (the scenario does not apply) | 'raises:<Class>'."""
    with warnings.catch_warnings():
        warnings.simplefilter("ignore")
        return _run_scenario(sc)


def _run_scenario(sc):
    try:
        root, target = make_root(sc)
    except NotApplicable:
        return "n/a", []
    _cls, _Outer, mk = classes(sc["vk"], sc["variant"])
    table = _self_routes() if sc["holder"] == "self" else _outer_routes(sc)
    fn = table.get(sc["route"])
    if fn is None:
        return "n/a", []
    try:
        res, handed = fn(root, mk, sc["n"])
    except NotApplicable:
        return "n/a", []
    except Exception as e:  # noqa: BLE001  (helpers that do not apply to this entry kind: not C02's subject)
        return "raises:" + type(e).__name__, []
    if res is root:
        return "same", []
    label = f"{sc['route']} on {describe(sc)}"
    return "ok", judge(label, root, res, handed, _targeted(sc["route"]) if sc["holder"] == "self" else ())


def describe(sc):
    return (
        f"a generation-{sc['gen']} instance of the `{sc['variant']}` class with {sc['vk']} values of size {sc['n']}, "
        f"entries {'+'.join(sc['mat']) or '-'} materialised ({sc['mode']}, {sc.get('when', 'before')} the derivations)"
        + ("" if sc["holder"] == "self" else f", held as `{sc['holder']}` of an outer instance")
    )


# ---------------------------------------------------------------------------
# scenario generation
# ---------------------------------------------------------------------------


def core_scenarios():
    """Systematic part: every value kind x class variant x route with all entries materialised (sizes 0 and 2,
    receiver fresh or derived once, materialisation mode cycling), every single entry on its own with the plain
    routes, and every holder shape."""
    k = 0
    for vk in VALUE_KINDS:
        for variant in VARIANTS:
            for route in SELF_ROUTES:
                k += 1
                yield {
                    "vk": vk, "variant": variant, "n": (2, 0)[k % 2], "mode": MODES[k % 3], "mat": list(ENTRIES),
                    "gen": (0, 1, 2)[k % 3 if k % 5 else 0], "when": "before", "holder": "self", "route": route,
                }
    for vk in VALUE_KINDS:
        for entry in ENTRIES:
            for route in ("deepcopy", "with_label", "update(n,label)", "reset_base", "with_base_item"):
                k += 1
                yield {
                    "vk": vk, "variant": ("base", "sub", "plain", "frozen")[k % 4], "n": 2, "mode": MODES[k % 3], "mat": [entry],
                    "gen": k % 2, "when": ("before", "after")[(k // 2) % 2], "holder": "self", "route": route,
                }
    for vk in VALUE_KINDS:
        for holder in HOLDERS[1:]:
            for route in OUTER_ROUTES:
                k += 1
                yield {
                    "vk": vk, "variant": VARIANTS[k % len(VARIANTS)], "n": (2, 0)[k % 2], "mode": MODES[k % 3], "mat": list(ENTRIES),
                    "gen": k % 2, "when": "before", "holder": holder, "route": route,
                }


def random_scenario(rng):
    holder = rng.choice(HOLDERS) if rng.random() < 0.4 else "self"
    mat = [e for e in ENTRIES if rng.random() < 0.5] or [rng.choice(ENTRIES)]
    return {
        "vk": rng.choice(VALUE_KINDS), "variant": rng.choice(VARIANTS), "n": rng.choice((0, 1, 2, 3)), "mode": rng.choice(MODES),
        "mat": mat, "gen": rng.choice((0, 0, 1, 2, 3)), "when": rng.choice(("before", "after")), "holder": holder,
        "route": rng.choice(routes_for(holder)),
    }


def minimise(sc):
    """Greedy reduction of a violating scenario (fewer entries, younger receiver, no holder, plainer class)."""
    def bad(c):
        try:
            return bool(run_scenario(c)[1])
        except Exception:  # noqa: BLE001
            return False

    cur = dict(sc)
    for entry in list(cur["mat"]):
        if len(cur["mat"]) > 1 and bad(dict(cur, mat=[entry])):
            cur = dict(cur, mat=[entry])
            break
    for entry in list(cur["mat"]):
        smaller = [e for e in cur["mat"] if e != entry]
        if smaller and bad(dict(cur, mat=smaller)):
            cur = dict(cur, mat=smaller)
    for key, value in (("gen", 0), ("variant", "base"), ("when", "before"), ("mode", "inplace"), ("vk", "list")):
        if cur[key] != value and bad(dict(cur, **{key: value})):
            cur = dict(cur, **{key: value})
    return cur


def sweep(tier, rng):
    """-> (evaluations, keys, violations, status histogram)"""
    n_random = 400 if tier == "quick" else 20000
    evaluations, keys, violations, hist = 0, [], [], {}
    core = list(core_scenarios())
    if tier == "quick":  # every other scenario of the systematic part (which half depends on the seed); thorough: all
        core = core[rng.randrange(2) :: 2]
    scenarios = core + [random_scenario(rng) for _ in range(n_random)]
    for sc in scenarios:
        status, v = run_scenario(sc)
        hist[status] = hist.get(status, 0) + 1
        if status != "ok":
            continue
        evaluations += 1
        keys.append(("masked", sc["vk"], sc["variant"], sc["n"], sc["mode"], tuple(sc["mat"]), sc["gen"], sc["when"], sc["holder"], sc["route"]))
        if v:
            if len(violations) < 3:
                small = minimise(sc)
                if small != sc:
                    sc, v = small, run_scenario(small)[1] or v
            violations.append({"case": {"masked": sc}, "violation": v})
    return evaluations, keys, violations, hist
