"""
C02 -- correspondence of the real descriptor layer with `SpecVerif.C02Masked` (lean/SpecVerif/Model/C02Masked.lean)
through `lean/Drivers/C02Masked.lean`.

A case = class table of the heap grammar (C0 nested class, C1 main class, optionally C2 spec/plain subclass) in which
some attributes of C1 are *masked* by a descriptor (spec_property cached / overridable / with a setter, Alias local /
passthrough / with fallback, builtin property with or without setter; annotated or, for spec_property, not annotated;
attribute-level do_not_copy on a masked attribute; frozen classes) x a history of operations generated while executing
them on the real code: constructor, `getattr` (fills caches), in-place assignment and deletion, `with_<a>` / `reset_<a>`
(copy-on-write and in place), `copy.deepcopy`; receivers of every generation.

Compared after every line: outcome class and the canonical world = the `__dict__` of every live instance (entries under
the attribute's own name, `_a<k>` backing fields, `__spec_classes_Alias_a<k>_override`) with identities renumbered by
first appearance, i.e. which entry of which instance is the same object (the alias pattern), real (`id`) vs model.
Every derivation of the history is also judged by the oracle of `c02_masked.py` (no model involved).
"""
import copy
import warnings

import heap_common as H

DRIVER = "Drivers/C02Masked.lean"


def slot_name(n: int) -> str:
    if n < 100:
        return f"a{n}"
    if n < 200:
        return f"_a{n - 100}"
    return f"__spec_classes_Alias_a{n - 200}_override"


def name_to_num(name: str):
    if name.startswith("__spec_classes_Alias_a") and name.endswith("_override"):
        k = name[len("__spec_classes_Alias_a") : -len("_override")]
        return 200 + int(k) if k.isdigit() else None
    if name.startswith("_a") and name[2:].isdigit():
        return 100 + int(name[2:])
    if name.startswith("a") and name[1:].isdigit():
        return int(name[1:])
    return None


# ---------------------------------------------------------------------------
# tables
# ---------------------------------------------------------------------------

VALUE_KINDS = ("li", "dsi", "si", "spec:0", "ls:0")


def _value_lit(kind, rng, empty_ok=True):
    if kind == "spec:0":
        return "inst:0"
    if kind == "ls:0":
        return f"linst:0:{rng.choice([0, 1, 2]) if empty_ok else rng.choice([1, 2])}"
    return H._lit_for(kind, rng, empty_ok)


def gen_table(rng):
    c0 = {"attrs": [{"name": 0, "kind": "li", "owner": 0, "dk": "factory", "lit": "list:i1"}], "postcopy": 0}
    K = rng.choice(VALUE_KINDS)
    attrs = [
        {"name": 0, "kind": "str", "owner": 1, "dk": "factory", "lit": "sc:s1"},
        {"name": 1, "kind": "int", "owner": 1, "dk": "factory", "lit": "sc:i0"},
        {"name": 2, "kind": K, "owner": 1, "dk": "factory", "lit": _value_lit(K, rng)},
    ]
    descs = []
    n_masked = rng.randrange(2, 6)
    readable = [2]  # attribute numbers a getter / alias may refer to (no cycles: only earlier ones)
    for a in range(3, 3 + n_masked):
        annotated = True
        r = rng.random()
        if r < 0.45:
            g = rng.random()
            if g < 0.5:
                getter = "lit~" + _value_lit(K, rng)
            elif g < 0.8 or K not in ("li", "ls:0"):
                getter = f"attr~{rng.choice(readable)}"
            else:
                getter = f"listof~{rng.choice(readable)}"
            d = {"kind": "sp", "ov": int(rng.random() < 0.6), "cache": int(rng.random() < 0.65), "g": getter, "fset": None}
            annotated = rng.random() < 0.85
        elif r < 0.55:
            d = {"kind": "sp", "ov": int(rng.random() < 0.5), "cache": 0, "g": f"attr~{100 + a}", "fset": 100 + a}
        elif r < 0.8:
            fb = None
            if rng.random() < 0.3 and K in ("li", "dsi", "si"):
                fb = _value_lit(K, rng)
            d = {"kind": "alias", "target": rng.choice(readable), "slot": 200 + a, "pass": int(rng.random() < 0.3), "fb": fb}
        else:
            d = {"kind": "prop", "slot": 100 + a, "setter": int(rng.random() < 0.85)}
        d.update({"c": 1, "a": a, "annotated": annotated})
        descs.append(d)
        if annotated:
            attr = {"name": a, "kind": K, "owner": 1}
            if rng.random() < 0.2:
                attr["dnc"] = 1
            attrs.append(attr)
        readable.append(a)
    c1 = {"attrs": attrs, "postcopy": 0}
    if rng.random() < 0.12:
        c1["frozen"] = 1
    classes = [c0, c1]
    if rng.random() < 0.4:
        plain = rng.random() < 0.35
        sub_attrs = [dict(a) for a in attrs]
        if not plain:
            sub_attrs.append({"name": 9, "kind": "int", "owner": 2, "dk": "factory", "lit": "sc:i3"})
        classes.append({"attrs": sub_attrs, "base": 1, "plain": int(plain), "frozen": c1.get("frozen", 0), "postcopy": 0})
        descs += [dict(d, c=2, inherited=True) for d in descs]
    return {"classes": classes, "descs": descs, "K": K}


def desc_lines(table):
    out = []
    for d in table["descs"]:
        if d["kind"] == "sp":
            out.append(f"desc {d['c']} {d['a']} sp ov={d['ov']} cache={d['cache']} g={d['g']} fset={'-' if d['fset'] is None else d['fset']}")
        elif d["kind"] == "alias":
            out.append(f"desc {d['c']} {d['a']} alias target={d['target']} slot={d['slot']} pass={d['pass']} fb={d['fb'] or '-'}")
        else:
            out.append(f"desc {d['c']} {d['a']} prop slot={d['slot']} setter={d['setter']}")
    return out


def table_lines(table):
    ls = H.table_lines(table)
    assert ls[-1] == "boot"
    return ls[:-1] + desc_lines(table) + ["boot"]


def source(table) -> str:
    """The classes of the heap grammar + the descriptor definitions, as Python source."""
    base_src = H.table_source(table).split("\n")
    out = []
    cur = None
    per_class = {}
    for d in table["descs"]:
        if not d.get("inherited"):
            per_class.setdefault(d["c"], []).append(d)
    for line in base_src:
        if line.startswith("class C"):
            cur = int(line[len("class C") :].split("(")[0].split(":")[0])
        if line == "" and cur is not None:
            for d in per_class.get(cur, []):
                out.extend(_desc_source(table, d))
            cur = None
        out.append(line)
    return "\n".join(out)


def _desc_source(table, d):
    name = f"a{d['a']}"
    K = H.kind_src(table["K"])
    out = []
    if d["kind"] == "sp":
        kind, _, body = d["g"].partition("~")
        if kind == "lit":
            expr = H.lit_to_src(body)
        elif kind == "attr":
            expr = f"self.{slot_name(int(body))}"
        else:
            expr = f"list(self.{slot_name(int(body))})"
        out += [
            f"    @spec_property(overridable={bool(d['ov'])}, cache={bool(d['cache'])})",
            f"    def {name}(self):",
            f"        return {expr}",
        ]
        if d["fset"] is not None:
            out += [f"    @{name}.setter", f"    def {name}(self, value):", f"        self.{slot_name(d['fset'])} = value"]
    elif d["kind"] == "alias":
        fb = f", fallback={H.lit_to_src(d['fb'])}" if d["fb"] else ""
        ann = f": {K}" if d["annotated"] else ""
        # (the annotation line `aN: K` is already there: an annotated assignment replaces it)
        out.append(f"    {name}{ann} = Alias({slot_name(d['target'])!r}, passthrough={bool(d['pass'])}{fb})")
    else:
        out += ["    @property", f"    def {name}(self):", f"        return self.{slot_name(d['slot'])}"]
        if d["setter"]:
            out += [f"    @{name}.setter", f"    def {name}(self, value):", f"        self.{slot_name(d['slot'])} = value"]
    return out


def build_classes(table):
    import dataclasses
    from typing import Dict, List, Set

    from spec_classes import Attr, spec_class, spec_property
    from spec_classes.types import MISSING, Alias

    ns = {
        "spec_class": spec_class, "spec_property": spec_property, "Alias": Alias, "Attr": Attr, "MISSING": MISSING,
        "dataclasses": dataclasses, "List": List, "Dict": Dict, "Set": Set, "POOL": H.POOL, "apply_cb": H.apply_cb,
    }
    exec(compile(source(table), "<maskedgen>", "exec", dont_inherit=True), ns)
    classes = [ns[f"C{c}"] for c in range(len(table["classes"]))]
    for cls in classes:
        cls.__spec_class__  # force (lazy) bootstrap
    return classes


# ---------------------------------------------------------------------------
# the world
# ---------------------------------------------------------------------------


class World:
    def __init__(self, table):
        self.table = table
        self.classes = build_classes(table)
        self.cls_index = {cls: c for c, cls in enumerate(self.classes)}
        for c, cd in enumerate(table["classes"]):
            H.DECLARED_CLASS_DNC[self.classes[c]] = False
            H.DECLARED_ATTR_DNC[self.classes[c]] = {H.attr_name(a["name"]): bool(a.get("dnc")) for a in cd["attrs"]}
        self.vars = {}
        self.args = {}

    def roots(self):
        return [(f"a{n}", self.args[n]) for n in sorted(self.args)] + [(f"v{n}", self.vars[n]) for n in sorted(self.vars)]

    def show(self, ret=None) -> str:
        seen = {}
        keep = []

        def show(v, depth=0):
            tok = H.py_to_sc(v)
            if tok is not None:
                return tok
            if depth > 60:
                return "?"
            if id(v) in seen:
                return f"#{seen[id(v)]}"
            k = len(seen)
            seen[id(v)] = k
            keep.append(v)
            if type(v) is list:
                return f"L{k}[" + ",".join(show(x, depth + 1) for x in v) + "]"
            if type(v) is dict:
                return f"D{k}{{" + ",".join(f"{H.py_to_sc(kk) or '?key'}:{show(x, depth + 1)}" for kk, x in v.items()) + "}"
            if type(v) is set:
                toks = sorted((H.py_to_sc(x) or "?elem" for x in v), key=H.sc_sort_key)
                return f"S{k}{{" + ",".join(toks) + "}"
            c = self.cls_index.get(type(v))
            if c is not None:
                d = v.__dict__
                thaw = "!" if "__spec_class_initializing__" in d else ""
                fields, odd = [], []
                for key, val in d.items():
                    num = name_to_num(key)
                    if num is not None:
                        fields.append((num, val))
                    elif key != "__spec_class_initializing__":
                        odd.append(key)
                fields.sort(key=lambda t: t[0])
                return (
                    f"I{k}:c{c}{thaw}{{" + ",".join(f"{a}={show(x, depth + 1)}" for a, x in fields) + "".join(f",?{o}" for o in sorted(odd)) + "}"
                )
            return f"?{type(v).__name__}{k}"

        roots = self.roots() + ([("ret", ret[0])] if ret is not None else [])
        return " ".join(f"{name}={show(v)}" for name, v in roots)

    def resolve(self, tok: str):
        if not tok.startswith("@"):
            return H.sc_to_py(tok)
        s = tok[1:]
        i = 1
        while i < len(s) and s[i].isdigit():
            i += 1
        n = int(s[1:i])
        root = self.vars if s[0] == "v" else self.args if s[0] == "a" else None
        if root is None or n not in root:
            raise LookupError(tok)
        obj = root[n]
        rest = s[i:]
        while rest:
            if rest[0] == ".":
                j = 1
                while j < len(rest) and rest[j].isdigit():
                    j += 1
                key = slot_name(int(rest[1:j]))
                if type(obj) not in self.cls_index or key not in obj.__dict__:
                    raise LookupError(tok)
                obj = obj.__dict__[key]
                rest = rest[j:]
            elif rest[0] == "[":
                j = rest.index("]")
                idx = int(rest[1:j])
                if type(obj) is not list or not (-len(obj) <= idx < len(obj)):
                    raise LookupError(tok)
                obj = obj[idx]
                rest = rest[j + 1 :]
            else:
                raise LookupError(tok)
        return obj


def lit_to_py(lit, world):
    return H.lit_to_py(lit, world)


def build_call(world, toks):
    """-> (thunk, receiver or None, argument objects, is_get)"""
    name = toks[0]
    if name == "new":
        cls = world.classes[int(toks[1])]
        kw = {}
        for t in toks[2:]:
            a, v = t[1:].split("=")
            kw[H.attr_name(int(a))] = world.resolve(v)
        return (lambda: cls(**kw)), None, list(kw.values()), False
    r = world.resolve(toks[1])
    if name == "copy":
        return (lambda: copy.deepcopy(r)), r, [], False
    a = int(toks[2])
    if name == "get":
        return (lambda: getattr(r, slot_name(a))), r, [], True
    if name == "set":
        v = world.resolve(toks[3])

        def do_set():
            setattr(r, slot_name(a), v)
            return r

        return do_set, r, [v], False
    if name == "del":

        def do_del():
            delattr(r, slot_name(a))
            return r

        return do_del, r, [], False
    if name == "with":
        v = world.resolve(toks[3])
        ip = toks[4] == "ip=1"
        return (lambda: getattr(r, "with_" + slot_name(a))(v, _inplace=ip)), r, [v], False
    if name == "reset":
        ip = toks[3] == "ip=1"
        return (lambda: getattr(r, "reset_" + slot_name(a))(_inplace=ip)), r, [], False
    raise ValueError(name)


def run_line(world, line, on_derive=None):
    toks = line.split()
    if toks[0] == "arg":
        world.args[int(toks[1])] = lit_to_py(toks[2], world)
        return "ok ;; " + world.show()
    assert toks[0] == "op", line
    dst = toks[1]
    try:
        thunk, recv, args, is_get = build_call(world, toks[2:])
    except (LookupError, ValueError):
        return "bad-op"
    try:
        with warnings.catch_warnings():
            warnings.simplefilter("ignore")
            res = thunk()
    except Exception as e:  # noqa: BLE001
        return f"err {H.exc_name(e)} ;; " + world.show()
    if dst.startswith("v") and dst[1:].isdigit():
        world.vars[int(dst[1:])] = res
    if on_derive is not None and recv is not None and res is not recv and not is_get and hasattr(type(res), "__spec_class__"):
        on_derive(toks[2:], recv, res, args)
    return "ok ;; " + world.show(ret=(res,) if is_get else None)


def model_lines(case):
    return table_lines(case["table"]) + list(case["ops"])


def real_lines(case, on_derive=None):
    H.POOL.begin(())
    n = len(table_lines(case["table"]))
    out = ["ok"] * (n - 1) + ["ok ;; "]
    world = World(case["table"])
    for line in case["ops"]:
        out.append(run_line(world, line, on_derive))
    return out


# ---------------------------------------------------------------------------
# histories (generated while executing them on the real code)
# ---------------------------------------------------------------------------


def gen_case(rng):
    table = gen_table(rng)
    H.POOL.begin(())
    world = World(table)
    K = table["K"]
    ops = []
    n_args = 0
    classes = [c for c in range(1, len(table["classes"]))]
    names_by_class = {}
    for c in classes:
        attrs = [a["name"] for a in table["classes"][c]["attrs"]]
        extra = [d["a"] for d in table["descs"] if d["c"] == c and d["a"] not in attrs]
        names_by_class[c] = (attrs, extra)

    def emit(line):
        ops.append(line)
        return run_line(world, line)

    def fresh_value(kind=None):
        nonlocal n_args
        n = n_args
        n_args += 1
        emit(f"arg {n} {_value_lit(kind or K, rng)}")
        return f"@a{n}"

    def value():
        r = rng.random()
        live = [v for v in world.vars]
        if r < 0.12 and live:
            # an object that already sits in another instance (sharing of the caller's own doing)
            v = rng.choice(live)
            for slot in rng.sample([2, 3, 4, 5, 103, 104, 203, 204], 8):
                if slot_name(slot) in world.vars[v].__dict__:
                    return f"@v{v}.{slot}"
        if r < 0.2 and world.args:
            return f"@a{rng.choice(sorted(world.args))}"
        return fresh_value()

    n_vars = 0

    def new_var():
        nonlocal n_vars
        n_vars += 1
        return f"v{n_vars - 1}"

    c = rng.choice(classes)
    kw = f" k2={fresh_value()}" if rng.random() < 0.5 else ""
    emit(f"op {new_var()} new {c}{kw}")
    for _ in range(rng.randrange(6, 15)):
        if not world.vars:
            emit(f"op {new_var()} new {rng.choice(classes)}")
            continue
        v = rng.choice(sorted(world.vars))
        obj = world.vars[v]
        cidx = world.cls_index[type(obj)]
        attrs, extra = names_by_class[cidx]
        masked = [d["a"] for d in table["descs"] if d["c"] == cidx]
        target = rng.choice(masked + masked + attrs + extra)
        r = rng.random()
        if r < 0.08:
            emit(f"op {new_var()} new {rng.choice(classes)}")
        elif r < 0.30:
            emit(f"op - get @v{v} {target}")
        elif r < 0.42:
            emit(f"op - set @v{v} {target} {value() if target >= 2 else ('s2' if target == 0 else 'i4')}")
        elif r < 0.48:
            emit(f"op - del @v{v} {target}")
        elif r < 0.72:
            ip = int(rng.random() < 0.2)
            val = value() if target >= 2 and target != 9 else ("s2" if target == 0 else "i4")
            emit(f"op {'-' if ip else new_var()} with @v{v} {target} {val} ip={ip}")
        elif r < 0.84:
            ip = int(rng.random() < 0.2)
            emit(f"op {'-' if ip else new_var()} reset @v{v} {target} ip={ip}")
        else:
            emit(f"op {new_var()} copy @v{v}")
    return {"table": table, "ops": ops}


# ---------------------------------------------------------------------------
# running the tie
# ---------------------------------------------------------------------------


def oracle(case):
    """Judge every derivation of the history with the oracle of c02_masked.py (written from the property text)."""
    import c02_masked as CM

    violations = []

    def on_derive(toks, recv, res, args):
        name = toks[0]
        ip = toks[-1] == "ip=1"
        if name not in ("copy", "with", "reset") or ip:
            return
        # attributes the call itself re-assigns: the named one and, through passthrough aliases, its targets
        targeted = []
        if name in ("with", "reset"):
            a = int(toks[2])
            while a is not None and slot_name(a) not in targeted:
                targeted.append(slot_name(a))
                nxt = [d for d in case["table"]["descs"] if d["a"] == a and d["kind"] == "alias" and d["pass"]]
                a = nxt[0]["target"] if nxt else None
        with warnings.catch_warnings():
            warnings.simplefilter("ignore")
            violations.extend(CM.judge("`" + " ".join(toks) + "`", recv, res, args, targeted))

    real_lines(case, on_derive)
    return violations


def shrink(case):
    ops = case["ops"]
    for i in range(len(ops) - 1, 0, -1):
        yield {"table": case["table"], "ops": ops[:i]}


def run(tier, rng, run_driver):
    n = 110 if tier == "quick" else 2500
    cases = [gen_case(rng) for _ in range(n)]
    model_in, spans = [], []
    for c in cases:
        ls = model_lines(c)
        spans.append((len(model_in), len(ls)))
        model_in.extend(ls)
    model_out = run_driver(DRIVER, model_in)
    disagreements, violations, keys = [], [], []
    lines = 0
    tags = {}
    for c, (s, n_) in zip(cases, spans):
        real = real_lines(c)
        mo = model_out[s : s + n_]
        n_table = n_ - len(c["ops"])
        for i in range(n_table, n_):
            a, b = real[i], mo[i]
            lines += 1
            op = c["ops"][i - n_table].split()
            tag = (op[2] if op[0] == "op" else "arg") + ":" + a.split(" ;; ")[0].replace(" ", "-")
            tags[tag] = tags.get(tag, 0) + 1
            if a != b:
                disagreements.append({"case": {"masked_tie": c}, "at": i, "real": a, "model": b})
                break
            keys.append(("masked_tie", H.dumps(c["table"]), real[i - 1] if i else "", c["ops"][i - n_table]))
        v = oracle(c)
        if v:
            violations.append({"case": {"masked_tie": c}, "violation": v})
    return {"cases": len(cases), "lines": lines, "disagreements": disagreements, "violations": violations, "keys": keys, "tags": tags}
