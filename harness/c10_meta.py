"""
C10 — the ORDER of the attributes in the metadata (hence in `repr`, `==`, the constructor signature) through EVERY
decorator option that names attributes: `attrs`, `attrs_typed`, `attrs_skip`, `init_overflow_attr`, `key`, with and
without a parent spec class. Small scope, enumerated systematically (`space()`): a class body annotating `a`, `_p`
(private), `b`, `c` — any of which a decorator option may name as well —, attributes only the decorator names (`x`, `y`,
`w`), and a subclass whose body / options add attributes, re-annotate or name inherited ones.

Used by `corr_C10.py`: cases `{"meta": [class definitions]}`. The Lean side (`metaOrder` of `Model/C10H.lean`, driver
command `meta`) computes the key order of `metadata.attrs` from the declarations; the real side reads
`list(cls.__spec_class__.attrs)`. The oracle (no model) judges `repr` of real instances against the DECLARATION order
(`decl_order`: written from the property text and the decorator's documentation — inherited attributes first, then the
attributes of the class body in body order, then those only the decorator names in the order of its options), and checks
that `==` looks at every compare-enabled attribute, `deepcopy(x) == x` and re-construction on these classes.
"""
import itertools
import re

BODY = ["a", "_p", "b", "c"]          # annotated in the parent's body, in this order (ints with defaults)
DEFAULTS = {"a": 1, "_p": 0, "b": 2, "c": 3, "d": 4, "e": 5, "x": 7, "y": 8, "z": 9}


# ---------------------------------------------------------------------------
# the space of class definitions
# ---------------------------------------------------------------------------


def parent_defs():
    out = []
    combos = itertools.product(
        [None, [], ["b"], ["x"], ["x", "b"], ["c", "a"], ["y", "x"]],           # attrs
        [None, ["b"], ["y"], ["y", "a"]],                                        # attrs_typed (keys, dict order)
        [None, [], ["b"], ["c"]],                                                # attrs_skip
        [None, "a", "b", "c", "x", "w"],                                         # init_overflow_attr
        [None, "a", "c", "x"],                                                   # key
    )
    for k, (attrs, typed, skip, overflow, key) in enumerate(combos):
        if key is not None and key == overflow:
            continue
        named = set(attrs or []) | set(typed or []) | ({overflow} if overflow else set())
        cd = {"name": "A", "base": None, "body": list(BODY), "plain": ["x"] if k % 3 else ["x", "y"],
              "attrs": attrs, "typed": typed, "skip": skip, "overflow": overflow, "key": key, "eager": bool(k % 2),
              "frozen": k % 5 == 0, "flags": {}}
        # an option declared through `Attr(...)` on `c` — also when a decorator option names `c` as well (as overflow
        # attribute, in `attrs` / `attrs_typed`, as key): the option must survive (fixed finding
        # KF-C10-named-twice-options-lost, /repo 2c756f0)
        if k % 4 in (1, 2):
            cd["flags"]["c"] = "norepr" if k % 4 == 1 else "nocmp"
        out.append(cd)
    return out


def child_defs():
    out = []
    combos = itertools.product(
        [["d"], ["d", "a"], ["b", "d", "e"], []],                                # body (may re-annotate a / b)
        [None, ["a"], ["z"], ["z", "d"]],                                        # attrs
        [None, ["b"], ["d"]],                                                    # attrs_typed
        [None, [], ["d"]],                                                       # attrs_skip
        [None, "d", "z"],                                                        # init_overflow_attr
    )
    for k, (body, attrs, typed, skip, overflow) in enumerate(combos):
        out.append({"name": "B", "base": "A", "body": list(body), "plain": ["z"] if k % 2 else [], "attrs": attrs,
                    "typed": typed, "skip": skip, "overflow": overflow, "key": None, "eager": bool(k % 3 == 0),
                    "frozen": k % 4 == 0,
                    "flags": {**({"e": "norepr"} if "e" in body else {}),
                              **({"d": "norepr" if k % 3 == 1 else "nocmp"} if "d" in body and k % 3 else {})}})
    return out


def compatible(p, c):
    """The child does not touch what the parent uses specially (its overflow attribute, its key, an attribute declared
    with options), and does not declare a second overflow attribute."""
    touched = set(c["body"]) | set(c["attrs"] or []) | set(c["typed"] or []) | ({c["overflow"]} if c["overflow"] else set())
    special = {p["overflow"], p["key"]} | set(p["flags"])
    if touched & special:
        return False
    if p["overflow"] and c["overflow"]:
        return False
    return True


_SPACE = None


def space():
    """Every case of the scope: single classes and parent/child pairs (a list of lists of class definitions)."""
    global _SPACE
    if _SPACE is None:
        ps, cs = parent_defs(), child_defs()
        out = [[p] for p in ps]
        for k, c in enumerate(cs):
            found = 0
            for j in range(len(ps)):
                p = ps[(k * 37 + j * 101) % len(ps)]
                if compatible(p, c):
                    out.append([p, c])
                    found += 1
                    if found == 3:
                        break
        _SPACE = out
    return _SPACE


def gen(tier, rng):
    sp = space()
    if tier == "thorough":
        picked = list(range(len(sp)))
    else:
        picked = rng.sample(range(len(sp)), 500 if tier == "quick" else 400)
    batch = 20
    for k in range(0, len(picked), batch):
        yield {"meta": [sp[i] for i in picked[k:k + batch]], "origin": "meta"}


# ---------------------------------------------------------------------------
# rendering / building
# ---------------------------------------------------------------------------


def is_overflow(defs, cd, name):
    while cd is not None:
        if cd["overflow"] == name:
            return True
        cd = next((d for d in defs if d["name"] == cd["base"]), None)
    return False


def render(defs):
    out = []
    for cd in defs:
        args = []
        if cd["key"]:
            args.append(f"key={cd['key']!r}")
        if cd["attrs"] is not None:
            args.append(f"attrs={cd['attrs']!r}")
        if cd["typed"] is not None:
            args.append("attrs_typed={" + ", ".join(f"{n!r}: int" for n in cd["typed"]) + "}")
        if cd["skip"] is not None:
            args.append(f"attrs_skip={cd['skip']!r}")
        if cd["overflow"]:
            args.append(f"init_overflow_attr={cd['overflow']!r}")
        if cd["eager"]:
            args.append("bootstrap=True")
        if cd.get("frozen"):
            args.append("frozen=True")
        lines = ["@spec_class(%s)" % ", ".join(args) if args else "@spec_class",
                 f"class {cd['name']}({cd['base']}):" if cd["base"] else f"class {cd['name']}:"]
        body = []
        for n in cd["body"]:
            if cd["overflow"] == n:
                opt = {"norepr": " = Attr(repr=False)", "nocmp": " = Attr(compare=False)"}.get(cd["flags"].get(n), "")
                body.append(f"{n}: Dict[str, Any]{opt}")
            elif cd["flags"].get(n):
                opt = "repr=False" if cd["flags"][n] == "norepr" else "compare=False"
                body.append(f"{n}: int = Attr(default={DEFAULTS[n]}, {opt})")
            else:
                body.append(f"{n}: int = {DEFAULTS[n]}")
        for n in cd["plain"]:
            if n not in cd["body"] and cd["overflow"] != n:
                body.append(f"{n} = {DEFAULTS[n]}")
        lines += ["    " + b for b in (body or ["pass"])]
        out.append("\n".join(lines) + "\n")
    return "\n".join(out)


def build(defs):
    from typing import Any, Dict

    from spec_classes import Attr, spec_class

    ns = dict(spec_class=spec_class, Attr=Attr, Any=Any, Dict=Dict, __name__="c10meta")
    exec(compile(render(defs), "<c10meta>", "exec"), ns)
    return ns


# ---------------------------------------------------------------------------
# declaration order (written from the property text / the decorator's documentation; no library code consulted)
# ---------------------------------------------------------------------------


def managed_annotations(cd):
    """The annotated attributes of the class body that the decorator manages: all public ones unless `attrs` /
    `attrs_typed` are given without `attrs_skip` ("to treat these fields as incremental on top of all attributes, pass a
    (potentially empty) iterable to `attrs_skip`"), minus those in `attrs_skip`."""
    if (cd["attrs"] or cd["typed"]) and cd["skip"] is None:
        return []
    return [n for n in cd["body"] if not n.startswith("_") and n not in (cd["skip"] or [])]


def decl_order(defs, cd):
    inherited = []
    if cd["base"]:
        inherited = decl_order(defs, next(d for d in defs if d["name"] == cd["base"]))
    out = list(inherited)
    for n in managed_annotations(cd):                      # declared in the class body: body order
        if n not in out:
            out.append(n)
    for n in (cd["attrs"] or []) + (cd["typed"] or []) + ([cd["overflow"]] if cd["overflow"] else []):
        if n not in out:                                    # declared by the decorator only: after the body
            out.append(n)
    if cd["key"] and cd["key"] not in out:
        out.append(cd["key"])
    return out


def declared_flag(defs, cd, name):
    """`norepr` / `nocmp` / "" as declared by the class that (re-)declares the attribute last."""
    own = set(managed_annotations(cd)) | set(cd["attrs"] or []) | set(cd["typed"] or []) | ({cd["overflow"]} - {None})
    if name in own or not cd["base"]:
        return cd["flags"].get(name, "")
    return declared_flag(defs, next(d for d in defs if d["name"] == cd["base"]), name)


# ---------------------------------------------------------------------------
# lines: the model's `metaOrder` against the real metadata
# ---------------------------------------------------------------------------


def _grp(names):
    return " ".join(names)


def lines(case):
    ml, rl = ["reset"], ["ok"]
    for defs in case["meta"]:
        try:
            ns = build(defs)
        except Exception as e:  # noqa: BLE001
            ns = None
            err = f"raised {type(e).__name__}"
        for cd in defs:
            inh = decl_order(defs, next(d for d in defs if d["name"] == cd["base"])) if cd["base"] else []
            toks = ["meta", cd["key"] or "-", cd["overflow"] or "-", "1" if cd["skip"] is not None else "0", "|",
                    _grp(inh), "|", _grp(cd["body"]), "|", _grp(cd["attrs"] or []), "|", _grp(cd["typed"] or []), "|",
                    _grp(cd["skip"] or [])]
            ml.append(" ".join(t for t in toks if t != ""))
            if ns is None:
                rl.append(err)
                continue
            try:
                real = list(ns[cd["name"]].__spec_class__.attrs)
                rl.append(" ".join(real) if real else "-")
            except Exception as e:  # noqa: BLE001
                rl.append(f"raised {type(e).__name__}")
    return ml, rl


# ---------------------------------------------------------------------------
# oracle
# ---------------------------------------------------------------------------


def repr_names(text):
    m = re.match(r"^(\w+)\((.*)\)$", text, re.S)
    if not m:
        return None
    names, depth, cur = [], 0, ""
    for ch in m.group(2):
        if ch in "([{":
            depth += 1
        elif ch in ")]}":
            depth -= 1
        if ch == "," and depth == 0:
            names.append(cur.split("=")[0].strip())
            cur = ""
        else:
            cur += ch
    if cur.strip():
        names.append(cur.split("=")[0].strip())
    return names


def show(defs):
    return " / ".join(x.replace("\n", "; ") for x in render(defs).strip().split("\n\n"))[:500]


def oracle_one(defs):
    import copy

    viol = []
    try:
        ns = build(defs)
    except Exception as e:  # noqa: BLE001
        return [f"defining {show(defs)} raised {type(e).__name__}: {e}"]
    for cd in defs:
        cls = ns[cd["name"]]
        order = decl_order(defs, cd)
        want = [n for n in order if declared_flag(defs, cd, n) != "norepr"]
        where = f"[{show(defs)}] class {cd['name']}"
        frozen = any(d.get("frozen") for d in defs if d is cd)     # (`frozen` is per decorator)
        try:
            vals = {n: ({"q%d" % k: k} if is_overflow(defs, cd, n) else 10 + k) for k, n in enumerate(order)}

            def make(names):
                """An instance with these attributes assigned: through the constructor (a frozen class), else by setattr."""
                if frozen:
                    kw = {}
                    for n in names:
                        kw.update(vals[n] if is_overflow(defs, cd, n) else {n: vals[n]})
                    return cls(**kw)
                y = cls()
                for n in names:
                    setattr(y, n, vals[n])
                return y

            x0, x1 = cls(), make(order)
        except Exception as e:  # noqa: BLE001
            viol.append(f"{where}: constructing / assigning raised {type(e).__name__}: {e}")
            continue
        for what, x in (("a fresh instance", x0), ("an instance with every attribute assigned", x1)):
            for form in (lambda: repr(x), lambda: x.__repr__(indent=True), lambda: x.__repr__(indent=False)):
                try:
                    names = repr_names(form().replace("\n", " "))
                except Exception as e:  # noqa: BLE001
                    viol.append(f"{where}: repr of {what} raised {type(e).__name__}")
                    break
                if names != want:
                    viol.append(f"{where}: repr of {what} lists {names}; the repr-enabled attributes in declaration order "
                                f"are {want}")
                    break
        try:
            if not (x0 == cls() and x1 == x1 and not (x0 != cls())):
                viol.append(f"{where}: two fresh instances are unequal")
            for n in order:
                y = make([n])
                differs = (y != x0) and not (y == x0) and not (x0 == y)
                if declared_flag(defs, cd, n) == "nocmp":
                    if differs:
                        viol.append(f"{where}: instances that differ only in the compare=False attribute {n} are unequal")
                elif not differs:
                    viol.append(f"{where}: instances that differ in attribute {n} ({vals[n]!r} vs default) are equal")
            c = copy.deepcopy(x1)
            if not (c == x1) or any(getattr(c, n) != vals[n] for n in order):
                viol.append(f"{where}: deepcopy(x) != x")
            kw = {n: vals[n] for n in order if not is_overflow(defs, cd, n)}
            ovf = next((n for n in order if is_overflow(defs, cd, n)), None)
            z = cls(**kw, **(vals[ovf] if ovf else {}))
            if not (z == x1 and x1 == z):
                viol.append(f"{where}: re-constructing from own attribute values gives an unequal instance")
        except Exception as e:  # noqa: BLE001
            viol.append(f"{where}: ==/deepcopy/re-construction raised {type(e).__name__}: {e}")
    return viol


def oracle(case):
    viol = []
    for defs in case["meta"]:
        viol += oracle_one(defs)
        if len(viol) > 8:
            break
    return viol[:8]


def tags(case):
    t = []
    for defs in case["meta"]:
        for cd in defs:
            t.append("meta:" + ("child" if cd["base"] else "single"))
            for opt in ("attrs", "typed", "skip"):
                if cd[opt] is not None:
                    t.append(f"meta-option:{opt}")
            if cd["overflow"]:
                t.append("meta-option:overflow-" + ("annotated" if cd["overflow"] in cd["body"] else "unannotated"))
            if cd["key"]:
                declared = set(managed_annotations(cd)) | set(cd["attrs"] or []) | set(cd["typed"] or []) | {cd["overflow"]}
                t.append("meta-option:key" + ("" if cd["key"] in declared else "-unmanaged"))
            if cd.get("frozen"):
                t.append("meta-option:frozen")
            named = set(cd["attrs"] or []) | set(cd["typed"] or []) | ({cd["overflow"]} - {None})
            if named & set(managed_annotations(cd)):
                t.append("meta:annotated-and-named")
    return t


def nontrivial(case):
    return [("meta", render(defs)) for defs in case["meta"]]
