"""
C13 — type parameters of `KeyedList[T, K]` beyond plain classes (round 5).

Type DESCRIPTIONS (nested lists, JSON-able), three readings of a description:
  * `name(d)`        the label that appears in a case (`"typed": "<T> :: <K>"`),
  * `build(d)`       the `typing` object handed to the real `KeyedList[T, K]`,
  * `ref_check(v, d)` the INDEPENDENT reference verdict "is `v` an instance of the described type", written from the
                     meaning of the annotation on the description itself — it never calls `spec_classes.check_type`
                     and never looks at `typing` internals (`__args__`, `__origin__`), so a change of `check_type`
                     (alternatives of a union skipped, a literal compared wrongly, a container's items not looked at,
                     a bound off by one) cannot move both sides at once.

Descriptions:
  ["any"] ["int"] ["str"] ["float"] ["bytes"] ["none"] ["dict"] ["tuple"]          classes (float = any real number)
  ["union", d, …]   typing.Union[…]          ["pep", d, …]     d | d | …  (types.UnionType)
  ["opt", d]        typing.Optional[d]       ["lit", v, …]     typing.Literal[v, …]
  ["dictof", dk, dv]  Dict[dk, dv]           ["listof", d]     List[d]
  ["tupleof", d, …]   Tuple[d, …]            ["tuplevar", d]   Tuple[d, ...]
  ["bounded", base, ge, lt]                  spec_classes.types.validated.bounded(base, ge=…, lt=…) (None = no bound)
"""

_CLASSES = {"int": int, "str": str, "float": float, "bytes": bytes, "none": type(None), "dict": dict, "tuple": tuple}


def name(d):
    t = d[0]
    if t == "any":
        return "Any"
    if t == "none":
        return "None"
    if t in _CLASSES:
        return t
    if t == "union":
        return "Union[" + ",".join(name(x) for x in d[1:]) + "]"
    if t == "pep":
        return "|".join(name(x) for x in d[1:])
    if t == "opt":
        return "Optional[" + name(d[1]) + "]"
    if t == "lit":
        return "Literal[" + ",".join(repr(v) for v in d[1:]) + "]"
    if t == "dictof":
        return f"Dict[{name(d[1])},{name(d[2])}]"
    if t == "listof":
        return f"List[{name(d[1])}]"
    if t == "tupleof":
        return "Tuple[" + ",".join(name(x) for x in d[1:]) + "]"
    if t == "tuplevar":
        return f"Tuple[{name(d[1])},...]"
    if t == "bounded":
        return f"bounded({name(d[1])},ge={d[2]},lt={d[3]})"
    raise ValueError(d)


_built = {}


def build(d):
    """the typing object (cached by name: `bounded` makes a new class on every call)"""
    n = name(d)
    if n not in _built:
        _built[n] = _build(d)
    return _built[n]


def _build(d):
    import typing

    t = d[0]
    if t == "any":
        return typing.Any
    if t == "none":
        return None  # the conventional spelling inside Union[...]
    if t in _CLASSES:
        return _CLASSES[t]
    if t == "union":
        return typing.Union[tuple(build(x) for x in d[1:])]
    if t == "pep":
        parts = [type(None) if x == ["none"] else build(x) for x in d[1:]]
        r = parts[0]
        for p in parts[1:]:
            r = r | p
        return r
    if t == "opt":
        return typing.Optional[build(d[1])]
    if t == "lit":
        return typing.Literal[tuple(d[1:])]
    if t == "dictof":
        return typing.Dict[build(d[1]), build(d[2])]
    if t == "listof":
        return typing.List[build(d[1])]
    if t == "tupleof":
        return typing.Tuple[tuple(build(x) for x in d[1:])]
    if t == "tuplevar":
        return typing.Tuple[build(d[1]), ...]
    if t == "bounded":
        from spec_classes.types.validated import bounded

        kw = {}
        if d[2] is not None:
            kw["ge"] = d[2]
        if d[3] is not None:
            kw["lt"] = d[3]
        return bounded(build(d[1]), **kw)
    raise ValueError(d)


def ref_check(v, d):
    t = d[0]
    if t == "any":
        return True
    if t == "none":
        return v is None
    if t == "float":  # an annotation `float` admits every real number (PEP 484 numeric tower)
        return isinstance(v, (int, float))
    if t in _CLASSES:
        return isinstance(v, _CLASSES[t])
    if t in ("union", "pep"):
        return True in [ref_check(v, x) for x in d[1:]]
    if t == "opt":
        return v is None or ref_check(v, d[1])
    if t == "lit":
        return len([a for a in d[1:] if a == v]) > 0
    if t == "dictof":
        if not isinstance(v, dict):
            return False
        return [k for k in v if not ref_check(k, d[1])] == [] and [x for x in v.values() if not ref_check(x, d[2])] == []
    if t == "listof":
        return isinstance(v, list) and [x for x in v if not ref_check(x, d[1])] == []
    if t == "tupleof":
        return isinstance(v, tuple) and len(v) == len(d) - 1 and all(ref_check(v[i], d[i + 1]) for i in range(len(v)))
    if t == "tuplevar":
        return isinstance(v, tuple) and all(ref_check(x, d[1]) for x in v)
    if t == "bounded":
        if not ref_check(v, d[1]):
            return False
        return (d[2] is None or v >= d[2]) and (d[3] is None or v < d[3])
    raise ValueError(d)


# ---------------------------------------------------------------------------
# the item universe: token (k, p, b) = key 0..2, payload 0..1, value kind b
# ---------------------------------------------------------------------------

KINDS = range(9)
KEYS = (0, 1, 2)
PAYLOADS = (0, 1)
ITEMS = [(k, p, b) for b in KINDS for k in KEYS for p in PAYLOADS]


def value(k, p, b):
    n = 10 * (k + 1) + p
    if b == 0:
        return n  # 10 11 20 21 30 31
    if b == 1:
        return f"s{k}{p}"
    if b == 2:
        return n + 0.25
    if b == 3:
        return {"id": k, "tag": f"p{p}"}
    if b == 4:
        return {k: f"p{p}"}
    if b == 5:
        return (k, f"p{p}")
    if b == 6:
        return (f"k{k}", p, 0)
    if b == 7:
        return [k, p]
    if b == 8:
        return -n
    raise ValueError(b)


def token(obj):
    if isinstance(obj, float):
        n = int(obj)
        return (n // 10 - 1, n % 10, 2)
    if isinstance(obj, int):
        n = abs(obj)
        return (n // 10 - 1, n % 10, 0 if obj > 0 else 8)
    if isinstance(obj, str):
        return (int(obj[1]), int(obj[2]), 1)
    if isinstance(obj, dict):
        if "id" in obj:
            return (obj["id"], int(obj["tag"][1:]), 3)
        ((k, v),) = obj.items()
        return (k, int(v[1:]), 4)
    if isinstance(obj, tuple):
        if len(obj) == 2:
            return (obj[0], int(obj[1][1:]), 5)
        return (int(obj[0][1:]), obj[1], 6)
    if isinstance(obj, list):
        return (obj[0], obj[1], 7)
    raise ValueError(obj)


# key objects: never an int (an int subscript is a position), never equal to an item
KEYOBJ = {0: "k0", 1: b"k1", 2: None}


def key_object(k):
    return KEYOBJ[k] if k in KEYOBJ else f"k{k}"


def key_token(obj):
    if obj is None:
        return 2
    if isinstance(obj, bytes):
        return int(obj[1:])
    return int(obj[1:])


# ---------------------------------------------------------------------------
# the type parameters that are generated
# ---------------------------------------------------------------------------

I, S, F, B, N, A = ["int"], ["str"], ["float"], ["bytes"], ["none"], ["any"]
B15 = ["bounded", I, 15, None]

ITEM_TYPES = [
    A, I, F,
    ["union", I, S], ["union", S, I], ["opt", I], ["opt", S],
    ["opt", ["union", I, S]], ["opt", ["union", S, F]], ["union", I, S, N], ["union", N, I, S], ["union", I, N, S],
    ["pep", I, S, N], ["pep", S, I],
    ["union", ["tupleof", I, S], ["dictof", S, A], N], ["opt", ["union", ["dictof", S, A], ["listof", I], S]],
    ["lit", 10, "s00", 21], ["opt", ["lit", 10, "s11"]], ["union", ["lit", 10, 11, -31], S], ["opt", ["union", ["lit", "s00", "s21"], I]],
    ["dictof", S, A], ["dictof", S, ["union", I, S]], ["dictof", S, ["opt", ["union", I, S]]], ["dictof", I, S],
    ["union", ["dictof", S, A], ["dictof", I, S]], ["dict"], ["dictof", S, I],
    ["tupleof", I, S], ["tuplevar", A], ["tuplevar", ["union", I, S]], ["tupleof", S, I, I], ["tuple"], ["opt", ["tupleof", I, S]],
    ["tupleof", ["opt", ["union", S, I]], S], ["tupleof", A, A, A],
    ["listof", I], ["union", ["listof", I], I], ["listof", ["opt", ["union", S, I]]],
    ["bounded", I, 0, None], B15, ["bounded", F, None, 25], ["bounded", F, 11, 30.25], ["opt", ["union", B15, S]],
    ["union", S, B15, N],
]
KEY_TYPES = [
    A, S, ["opt", S], ["union", S, B], ["opt", ["union", S, B]], ["union", N, B, S], ["union", S, N, B],
    ["lit", "k0", None], ["pep", S, B, N], ["opt", B], ["union", ["lit", "k0"], B], ["opt", ["union", ["lit", "k0"], B]],
]
BY_NAME = {name(d): d for d in ITEM_TYPES + KEY_TYPES}
SEP = " :: "


def typed_name(td, kd):
    return name(td) + SEP + name(kd)


def parse_typed(typed):
    t, k = typed.split(SEP)
    return BY_NAME[t], BY_NAME[k]


def configs():
    """the systematic part: every item type with K = Any, every key type with T = Any, and every item type once more with
    a key type that restricts (round robin)"""
    out = [typed_name(t, A) for t in ITEM_TYPES] + [typed_name(A, k) for k in KEY_TYPES[1:]]
    out += [typed_name(t, KEY_TYPES[1 + i % (len(KEY_TYPES) - 1)]) for i, t in enumerate(ITEM_TYPES)]
    return out


def random_typed(rng):
    return typed_name(rng.choice(ITEM_TYPES), rng.choice(KEY_TYPES))


_verdicts = {}


def verdicts(typed):
    """(items admitted by T, key tokens admitted by K) by the reference checker"""
    if typed not in _verdicts:
        td, kd = parse_typed(typed)
        _verdicts[typed] = (
            frozenset(x for x in ITEMS if ref_check(value(*x), td)),
            frozenset(k for k in KEYS if ref_check(key_object(k), kd)),
        )
    return _verdicts[typed]
