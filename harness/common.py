"""
Shared machinery of the /verif checks.

A check of property Cxx does, on every invocation:

  1. `lake build` of the property's theorem module (kernel re-checks the proofs),
     audit of the axioms of every theorem in its namespace, grep of the sources
     for sorry/admit/axiom/native_decide/... .
  2. correspondence: cases from a seeded generator (and the committed corpus)
     are executed on the real `spec_classes` imported from /repo's working tree
     and on the Lean `Impl` model (the same definitions the theorems are about)
     through a line protocol; the two output streams are compared line by line.
  3. the independent Python oracle of the property is evaluated on every case
     (real code only, no model involved).
  4. if the proof, the correspondence or the oracle breaks: search for a concrete
     failing input on the real code, write a replay file, print
     `VIOLATION property=Cxx replay=<file> [no-failing-input-found]`, exit 1.

Exit codes: 0 held, 1 violation, 2 infrastructure failure (never a violation).
"""
from __future__ import annotations

import fcntl
import hashlib
import importlib
import json
import os
import random
import re
import subprocess
import sys
import time
import traceback
from pathlib import Path

VERIF = Path(__file__).resolve().parent.parent
LEAN = VERIF / "lean"
REPO = Path(os.environ.get("VERIF_REPO", "/repo"))
# (tools/seed_run.py and tools/benign_run.py divert both, so that a run against a patched tree never overwrites the
#  evidence of the unchanged tree)
EVIDENCE = Path(os.environ.get("VERIF_EVIDENCE_DIR", VERIF / "evidence"))
REPLAYS = Path(os.environ.get("VERIF_REPLAY_DIR", VERIF / "replays"))
CORPUS = VERIF / "harness" / "corpus"
KNOWN_FINDINGS = VERIF / "known_findings.json"

ALLOWED_AXIOMS = {"propext", "Classical.choice", "Quot.sound"}
FORBIDDEN = re.compile(
    r"\b(sorry|admit|native_decide|bv_decide|implemented_by|unsafe)\b|^\s*axiom\s|maxHeartbeats\s+0\b"
)

TRUSTED_BASE = [
    "Lean 4.33.0 kernel (lake build re-checks every theorem on each run)",
    "axioms allowed: propext, Classical.choice, Quot.sound (audited per theorem by #audit_ns); no native_decide/bv_decide/sorry/own axioms",
    "hand-written Impl model in lean/SpecVerif/Model (modelled, not verified); tied to /repo by this run's correspondence",
    "the correspondence harness, its generators and canonicaliser (harness/*.py), CPython 3.12",
]


class Infra(Exception):
    """Infrastructure failure: exit 2, never reported as a violation."""


def use_repo():
    """Make sure `spec_classes` is imported from /repo's current working tree."""
    p = str(REPO)
    if p in sys.path:
        sys.path.remove(p)
    sys.path.insert(0, p)
    for name in list(sys.modules):
        if name == "spec_classes" or name.startswith("spec_classes."):
            del sys.modules[name]
    import sched as _sched  # harness/sched.py (not the stdlib module: harness/ is first on sys.path)

    with _sched.lock_factories_installed():
        import spec_classes  # noqa: F401

    src = Path(sys.modules["spec_classes"].__file__).resolve()
    if REPO.resolve() not in src.parents:
        raise Infra(f"spec_classes imported from {src}, not from {REPO}")


_COVERED = set()


def start_line_coverage(pid):
    """VERIF_COVERAGE=<dir>: record which lines of /repo/spec_classes the check executes (sys.monitoring, so it does not
    interfere with the sys.settrace based scheduler / fault injectors); written to <dir>/<pid>.json at exit. Used by
    tools/coverage_report.py to list library lines no check reaches (a change there cannot be noticed by the tie)."""
    out = os.environ.get("VERIF_COVERAGE")
    if not out or not hasattr(sys, "monitoring"):
        return
    import atexit

    mon = sys.monitoring
    tool = 4
    try:
        mon.use_tool_id(tool, "verif-coverage")
    except ValueError:
        return
    root = str((REPO / "spec_classes").resolve())

    def on_line(code, line):
        fn = code.co_filename
        if fn.startswith(root):
            _COVERED.add((fn[len(str(REPO.resolve())) + 1 :], line))
        return mon.DISABLE

    mon.register_callback(tool, mon.events.LINE, on_line)
    mon.set_events(tool, mon.events.LINE)

    def dump():
        Path(out).mkdir(parents=True, exist_ok=True)
        (Path(out) / f"{pid}.json").write_text(json.dumps(sorted(_COVERED)))

    atexit.register(dump)


# ----------------------------------------------------------------------------
# Lean side
# ----------------------------------------------------------------------------


class _BuildLock:
    def __enter__(self):
        (LEAN / ".lake").mkdir(exist_ok=True)
        self.f = open(LEAN / ".lake" / "verif-build.lock", "w")
        fcntl.flock(self.f, fcntl.LOCK_EX)

    def __exit__(self, *a):
        fcntl.flock(self.f, fcntl.LOCK_UN)
        self.f.close()


def lake_build(targets, timeout=1500):
    with _BuildLock():
        try:
            r = subprocess.run(
                ["lake", "build", *targets],
                cwd=LEAN,
                capture_output=True,
                text=True,
                timeout=timeout,
            )
        except FileNotFoundError as e:
            raise Infra(f"lake not found: {e}")
        except subprocess.TimeoutExpired:
            raise Infra("lake build timed out")
    return r.returncode == 0, (r.stdout + r.stderr)


def lean_audit(pid, namespace, module):
    """Returns list of dicts {name, axioms, statement}."""
    d = LEAN / ".lake" / "audit"
    d.mkdir(parents=True, exist_ok=True)
    # (one file per process and namespace: concurrent runs of the same check must not overwrite each other's file)
    f = d / f"{pid}-{namespace.split('.')[-1]}-{os.getpid()}.lean"
    f.write_text(f"import SpecVerif.Audit\nimport {module}\n#audit_ns {namespace}\n")
    try:
        r = subprocess.run(
            ["lake", "env", "lean", str(f)], cwd=LEAN, capture_output=True, text=True, timeout=600
        )
    finally:
        try:
            f.unlink()
        except OSError:
            pass
    if r.returncode != 0:
        return None, r.stdout + r.stderr
    out = []
    # messages may span lines; AUDIT entries are one logical message each
    for m in re.finditer(r"AUDIT (\S+) \| ([^|]*) \| (.*)", r.stdout):
        out.append(
            {
                "name": m.group(1),
                "axioms": m.group(2).split(),
                "statement": m.group(3).strip(),
            }
        )
    return out, r.stdout


def strip_comments(src: str) -> str:
    # remove nested block comments and line comments
    out = []
    i, depth = 0, 0
    while i < len(src):
        if src.startswith("/-", i):
            depth += 1
            i += 2
        elif depth and src.startswith("-/", i):
            depth -= 1
            i += 2
        elif depth:
            if src[i] == "\n":
                out.append("\n")
            i += 1
        elif src.startswith("--", i):
            while i < len(src) and src[i] != "\n":
                i += 1
        else:
            out.append(src[i])
            i += 1
    return "".join(out)


def grep_sources(files):
    hits = []
    for f in files:
        p = LEAN / f
        if not p.exists():
            hits.append(f"{f}: missing")
            continue
        for n, line in enumerate(strip_comments(p.read_text()).splitlines(), 1):
            if FORBIDDEN.search(line):
                hits.append(f"{f}:{n}: {line.strip()}")
    return hits


def imported_sources(module):
    """Transitive closure of SpecVerif.* imports of a module (file paths relative to lean/)."""
    seen, todo = [], [module]
    while todo:
        m = todo.pop()
        f = m.replace(".", "/") + ".lean"
        if f in seen or not (LEAN / f).exists():
            continue
        seen.append(f)
        for line in (LEAN / f).read_text().splitlines():
            mm = re.match(r"\s*import\s+(SpecVerif\.\S+)", line)
            if mm:
                todo.append(mm.group(1))
    return seen


def run_driver(driver, lines, timeout=1800):
    if not lines:
        return []
    for ln in lines:
        if "\n" in ln:
            raise Infra(f"newline inside protocol line: {ln!r}")
    r = subprocess.run(
        ["lake", "env", "lean", "--run", driver],
        cwd=LEAN,
        input="\n".join(lines) + "\n",
        capture_output=True,
        text=True,
        timeout=timeout,
    )
    if r.returncode != 0:
        raise Infra(f"driver {driver} failed: {r.stderr[-2000:]} {r.stdout[-500:]}")
    out = r.stdout.split("\n")
    if out and out[-1] == "":
        out.pop()
    if len(out) != len(lines):
        raise Infra(f"driver {driver}: {len(lines)} lines in, {len(out)} lines out")
    return out


# ----------------------------------------------------------------------------
# Known findings
# ----------------------------------------------------------------------------


def load_known(pid):
    if not KNOWN_FINDINGS.exists():
        return []
    data = json.loads(KNOWN_FINDINGS.read_text())
    return [e for e in data.get("findings", []) if e.get("property") == pid]


# ----------------------------------------------------------------------------
# The check
# ----------------------------------------------------------------------------


def _hash(x):
    return hashlib.sha1(json.dumps(x, sort_keys=True, default=str).encode()).hexdigest()


def write_replay(pid, seed, n, payload):
    REPLAYS.mkdir(parents=True, exist_ok=True)
    p = REPLAYS / f"{pid}-{seed}-{n}.json"
    p.write_text(json.dumps(payload, indent=1, default=str))
    return p


def load_corpus(pid):
    d = CORPUS / pid
    cases = []
    if d.exists():
        for f in sorted(d.glob("*.json")):
            c = json.loads(f.read_text())
            c.setdefault("origin", f"corpus/{f.name}")
            cases.append(c)
    return cases



# ----------------------------------------------------------------------------
# Source fingerprint: which of the library files a property's model was written against have changed?
# ----------------------------------------------------------------------------
FINGERPRINT = VERIF / "harness" / "fingerprint.json"
ESCALATION_S = float(os.environ.get("VERIF_ESCALATION_S", "150"))


def _ast_hash(path):
    """Hash of the file's AST without docstrings (comments and layout are not in the AST)."""
    import ast
    import hashlib

    try:
        tree = ast.parse(Path(path).read_text())
    except (OSError, SyntaxError) as e:
        return f"unreadable:{type(e).__name__}"
    for node in ast.walk(tree):
        body = getattr(node, "body", None)
        if isinstance(body, list) and body and isinstance(body[0], ast.Expr) and isinstance(getattr(body[0], "value", None), ast.Constant) and isinstance(body[0].value.value, str):
            node.body = body[1:] or [ast.Pass()]
    return hashlib.sha256(ast.dump(tree, include_attributes=False).encode()).hexdigest()[:20]


def property_source_files(pid, mod=None):
    """The library files the property is anchored in (properties.jsonl) plus what the module adds (SOURCE_FILES)."""
    files = []
    try:
        for line in (VERIF / "properties.jsonl").read_text().splitlines():
            if line.strip():
                pr = json.loads(line)
                if pr.get("id") == pid:
                    files = list(pr.get("anchors", {}).get("files", []))
    except OSError:
        pass
    for f in getattr(mod, "SOURCE_FILES", []) if mod is not None else []:
        if f not in files:
            files.append(f)
    return files


def fingerprint_all():
    root = REPO / "spec_classes"
    return {str(f.relative_to(REPO)): _ast_hash(f) for f in sorted(root.rglob("*.py")) if f.name != "_version.py"}


def changed_sources(pid, mod):
    """Files of the property whose AST differs from the recorded fingerprint (the tree the model and its generators were
    last validated against). A difference is NOT a violation; it directs a deeper differential run (escalation)."""
    try:
        fp = json.loads(FINGERPRINT.read_text())
        base = fp["files"]
        if fp.get("python") != sys.version.split()[0]:
            return None, []  # ast.dump differs between interpreter versions: no statement possible
    except (OSError, ValueError, KeyError):
        return None, []
    files = property_source_files(pid, mod)
    changed = []
    for f in files:
        if base.get(f) != _ast_hash(REPO / f):
            changed.append(f)
    return files, changed


class _RepoShared:
    """Several workers share /repo while the framework is being built: `tools/seed_run.py` holds this lock
    exclusively while a seeded patch is applied; ordinary check runs hold it shared (no-op when uncontended)."""

    def __enter__(self):
        self.f = None
        if os.environ.get("VERIF_REPO_LOCK_HELD") == "1":
            return
        try:
            self.f = open("/tmp/verif-repo.lock", "a+")
            fcntl.flock(self.f, fcntl.LOCK_SH)
        except OSError:
            self.f = None

    def __exit__(self, *a):
        if self.f:
            fcntl.flock(self.f, fcntl.LOCK_UN)
            self.f.close()


def run_check(mod, tier, seed, replay=None):
    with _RepoShared():
        return _run_check(mod, tier, seed, replay)


def _run_check(mod, tier, seed, replay=None):
    t0 = time.time()
    pid = mod.PID
    start_line_coverage(pid)
    use_repo()
    if hasattr(mod, "setup"):
        mod.setup()
    known = load_known(pid)
    open_known = [k for k in known if k.get("status") == "open"]
    matchers = getattr(mod, "KNOWN_MATCHERS", {})

    def is_known(case, violation):
        for k in open_known:
            fn = matchers.get(k.get("matcher"))
            if fn and fn(case, violation):
                return k
        return None

    if replay:
        payload = json.loads(Path(replay).read_text())
        case = payload.get("case")
        print(f"replay kind={payload.get('kind')} property={pid}")
        if case is None:
            print(json.dumps(payload, indent=1)[:4000])
            return 0
        real = mod.real_lines(case)
        model = run_driver(mod.DRIVER, mod.model_lines(case))
        for i, (a, b) in enumerate(zip(real, model)):
            flag = "  " if a == b else "!!"
            print(f"{flag} {i}: real={a!r} model={b!r}")
        v = mod.oracle(case)
        print("oracle:", v or "no violation")
        return 1 if v else 0

    # ---- 1. proofs -------------------------------------------------------
    proof_problems = []
    ok, out = lake_build(list(mod.LEAN_TARGETS) + ["SpecVerif.Audit"])
    theorems = []
    if not ok:
        errs = [l for l in out.splitlines() if "error" in l.lower()][:20]
        proof_problems.append({"kind": "build-failed", "detail": errs})
    else:
        for ns, module in mod.AUDIT:
            th, raw = lean_audit(pid, ns, module)
            if th is None:
                proof_problems.append({"kind": "audit-failed", "detail": raw[-2000:]})
            else:
                theorems.extend(th)
        for th in theorems:
            bad = [a for a in th["axioms"] if a not in ALLOWED_AXIOMS]
            if bad:
                proof_problems.append(
                    {"kind": "forbidden-axiom", "theorem": th["name"], "axioms": bad}
                )
        required = getattr(mod, "REQUIRED_THEOREMS", [])
        have = {t["name"] for t in theorems}
        for r in required:
            if r not in have:
                proof_problems.append({"kind": "missing-theorem", "theorem": r})
    leanchecker = None
    if ok and tier == "thorough":
        # independent re-check of the compiled .olean files of the property's modules
        try:
            r = subprocess.run(
                ["lake", "env", "leanchecker", *[m for _, m in mod.AUDIT]],
                cwd=LEAN, capture_output=True, text=True, timeout=1800,
            )
            leanchecker = r.returncode
            if r.returncode != 0:
                proof_problems.append({"kind": "leanchecker-failed", "detail": (r.stdout + r.stderr)[-1500:]})
        except subprocess.TimeoutExpired:
            leanchecker = "timeout"
    sources = []
    for _, module in mod.AUDIT:
        for f in imported_sources(module):
            if f not in sources:
                sources.append(f)
    hits = grep_sources(sources)
    if hits:
        proof_problems.append({"kind": "forbidden-token", "detail": hits[:20]})
    obligations = len(theorems)
    discharged = sum(
        1 for t in theorems if all(a in ALLOWED_AXIOMS for a in t["axioms"])
    )

    # ---- 2. correspondence ----------------------------------------------
    rng = random.Random(seed)
    cases = load_corpus(pid) + list(mod.gen_cases(tier, rng))
    model_in, spans = [], []
    for c in cases:
        ls = mod.model_lines(c)
        spans.append((len(model_in), len(ls)))
        model_in.extend(ls)
    model_out = run_driver(mod.DRIVER, model_in) if ok else None

    disagreements = []
    oracle_violations = []
    nontrivial = set()
    hist = {}
    lines_compared = 0
    for idx, c in enumerate(cases):
        try:
            real = mod.real_lines(c)
        except Infra:
            raise
        except Exception as e:  # harness bug or code raising outside the protocol
            real = [f"harness-exception {type(e).__name__}: {e}"]
        if model_out is not None:
            s, n = spans[idx]
            mo = model_out[s : s + n]
            if len(real) != n:
                disagreements.append(
                    {"case": c, "at": min(len(real), n), "real": real[-3:], "model": mo[-3:], "why": "length"}
                )
            else:
                for i, (a, b) in enumerate(zip(real, mo)):
                    lines_compared += 1
                    if a != b:
                        disagreements.append({"case": c, "at": i, "real": a, "model": b})
                        break
        for key in mod.nontrivial(c, real):
            nontrivial.add(_hash(key))
        for tag in mod.tags(c, real) if hasattr(mod, "tags") else []:
            hist[tag] = hist.get(tag, 0) + 1
        v = mod.oracle(c)
        if v:
            oracle_violations.append({"case": c, "violation": v})

    # ---- 2b. property-specific validation outside the line protocol -------
    # (schedule exploration, fault sweeps, ...): `mod.extra(tier, rng)` returns
    # {"evaluations": n, "nontrivial": [keys], "violations": [{"case":..., "violation": [...]}],
    #  "disagreements": [{"case":..., "at":..., "real":..., "model":...}], "info": {...}}
    extra_info = {}
    extra_evals = 0
    if hasattr(mod, "extra"):
        ex = mod.extra(tier, random.Random(seed + 7)) or {}
        extra_evals = int(ex.get("evaluations", 0))
        for key in ex.get("nontrivial", []):
            nontrivial.add(_hash(key))
        oracle_violations.extend(ex.get("violations", []))
        disagreements.extend(ex.get("disagreements", []))
        extra_info = ex.get("info", {})

    # ---- 2c. escalation: the property's source files differ from the fingerprinted tree -------------------------
    # A harmless rewrite changes the fingerprint too, so this is never a verdict: it buys a deeper differential run
    # (fresh cases from the `search` generator, model vs code and oracle, until the time budget is spent or something
    # turns up) exactly when the code under the model has changed.
    fp_files, fp_changed = changed_sources(pid, mod)
    escalation = {"files": fp_files, "changed": fp_changed, "cases": 0, "wall_s": 0.0}
    nothing_yet = not [ov for ov in oracle_violations if not is_known(ov["case"], ov["violation"])] and not [
        d for d in disagreements if not is_known(d["case"], ["correspondence"])
    ]
    if os.environ.get("VERIF_FORCE_ESCALATION") == "1" and not fp_changed:
        fp_changed = ["(forced: VERIF_FORCE_ESCALATION=1)"]  # soak runs of the search generator on the unchanged tree
        escalation["changed"] = fp_changed
    if fp_changed and tier == "quick" and nothing_yet and not proof_problems and hasattr(mod, "gen_cases") and ESCALATION_S > 0:
        import itertools

        t_esc = time.time()
        gen = mod.gen_cases("search", random.Random(seed + 11))
        found = False
        while not found and time.time() - t_esc < ESCALATION_S:
            batch = list(itertools.islice(gen, 150))
            if not batch:
                break
            b_in, b_spans = [], []
            for c in batch:
                ls = mod.model_lines(c)
                b_spans.append((len(b_in), len(ls)))
                b_in.extend(ls)
            b_out = run_driver(mod.DRIVER, b_in) if ok else None
            for idx, c in enumerate(batch):
                escalation["cases"] += 1
                try:
                    real = mod.real_lines(c)
                except Infra:
                    raise
                except Exception as e:
                    real = [f"harness-exception {type(e).__name__}: {e}"]
                if b_out is not None:
                    s0, n0 = b_spans[idx]
                    mo = b_out[s0 : s0 + n0]
                    if len(real) != n0:
                        d = {"case": c, "at": min(len(real), n0), "real": real[-3:], "model": mo[-3:], "why": "length"}
                        if not is_known(c, ["correspondence"]):
                            disagreements.append(d)
                            found = True
                    else:
                        for i, (a, b) in enumerate(zip(real, mo)):
                            lines_compared += 1
                            if a != b:
                                if not is_known(c, ["correspondence"]):
                                    disagreements.append({"case": c, "at": i, "real": a, "model": b})
                                    found = True
                                break
                for key in mod.nontrivial(c, real):
                    nontrivial.add(_hash(key))
                v = mod.oracle(c)
                if v:
                    oracle_violations.append({"case": c, "violation": v})
                    if not is_known(c, v):
                        found = True
                if found or time.time() - t_esc >= ESCALATION_S:
                    break
        escalation["wall_s"] = round(time.time() - t_esc, 2)

    # ---- 3. known findings ----------------------------------------------
    known_lines = []
    for k in open_known:
        w = k.get("witness")
        still = None
        if w is not None:
            try:
                still = mod.oracle(w)
            except Exception as e:
                still = [f"oracle raised {type(e).__name__}: {e}"]
        if still:
            known_lines.append(f"KNOWN-FINDING: property={pid} {k['id']}: {k['what']}")
        else:
            known_lines.append(
                f"NOTE: known finding {k['id']} of {pid} no longer reproduces on its witness"
            )
    for ln in known_lines:
        print(ln)

    # ---- 4. verdict -------------------------------------------------------
    new_violations = [
        ov for ov in oracle_violations if not is_known(ov["case"], ov["violation"])
    ]
    known_hits = len(oracle_violations) - len(new_violations)
    # disagreements explained by an open finding's matcher are not failures of the tie
    real_disagreements = [d for d in disagreements if not is_known(d["case"], ["correspondence"])]
    violation = None
    searched = 0
    if new_violations:
        v = new_violations[0]
        violation = {"kind": "counterexample", "case": v["case"], "violation": v["violation"]}
    elif proof_problems or real_disagreements:
        # search for a concrete failing input on the real code
        found = None
        cands = []
        for d in real_disagreements[:50]:
            cands.append(d["case"])
            if hasattr(mod, "shrink"):
                cands.extend(list(mod.shrink(d["case"], d.get("at")))[:40])
        budget = 3000 if tier == "quick" else 30000
        rng2 = random.Random(seed + 1)
        extra = mod.gen_cases("search", rng2) if hasattr(mod, "gen_cases") else []
        import itertools

        for c in itertools.chain(cands, itertools.islice(extra, budget)):
            searched += 1
            try:
                v = mod.oracle(c)
            except Exception as e:
                v = None
            if v and not is_known(c, v):
                found = {"kind": "counterexample", "case": c, "violation": v}
                break
        if found:
            violation = found
        elif real_disagreements:
            d = real_disagreements[0]
            violation = {
                "kind": "broken-correspondence",
                "case": d["case"],
                "first_difference_at_line": d["at"],
                "real": d["real"],
                "model": d["model"],
                "correspondence": f"{mod.DRIVER} vs spec_classes ({len(real_disagreements)} disagreeing cases of {len(cases)})",
                "no_failing_input_found": True,
            }
        else:
            violation = {
                "kind": "broken-theorem",
                "problems": proof_problems,
                "no_failing_input_found": True,
            }

    samples = []
    for c in cases[:2] + cases[len(cases) // 2 : len(cases) // 2 + 1]:
        samples.append(c)
    evidence = {
        "property_id": pid,
        "tier": "thorough" if tier == "thorough" else "quick",
        "seed": seed,
        "level": "proof",
        "coverage": {
            "obligations": obligations,
            "discharged": discharged,
            "checker_cmd": f"cd lean && lake build {' '.join(mod.LEAN_TARGETS)} && lake env lean <file with `import SpecVerif.Audit; import <module>; #audit_ns <namespace>`>  (#audit_ns lists each theorem's axioms)",
            "trusted_base": TRUSTED_BASE + list(getattr(mod, "TRUSTED_EXTRA", [])),
            "theorems": [t["name"] for t in theorems],
            "proof_problems": proof_problems,
            "leanchecker_rc": leanchecker,
            "evaluations": len(cases) + extra_evals + escalation["cases"],
            "extra": extra_info,
            "source_fingerprint": escalation,
            "distinct_nontrivial": len(nontrivial),
            "rule": getattr(mod, "RULE", ""),
            "samples": samples,
            "traces_validated_against_impl": len(cases) - len(disagreements) if model_out is not None else 0,
            "protocol_lines_compared": lines_compared,
            "disagreements": len(disagreements),
            "oracle_evaluations": len(cases),
            "oracle_violations_new": len(new_violations),
            "oracle_violations_known": known_hits,
            "failing_input_search_cases": searched,
            "histogram": dict(sorted(hist.items())),
            "open_statements": list(getattr(mod, "OPEN_STATEMENTS", [])),
            "exhaustive": bool(getattr(mod, "EXHAUSTIVE", {}).get(tier, False)),
        },
        "assumptions": list(getattr(mod, "ASSUMPTIONS", [])),
        "wall_s": round(time.time() - t0, 2),
        "violations": 1 if violation else 0,
    }
    EVIDENCE.mkdir(parents=True, exist_ok=True)
    (EVIDENCE / f"{pid}.json").write_text(json.dumps(evidence, indent=1, default=str))

    print(
        f"{pid} tier={tier} seed={seed}: theorems={obligations} discharged={discharged} "
        f"cases={len(cases)} lines={lines_compared} disagreements={len(disagreements)} "
        f"oracle_new={len(new_violations)} oracle_known={known_hits} nontrivial={len(nontrivial)} "
        f"wall={evidence['wall_s']}s"
    )
    if violation:
        n = 0
        while (REPLAYS / f"{pid}-{seed}-{n}.json").exists():
            n += 1
        violation.update({"property": pid, "seed": seed, "tier": tier})
        p = write_replay(pid, seed, n, violation)
        suffix = " no-failing-input-found" if violation.get("no_failing_input_found") else ""
        print(f"VIOLATION property={pid} replay={p}{suffix}")
        return 1
    return 0


def main(argv=None):
    import argparse

    ap = argparse.ArgumentParser()
    ap.add_argument("pid")
    ap.add_argument("--tier", default=os.environ.get("VERIF_TIER", "quick"))
    ap.add_argument("--seed", type=int, default=int(os.environ.get("VERIF_SEED", "0")))
    ap.add_argument("--replay")
    a = ap.parse_args(argv)
    if a.tier not in ("quick", "thorough"):
        a.tier = "quick"
    sys.path.insert(0, str(VERIF / "harness"))
    try:
        mod = importlib.import_module(f"corr_{a.pid}")
        rc = run_check(mod, a.tier, a.seed, a.replay)
    except Infra as e:
        print(f"INFRA-ERROR {a.pid}: {e}", file=sys.stderr)
        return 2
    except Exception:
        traceback.print_exc()
        print(f"INFRA-ERROR {a.pid}: unexpected exception in the harness", file=sys.stderr)
        return 2
    return rc


if __name__ == "__main__":
    sys.exit(main())
