"""
C01 -- copy-on-write helpers never change the receiver or the arguments.

Correspondence: generated (class table, history, helper call, callback fault
plan) executed on the real `spec_classes` (/repo) and on the Lean model
`SpecVerif.Heap` through `Drivers/Heap.lean`; after every line both sides print
the canonical world (all live objects, identities renumbered by first
appearance, i.e. content + alias pattern) and the outcome class.
`extra`: crash points -- an exception injected at executed lines of library
code inside a helper call; the real world afterwards must be one of the worlds
the model reaches when it is cut after its k-th effect (for a copy-on-write
helper: the unchanged world).
Oracle (independent of the model): deep content+identity snapshot of every
root (receiver graph, arguments, other instances, class-level defaults) before
and after every helper call without `_inplace=True`, whether it returns,
raises, or is cut at an injected line.
"""
import random

import heap_common as H
import heap_shapes as HS
import mutate_value_tie as MT
import protect_tie as PT

PID = "C01"
LEAN_TARGETS = ["SpecVerif.Props.C01", "SpecVerif.Props.Protect", "SpecVerif.Props.MutateValue"]
AUDIT = [
    ("SpecVerif.Props.C01", "SpecVerif.Props.C01"),
    ("SpecVerif.Props.Protect", "SpecVerif.Props.Protect"),
    ("SpecVerif.Props.MutateValue", "SpecVerif.Props.MutateValue"),
]
DRIVER = "Drivers/Heap.lean"
REQUIRED_THEOREMS = [
    "SpecVerif.Props.C01.cow_frame",
    "SpecVerif.Props.C01.cow_writes_fresh",
    "SpecVerif.Props.C01.deepcopy_fresh",
    # `protect_via_deepcopy` over every kind of value (Model/Protect.lean): whether it returns or raises is a function of
    # the value alone; no record of earlier (failed) calls
    "SpecVerif.Props.Protect.protect_fails_iff",
    "SpecVerif.Props.Protect.protect_ok_iff",
    "SpecVerif.Props.Protect.protect_history_free",
    "SpecVerif.Props.Protect.protect_mutable_new",
    "SpecVerif.Props.Protect.protect_same_content",
    # which object `mutate_value` edits, for every combination of arguments and hook behaviours (Model/MutateValue.lean)
    "SpecVerif.Props.MutateValue.cow_never_edits_receiver_or_argument",
    "SpecVerif.Props.MutateValue.cow_never_edits_prepared",
    "SpecVerif.Props.MutateValue.cow_edits_only_fresh_Full",
    "SpecVerif.Props.MutateValue.cow_never_edits_transformed",
    "SpecVerif.Props.MutateValue.cow_edits_only_fresh_partial",
    "SpecVerif.Props.MutateValue.frozen_inplace_edits_nothing",
]
RULE = (
    "case = class table (nested class, main class with 3-7 attributes over int/str/List[int]/Dict[str,int]/Set[int]/"
    "nested spec/List[spec], six ways of declaring a default, do_not_copy attributes, preparers, item preparers, "
    "__post_copy__, optional plain subclass overriding defaults, optional spec subclass) x history of 4-12 type-directed "
    "operations generated while executing them (constructor, setattr, del, with_/update_/transform_/reset_<attr>, "
    "with_/update_/transform_/without_<item> by index/value/key, update/transform/reset, deepcopy, raw nested mutations; "
    "12% ill-typed argument positions, 15% callback fault plans); non-trivial = the line changed the world or raised; "
    "distinct = distinct (table, pre-world, line) triples. extra = crash-point sweep: LineBoom injected at executed "
    "lines of spec_classes/* and generated wrappers inside copy-on-write helper calls (quick: the first and last "
    "visit of every distinct source line the call executes + 20 random line events; thorough: every line event). "
    "extra (2) = class families outside the heap grammar (harness/heap_shapes.py; real code + snapshot oracle): 33 value "
    "kinds (KeyedList/KeyedSet of scalars and of keyed spec items, tuples of scalars / of lists / of dicts / of tuples / "
    "of spec instances, a str-list pair, named tuples, frozensets of plain objects, plain objects, bytearrays, containers "
    "of containers and of tuples, Dict/List of spec items, nested plain and frozen spec instances, Any-typed values and "
    "List/Dict/Set/Tuple of Any) x storage (plain with four kinds of default, attribute-level do_not_copy, invalidated "
    "attribute, Alias with local override / passthrough / fallback, overridable and cached spec_property, property with "
    "setter, unmanaged entries) x class shape (eager, lazy, spec subclass, plain subclass) x invalidation (none, by name, "
    "wildcard property, wildcard attribute, wildcard only) x preparer hooks (`_prepare_<attr>` / `_prepare_<item>` that "
    "hand out registered PRE-EXISTING objects, or raise) x receiver state (size 0-3, entries materialised by constructor "
    "/ assignment / helper, caches filled or empty, generation 0-3, aliasing inside the instance, `vals` without a value, "
    "an UNCOPYABLE member -- lock / generator / object whose __deepcopy__ raises -- as an undeclared entry or inside an "
    "Any-typed value, held as attribute / list member / dict value of an outer instance) x every copy-on-write route "
    "with valid and with failing arguments (331 self routes, 38 outer routes; incl. helpers handed a registry key with "
    "and without keyword edits, transforms returning a registered object); quick: every 8th scenario of the systematic "
    "part (offset by seed) + 280 random, in seeded random order, the second half after a fixed prelude of earlier calls "
    "(one value of every shape pushed through the library, then one FAILED call of every kind: uncopyable members in "
    "every container shape, raising hooks / transforms, ill-typed values), 6 calls cut at library lines; thorough: all + "
    "8000 random, 200 cut.  The second half of the heap-grammar histories runs after the same prelude.  extra (3) = "
    "protect tie (harness/protect_tie.py): histories of `protect_via_deepcopy` calls on values built from terms (every "
    "container kind around every kind of member, chains of three, aliasing / cycles, failing calls between successful "
    "ones; 120 random histories quick / 4000 thorough) compared line by line with SpecVerif.Protect through "
    "Drivers/Protect.lean.  extra (4) = mutate_value tie (harness/mutate_value_tie.py): all 9600 combinations of the "
    "arguments of `mutate_value` with abstract hooks (ident / fresh / pre-existing / raising) compared with "
    "SpecVerif.MutateValue through Drivers/MutateValue.lean (which object is edited)."
)
ASSUMPTIONS = [
    "user callbacks (transforms, preparers, item preparers, __post_copy__) are pure: they return new objects or their "
    "argument and never mutate what they receive; a fault plan makes the n-th invocation raise",
    "class tables declare no class-level do_not_copy=True class and the receiver is not frozen (C01's quantifier); "
    "such tables are still run through the correspondence, the oracle skips them",
    "crash points of the model are between two heap effects; an asynchronous exception inside a C-level mutation "
    "(list.insert, dict.__setitem__) is not expressible and not claimed",
    "bool values are not generated (Python identifies True with 1); dict literals are not passed where a nested spec "
    "instance is expected",
    "class families of extra (2): a helper may READ the receiver; filling the cache of a cached spec_property of the "
    "receiver (an additional `__dict__` entry named like the property) is not counted as a change of the receiver; "
    "every other entry, keyed-container storage object and tuple must be the same object with the same content",
    "class families with preparer hooks: what a hook of the class hands to the library is a value handed in on the "
    "caller's behalf -- the registered objects are roots of the snapshot like the arguments",
    "protect tie: every object of a term occurs as a node once, later occurrences are back-references; sets / frozensets "
    "hold at most one member that is not an atom; no cycles through tuples",
]
OPEN_STATEMENTS = []
EXHAUSTIVE = {"quick": False, "thorough": False}

PROFILE = {
    "p_frozen": 0.1,
    "p_class_dnc": 0.05,
    "p_inplace": 0.15,
    "p_fault": 0.15,
    "p_bad": 0.12,
    "n_ops": (4, 12),
}
SWEEP_PROFILE = {
    "p_frozen": 0.0,
    "p_class_dnc": 0.0,
    "p_inplace": 0.1,
    "p_fault": 0.0,
    "p_bad": 0.1,
    "p_raw": 0.0,
    "n_ops": (2, 6),
}


def setup():
    pass


def gen_cases(tier, rng):
    if tier == "search":
        k = 0
        while True:
            k += 1
            # every 5th case of the search stream is a scenario of the class families outside the heap grammar, every 7th
            # a history of `protect_via_deepcopy` calls (harness/protect_tie.py; judged by its oracle)
            if k % 7 == 0:
                yield PT.random_case(rng)
                continue
            yield HS.random_case(PID, rng) if k % 5 == 0 else H.gen_case(rng, PROFILE)
    n = 260 if tier == "quick" else 6000
    for i in range(n):
        case = H.gen_case(rng, PROFILE)
        if i >= n // 2:
            # the second half of the histories runs after the prelude of earlier -- also FAILED -- calls in this process
            # (heap_shapes.run_prelude): the model has no process-level state, the code must not have any either
            case["prelude"] = True
        yield case


def _special(case):
    """Cases of the `extra` sections (replayable through `oracle`), not histories of the heap grammar."""
    return HS.is_case(case) or "protect_tie" in case or "mutate_value_tie" in case


def model_lines(case):
    return [] if _special(case) else H.model_lines(case)


def real_lines(case):
    if _special(case):
        return []
    HS.ensure_prelude(case)
    return H.real_lines(case)


def shrink(case, at=None):
    return [] if _special(case) else H.shrink_case(case, at)


def nontrivial(case, real):
    if "protect_tie" in case:
        return [("protect_tie", H.dumps(case["protect_tie"]))]
    if "mutate_value_tie" in case:
        return [("mutate_value_tie", H.dumps(case["mutate_value_tie"]))]
    return [("shapes", H.dumps(case["sc"]))] if HS.is_case(case) else H.nontrivial_keys(case, real)


def tags(case, real):
    if "protect_tie" in case:
        return ["protect_tie"]
    if "mutate_value_tie" in case:
        return ["mutate_value_tie"]
    return ["shapes:" + HS.route_kind(case["sc"]["route"])] if HS.is_case(case) else H.op_tags(case, real)


# ---------------------------------------------------------------------------
# oracle: written from the property text only
# ---------------------------------------------------------------------------


def _eligible(world, toks):
    """A helper call without _inplace=True on a receiver that is neither frozen
    nor (transitively) built from a do_not_copy=True class."""
    if toks[0] not in H.COW_OPS or H.op_inplace(toks) is not False:
        return False
    if any(cd.get("dnc") for cd in world.table["classes"]):
        return False
    try:
        recv = world.resolve(toks[1])
    except (LookupError, ValueError):
        return False
    meta = getattr(type(recv), "__spec_class__", None)
    cd = world.table["classes"][world.cls_index[type(recv)]] if type(recv) in world.cls_index else None
    if meta is None or (cd.get("frozen") if cd is not None else meta.frozen) or H.declared_class_dnc(type(recv)):
        return False
    return True


def _diff(before, after):
    return sorted(k for k in before if before[k] != after.get(k))


def oracle(case):
    if HS.is_case(case):  # a scenario of the class families outside the heap grammar (harness/heap_shapes.py)
        return HS.judge_case(case)
    if "protect_tie" in case:  # a history of `protect_via_deepcopy` calls (harness/protect_tie.py)
        return PT.oracle(case["protect_tie"])
    if "mutate_value_tie" in case:  # one point of the `mutate_value` tie (harness/mutate_value_tie.py)
        return MT.oracle(case["mutate_value_tie"])
    HS.ensure_prelude(case)
    violations = []
    ops = case["ops"]
    line_fault = case.get("line_fault")
    n_ops = sum(1 for l in ops if l.startswith("op "))
    seen = [0]

    def on_op(world, dst, toks, run):
        seen[0] += 1
        if not _eligible(world, toks):
            run()
            return
        before = H.snapshot_roots(world)
        if line_fault is not None and seen[0] == n_ops:
            # the last operation is cut at an injected line ("all": at every line in turn)
            call = H.build_call(world, toks)
            if line_fault == "all":
                n_lines, _, _ = H.run_with_line_fault(call, None)
                ks = range(1, n_lines + 1)
            else:
                ks = [line_fault]
            for k in ks:
                H.POOL.begin(())
                H.run_with_line_fault(call, k)
                if H.snapshot_roots(world) != before:
                    violations.append(
                        f"copy-on-write call `{' '.join(toks)}` cut at library line #{k} changed root(s) "
                        f"{_diff(before, H.snapshot_roots(world))}"
                    )
                    return
        run()
        after = H.snapshot_roots(world)
        changed = _diff(before, after)
        if changed:
            violations.append(
                f"copy-on-write call `{' '.join(toks)}` changed pre-existing object(s) under root(s) {changed}"
            )

    H.replay(case, on_op=on_op)
    return violations


# ---------------------------------------------------------------------------
# extra: crash-point sweep (line faults on the real code vs abort points of the model)
# ---------------------------------------------------------------------------


def extra(tier, rng):
    return HS.merge_extra(
        _extra_crash_points(tier, rng), HS.extra_section(PID, tier, rng), _extra_protect_tie(tier, rng), _extra_mutate_value_tie(tier, rng)
    )


def _extra_mutate_value_tie(tier, rng):
    """Real `mutate_value` vs `SpecVerif.MutateValue.mutateValue` through Drivers/MutateValue.lean (harness/mutate_value_tie.py):
    which object is edited, for every combination of arguments and hook behaviours (exhaustive)."""
    import common

    r = MT.run(tier, rng, common.run_driver)
    return {
        "evaluations": r["lines"],
        "nontrivial": r["keys"],
        "violations": r["violations"][:20],
        "disagreements": r["disagreements"][:20],
        "info": {
            "mutate_value_tie_points": r["lines"],
            "mutate_value_tie_disagreeing_points": len(r["disagreements"]),
            "mutate_value_tie_histogram": dict(sorted(r["tags"].items())),
        },
    }


def _extra_protect_tie(tier, rng):
    """Real `protect_via_deepcopy` vs `SpecVerif.Protect.protect` through Drivers/Protect.lean (harness/protect_tie.py)."""
    import common

    r = PT.run(tier, rng, common.run_driver)
    return {
        "evaluations": r["lines"],
        "nontrivial": r["keys"],
        "violations": r["violations"][:20],
        "disagreements": r["disagreements"][:20],
        "info": {
            "protect_tie_histories": r["cases"],
            "protect_tie_lines_compared": r["lines"],
            "protect_tie_disagreeing_histories": len(r["disagreements"]),
            "protect_tie_histogram": dict(sorted(r["tags"].items())),
        },
    }


def _extra_crash_points(tier, rng):
    import common

    n_cases = 22 if tier == "quick" else 260  # (30 until round 4: 8 cases made room for the class families of heap_shapes.py)
    per_call = 20 if tier == "quick" else None  # None: every line event
    probes = []  # (case, index of probed op line)
    for _ in range(n_cases):
        case = H.gen_case(rng, SWEEP_PROFILE)
        idxs = [
            i
            for i, l in enumerate(case["ops"])
            if l.startswith("op ") and l.split()[2] in H.COW_OPS and H.op_inplace(l.split()[2:]) is False
        ]
        rng.shuffle(idxs)
        for i in idxs[: (3 if tier == "quick" else 4)]:
            probes.append((case, i))
    # model: the set of worlds reachable by cutting the call after its k-th effect
    model_in, spans = [], []
    for case, i in probes:
        ls = H.table_lines(case["table"]) + case["ops"][:i] + ["sweep " + " ".join(case["ops"][i].split()[2:])]
        spans.append((len(model_in), len(ls)))
        model_in.extend(ls)
    model_out = common.run_driver(DRIVER, model_in)
    evaluations = 0
    violations, disagreements, keys = [], [], []
    lines_total = 0
    distinct_total = 0
    for (case, i), (s, n) in zip(probes, spans):
        sweep = model_out[s + n - 1]
        if not sweep.startswith("sweep "):
            continue  # the probed line does not resolve (bad-op)
        worlds = set(sweep.split(" ;; ", 1)[1].split(" || "))
        H.POOL.begin(())
        world = H.World(case["table"])
        for l in case["ops"][:i]:
            H.run_line(world, l)
        toks = case["ops"][i].split()[2:]
        try:
            call = H.build_call(world, toks)
        except (LookupError, ValueError):
            continue
        if not _eligible(world, toks):
            continue
        before = H.snapshot_roots(world)
        record = []
        n_lines, _, _ = H.run_with_line_fault(call, None, record)
        lines_total += n_lines
        ks = H.crash_points(record, rng, per_call)
        distinct_total += len(set(record))
        for k in ks:
            H.POOL.begin(())
            H.run_with_line_fault(call, k)
            evaluations += 1
            after = H.snapshot_roots(world)
            shown = world.show()
            sub = {"table": case["table"], "ops": case["ops"][: i + 1], "line_fault": k, "sub_seed": case.get("sub_seed")}
            if after != before:
                violations.append(
                    {
                        "case": sub,
                        "violation": [
                            f"copy-on-write call `{' '.join(toks)}` cut at library line #{k} changed root(s) {_diff(before, after)}"
                        ],
                    }
                )
                break
            if shown not in worlds:
                disagreements.append({"case": sub, "at": k, "real": shown, "model": sorted(worlds)[:3]})
                break
        keys.append((H.dumps(case["table"]), case["ops"][i], n_lines))
    return {
        "evaluations": evaluations,
        "nontrivial": keys,
        "violations": violations,
        "disagreements": disagreements,
        "info": {
            "crash_point_calls": len(keys),
            "crash_point_runs": evaluations,
            "library_line_events_in_probed_calls": lines_total,
            "distinct_source_lines_visited": distinct_total,
            "cut_points_per_call": "every line event" if per_call is None else f"first+last visit of every distinct source line + {per_call} random events",
        },
    }


def _kf_keyedlist_restore_crash(case, violation):
    """KF-C01-keyedlist-restore-crash: only crash-point cases (a `line_fault`) of the class families in which a
    KeyedList-valued slot is handed a whole conforming KeyedList or the do_not_copy slot is re-stored unchanged, and only
    when nothing but that KeyedList (the call's argument, or the receiver's do_not_copy entry and the constructor argument
    it shares by design) differs."""
    if not (HS.is_case(case) and case.get("shapes") == "C01" and case.get("line_fault") is not None):
        return False
    if not HS.known_restore_crash_shape(case["sc"]) or not violation:
        return False
    allowed = (
        "'the argument KeyedList handed to the call'", "'receiver (entries kvals)'", "'ctor_arg kvals'",
        "'the pre-existing object `value` handed out by the preparer hooks'",  # (the KeyedList a preparer hook / transform hands in)
    )
    for v in violation:
        if "cut at library line" not in v or " changed [" not in v:
            return False
        items = [x.strip() for x in v.split(" changed [", 1)[1].rstrip("]").split(", ")]
        if not items or any(x not in allowed for x in items):
            return False
    return True


KNOWN_MATCHERS = {"keyedlist_restore_crash": _kf_keyedlist_restore_crash}

MANIFEST_ENTRY = {
    "level_text": "Lean 4 proof, over a heap model with object identities (alloc/write effects, deepcopy with memo, do_not_copy, thaw window, callback fault plans, crash points between effects), that every helper called without _inplace=True writes only objects allocated during the call, hence leaves every pre-existing object (receiver graph, arguments, other instances, class-level defaults) unchanged for every class table, heap, operation, fault plan and effect prefix; tied to /repo on every run by executing generated histories on the real spec_classes and on the model and comparing outcome class, contents and alias pattern of all live objects after every step, plus a line-fault sweep of the real helpers against the model's crash states. Two further Lean models of the copying primitives: SpecVerif.Protect (protect_via_deepcopy / copy.deepcopy over tuples, named tuples, frozensets, sets, dicts, lists, plain objects, bytearrays, modules and uncopyable objects nested to any depth, with memo) with theorems that every mutable object of the copy is new, that the call fails iff the value holds an uncopyable object (a function of the value alone: no record of earlier calls) and that outcome and content do not depend on the identity supply; and SpecVerif.MutateValue (the mutate_safe discipline of mutate_value with abstract hooks that may return pre-existing objects) with exhaustively proved theorems that without inplace no pre-existing object -- the receiver's value, the argument, what a preparer or a transform handed out -- is ever edited; both tied to /repo per run (histories of protect calls with failing calls in between; all 9600 argument combinations of mutate_value).",
    "level_note": "Trusted: Lean kernel; axioms propext/Classical.choice/Quot.sound only; the hand-written models (Model/Heap.lean, Model/Inst.lean, Model/Protect.lean, Model/MutateValue.lean) and the correspondence harness; user callbacks pure. Class-level do_not_copy=True classes and frozen receivers are outside C01's quantifier (C07 covers frozen). The theorems are about the model; the per-run correspondence is what ties them to the code. KeyedList/KeyedSet, tuple-typed attributes, Alias / spec_property / property backed attributes and invalidated_by are outside the modelled grammar: real-code snapshot oracle over generated class families only (extra, harness/heap_shapes.py).",
    "technique": "Lean 4 frame theorem (writes target fresh identities) over a hand-written heap model; differential correspondence + crash-point sweep against the real helpers",
}
