"""
C02 -- derived copies share no mutable state with the original (do_not_copy excepted).

Correspondence: generated histories (class tables with do_not_copy attributes
and, sometimes, a do_not_copy=True class; aliasing inside the receiver; every
copy-on-write helper and deepcopy; then in-place mutations of results and
receivers: in-place helpers, assignments through nested instances, plain
container mutations) executed on the real `spec_classes` and on the Lean model
`SpecVerif.Heap` through `Drivers/Heap.lean`; compared after every line: the
outcome class and the canonical world, whose renumbered identities *are* the
alias pattern (which path of which root denotes the same object).
Oracle (independent of the model), written from the property text:
 (i)   identity-graph intersection of result vs receiver, minus objects the
       caller handed to that call, objects held by do_not_copy attributes and
       frozen nested instances;
 (ii)  do_not_copy attributes are carried by identity into the copy;
 (iii) each mutable object private to one side is mutated in place (and
       restored): the other side's content must not move;
 (iv)  around every in-place operation of the history every *other* live
       instance is unchanged (objects shared by the caller's own doing masked).
"""
import c02_masked as CM
import c02_masked_tie as CT
import heap_common as H
import heap_shapes as HS
import protect_tie as PT

PID = "C02"
LEAN_TARGETS = ["SpecVerif.Props.C02", "SpecVerif.Props.C02Masked", "SpecVerif.Props.Protect"]
AUDIT = [
    ("SpecVerif.Props.C02", "SpecVerif.Props.C02"),
    ("SpecVerif.Props.C02Masked", "SpecVerif.Props.C02Masked"),
    ("SpecVerif.Props.Protect", "SpecVerif.Props.Protect"),
]
DRIVER = "Drivers/Heap.lean"
REQUIRED_THEOREMS = [
    "SpecVerif.Props.C02.deepcopy_disjoint",
    "SpecVerif.Props.C02.deepcopy_disjoint_nodnc",
    "SpecVerif.Props.C02.dnc_by_identity",
    "SpecVerif.Props.C02.no_visible_change",
    "SpecVerif.Props.C02.result_disjoint",
    "SpecVerif.Props.C02.result_fresh",
    # instances with descriptor-backed attributes (Model/C02Masked.lean)
    "SpecVerif.Props.C02Masked.derive_disjoint",
    "SpecVerif.Props.C02Masked.derive_fresh",
    "SpecVerif.Props.C02Masked.derive_view_disjoint",
    "SpecVerif.Props.C02Masked.derive_keeps_heap",
    "SpecVerif.Props.C02Masked.read_writes_only_receiver",
    "SpecVerif.Props.C02Masked.derive_disjoint_nodnc",
    "SpecVerif.Props.C02Masked.derive_insulated",
    # `protect_via_deepcopy` over every kind of value (Model/Protect.lean): tuples, named tuples, frozensets, plain
    # objects, bytearrays, containers of containers
    "SpecVerif.Props.Protect.protect_shares_no_mutable",
    "SpecVerif.Props.Protect.protect_mutable_new",
    "SpecVerif.Props.Protect.protect_tuple_recreated",
    "SpecVerif.Props.Protect.protect_immutable_identity",
    "SpecVerif.Props.Protect.protect_same_content",
]
RULE = (
    "case = class table (see C01; 30% of the collection/nested attributes do_not_copy, 10% a do_not_copy=True nested "
    "class, list-of-instance defaults) x history of 5-14 operations generated while executing them: constructor, "
    "aliasing assignments (the same object in two attributes of the receiver, a nested instance that is also an item "
    "of a list attribute), every copy-on-write helper and deepcopy with freshly built arguments and pure transforms, "
    "followed by in-place helpers / nested assignments / raw container mutations of results and receivers (45% of "
    "helper calls in place, 25% raw mutations); non-trivial = the line changed the world or raised; distinct = "
    "distinct (table, pre-world, line) triples.  extra(): (a) classes with KeyedList/KeyedSet attributes; (b) masked sweep "
    "(harness/c02_masked.py, real code + oracle): 6 value kinds x sizes 0-3 x 8 class variants (eager/lazy, spec sub, 2-level "
    "sub, plain sub, frozen, do_not_copy on masked attributes declared on the class / on a subclass) x 12 kinds of __dict__ "
    "entry (spec_property cached / not overridable / invalidated_by / returning own state / overridable / with setter, "
    "Alias local / passthrough / fallback, property with setter, unannotated spec_property, functools.cached_property, "
    "undeclared attribute) x materialised by constructor / assignment / helper / first access, before or after the "
    "receiver was derived x generation 0-3 x holder (itself, attribute / list item / dict value of an outer instance) x "
    "56 derivation routes; (c) masked tie (harness/c02_masked_tie.py): generated tables with 2-5 masked attributes and "
    "histories of 7-15 operations (getattr, assignment, deletion, with_/reset_ in place or not, deepcopy) compared line by "
    "line with SpecVerif.C02Masked through Drivers/C02Masked.lean and judged by the oracle of (b); (d) class families of "
    "harness/heap_shapes.py judged by judge_c02 (from the property text: no common mutable object through __dict__s and "
    "through the attribute interface -- tuples, named tuples, frozensets, plain objects, bytearrays and keyed-container "
    "storage included --, do_not_copy slot carried by identity, in-place probes invisible through the other side): 33 "
    "value kinds (tuples of lists / dicts / tuples / spec instances, str-list pair, named tuple, frozenset of plain "
    "objects, plain object, bytearray, containers of containers and of tuples, keyed containers, Any kinds) x storage "
    "slots x class shape x invalidation x preparer hooks handing out registered pre-existing objects x state (size, "
    "materialisation, generation 0-3, aliasing, uncopyable member, outer holders) x 267 copy-on-write routes + 34 outer "
    "routes; quick: every 8th scenario of the systematic part + 220 random, second half after the prelude of earlier "
    "(also failed) calls; thorough: all + 6000; (e) protect tie (harness/protect_tie.py): histories of "
    "`protect_via_deepcopy` calls on values built from terms (every container kind around every kind of member, chains "
    "of three, aliasing / cycles) compared line by line with SpecVerif.Protect through Drivers/Protect.lean.  The second "
    "half of the heap-grammar histories runs after the same prelude."
)
ASSUMPTIONS = [
    "transforms and preparers return new objects, scalars or their argument (the quantifier's 'transforms that return "
    "new objects'); `rebuild` (list(v)) is only generated on lists of scalars",
    "objects handed in by the caller, do_not_copy attributes and frozen nested instances may be shared "
    "(DESIGN.md section 10 item 11); update()/transform() without keywords return the receiver itself (item 1)",
    "bool values are not generated (Python identifies True with 1)",
    "masked tie: getter functions come from a pool (new literal / self.<b> / list(self.<b>)); no invalidated_by, no "
    "preparers, constructor keywords for plain attributes only (the masked sweep covers those on the real code)",
]
OPEN_STATEMENTS = [
    "result_disjoint_Full (Props/C02.lean) is the statement WITHOUT the side conditions and is false in model and code "
    "for documented reasons (update()/transform() without keywords return the receiver; a transform such as list(v) "
    "re-uses the receiver's items): kept as a record; result_disjoint proves it for every other operation "
    "(Op.cowCovered) and callbacks that return scalars or their argument (Cb.plain)",
]
EXHAUSTIVE = {"quick": False, "thorough": False}

PROFILE = {
    "p_frozen": 0.1,
    "p_nested_frozen": 0.1,
    "p_class_dnc": 0.1,
    "p_attr_dnc": 0.3,
    "p_inplace": 0.45,
    "p_fault": 0.05,
    "p_bad": 0.06,
    "p_raw": 0.25,
    "n_ops": (5, 14),
    "w": {"copy": 3, "nested_set": 4, "alias": 5, "with": 5, "updattr": 3, "trattr": 3, "update": 4, "reset": 2, "resetattr": 3},
}


def setup():
    pass


def gen_cases(tier, rng):
    if tier == "search":
        k = 0
        while True:
            k += 1
            # every 5th case of the search stream is a scenario of the class families outside the heap grammar, every 7th
            # a history of `protect_via_deepcopy` calls (harness/protect_tie.py; judged by its oracle)
            if k % 7 == 0:
                yield PT.random_case(rng)
                continue
            yield HS.random_case(PID, rng) if k % 5 == 0 else H.gen_case(rng, PROFILE)
    n = 260 if tier == "quick" else 5500
    for i in range(n):
        case = H.gen_case(rng, PROFILE)
        if i >= n // 2:
            # the second half of the histories runs after the prelude of earlier -- also FAILED -- calls in this process
            # (heap_shapes.run_prelude): the model has no process-level state, the code must not have any either
            case["prelude"] = True
        yield case


def _special(case):
    """Cases of the `extra` sections (replayable through `oracle`), not histories of the heap grammar."""
    return "masked" in case or "masked_tie" in case or "extra" in case or "protect_tie" in case or HS.is_case(case)


def model_lines(case):
    return [] if _special(case) else H.model_lines(case)


def real_lines(case):
    if _special(case):
        return []
    HS.ensure_prelude(case)
    return H.real_lines(case)


def shrink(case, at=None):
    return [] if _special(case) else H.shrink_case(case, at)


def nontrivial(case, real):
    if HS.is_case(case):
        return [("shapes", H.dumps(case["sc"]))]
    return [] if _special(case) else H.nontrivial_keys(case, real)


def tags(case, real):
    if HS.is_case(case):
        return ["shapes:" + HS.route_kind(case["sc"]["route"])]
    return [] if _special(case) else H.op_tags(case, real)


# ---------------------------------------------------------------------------
# oracle
# ---------------------------------------------------------------------------


def _is_frozen_inst(o):
    meta = getattr(type(o), "__spec_class__", None)
    return meta is not None and meta.frozen


def _targeted_attrs(toks):
    """Attribute numbers the call itself re-assigns (None: all of them)."""
    name = toks[0]
    if name in ("with", "updattr", "trattr", "resetattr", "eadd", "eupd", "etr", "erm"):
        return {int(toks[2])}
    if name in ("update", "transform"):
        return {int(t[1:].split("=")[0]) for t in toks[3:] if t[0] in "kf"}
    if name == "reset":
        return None
    return set()


def oracle(case):
    if "masked" in case:  # a scenario of the masked-attribute sweep (harness/c02_masked.py)
        return CM.run_scenario(case["masked"])[1]
    if "masked_tie" in case:  # a history of the descriptor-layer tie (harness/c02_masked_tie.py)
        return CT.oracle(case["masked_tie"])
    if "extra" in case:
        return []
    if "protect_tie" in case:  # a history of `protect_via_deepcopy` calls (harness/protect_tie.py)
        return PT.oracle(case["protect_tie"])
    if HS.is_case(case):  # a scenario of the class families outside the heap grammar (harness/heap_shapes.py: judge_c02)
        return HS.judge_case(case)
    HS.ensure_prelude(case)
    violations = []
    handed = {}  # ids of objects handed in by the caller so far (kept alive)

    def hand_in(world, toks):
        for t in H.op_arg_toks(toks):
            try:
                handed.update(H.reachable_ids(world.resolve(t)))
            except (LookupError, ValueError):
                pass

    def others_snapshot(world, skip_obj):
        masked = dict(handed)
        for v in world.vars.values():
            H.dnc_held_ids(v, masked)
        return {
            n: H.masked_snapshot(v, masked)
            for n, v in world.vars.items()
            if v is not skip_obj and id(v) not in masked
        }

    def on_op(world, dst, toks, run):
        name = toks[0]
        ip = H.op_inplace(toks)
        recv = None
        if name != "new":
            try:
                recv = world.resolve(toks[1])
            except (LookupError, ValueError):
                recv = None
        call_args = {}
        for t in H.op_arg_toks(toks):
            try:
                H.reachable_ids(world.resolve(t), call_args)
            except (LookupError, ValueError):
                pass
        hand_in(world, toks)
        # (iv) in-place operation: every other live instance is unchanged
        before_others = None
        if ip and recv is not None:
            root = world.resolve(H.root_token(toks[1]))
            before_others = others_snapshot(world, root)
        res, exc = run()
        if before_others is not None:
            root = world.resolve(H.root_token(toks[1]))
            after_others = others_snapshot(world, root)
            for n, snap in before_others.items():
                if n in after_others and after_others[n] != snap:
                    violations.append(f"in-place `{' '.join(toks)}` changed another instance v{n}")
        if exc is not None or recv is None or res is recv:
            return
        is_copy = (name in H.COW_OPS and ip is False) or name == "copy"
        if not is_copy or not hasattr(type(res), "__spec_class__"):
            return
        # (i) identity-graph intersection; "handed in by the caller" = the argument
        # objects and whatever they reach before or after the call
        allowed = dict(call_args)
        for t in H.op_arg_toks(toks):
            try:
                allowed.update(H.reachable_ids(world.resolve(t)))
            except (LookupError, ValueError):
                pass
        H.dnc_held_ids(recv, allowed)
        r_ids = H.mutable_ids(res, _is_frozen_inst)
        s_ids = H.mutable_ids(recv, _is_frozen_inst)
        shared = [i for i in r_ids if i in s_ids and i not in allowed]
        if shared:
            kinds = sorted({type(r_ids[i]).__name__ for i in shared})
            violations.append(f"`{' '.join(toks)}`: result shares {len(shared)} mutable object(s) ({kinds}) with the receiver")
        # (ii) do_not_copy attributes carried by identity
        meta = type(recv).__spec_class__
        targeted = _targeted_attrs(toks)
        if type(res) is type(recv) and not H.declared_class_dnc(type(recv)):
            for aname in list(meta.attrs):
                if not H.declared_attr_dnc(type(recv), aname) or aname not in recv.__dict__:
                    continue
                a = int(aname[1:])
                if targeted is None or a in targeted:
                    continue
                if res.__dict__.get(aname, None) is not recv.__dict__[aname]:
                    v = recv.__dict__[aname]
                    if not (v is None or isinstance(v, (bool, int, str))):
                        violations.append(f"`{' '.join(toks)}`: do_not_copy attribute {aname} was not carried by identity")
        # (iii) probe mutations on objects private to one side
        if not shared:
            for side, other, ids, other_ids in ((res, recv, r_ids, s_ids), (recv, res, s_ids, r_ids)):
                before = H.content(other)
                for i, o in ids.items():
                    if i in allowed or i in other_ids:
                        continue
                    undo = H.probe_mutate(o)
                    moved = H.content(other) != before
                    undo()
                    if moved:
                        violations.append(
                            f"`{' '.join(toks)}`: in-place change of a {type(o).__name__} of one side is visible through the other"
                        )
                        break

    def on_other(world, line):
        toks = line.split()
        if toks[0] == "raw":
            try:
                root = world.resolve(H.root_token(toks[2]))
            except (LookupError, ValueError):
                H.run_line(world, line)
                return
            for t in toks[3:]:
                if t.startswith("@"):
                    try:
                        handed.update(H.reachable_ids(world.resolve(t)))
                    except (LookupError, ValueError):
                        pass
            before = others_snapshot(world, root)
            H.run_line(world, line)
            after = others_snapshot(world, root)
            for n, snap in before.items():
                if n in after and after[n] != snap:
                    violations.append(f"`{line}` changed another instance v{n}")
        else:
            H.run_line(world, line)

    H.replay(case, on_op=on_op, on_other=on_other)
    return violations


# ---------------------------------------------------------------------------
# extra: classes with KeyedList / KeyedSet attributes (outside the heap model's grammar: real code + oracle only).
# The identity graph walks the key index of keyed containers as well as their item sequence (C02-r2s2).
# ---------------------------------------------------------------------------


def _keyed_ns():
    from typing import Dict, List

    from spec_classes import spec_class
    from spec_classes.types import KeyedList, KeyedSet

    @spec_class(key="k", bootstrap=True)
    class It:
        k: str
        tags: List[str] = []

    @spec_class(bootstrap=True)
    class Holder:
        label: str = ""
        items: KeyedList[It, str]
        members: KeyedSet[It, str]
        plain: List[It]
        table: Dict[str, It]

    @spec_class(bootstrap=True)
    class Outer:
        name: str = ""
        holder: Holder
        holders: List[Holder]

    return It, Holder, Outer


def _keyed_derivations():
    import copy as _c

    return [
        ("deepcopy", lambda h: _c.deepcopy(h)),
        ("copy.copy+deepcopy", lambda h: _c.deepcopy(_c.copy(h))),
        ("with_label", lambda h: h.with_label("x")),
        ("update(label)", lambda h: h.update(label="y")),
        ("transform(label)", lambda h: h.transform(label=lambda v: v + "!")),
        ("reset_label", lambda h: h.reset_label()),
        ("with_item(new)", lambda h: h.with_item(k="zz")),
        ("update_item(first, tags)", lambda h: h.update_item(0, tags=["u"], _by_index=True) if len(h.items) else h.with_item(k="zz")),
        ("transform_item(first)", lambda h: h.transform_item(0, lambda it: it, _by_index=True) if len(h.items) else h.with_item(k="zz")),
        ("without_item(first)", lambda h: h.without_item(0, _by_index=True) if len(h.items) else h.with_item(k="zz")),
        ("with_member(new)", lambda h: h.with_member(k="zz")),
        ("without_member(first)", lambda h: h.without_member(next(iter(h.members))) if len(h.members) else h.with_member(k="zz")),
        ("with_plain(new)", lambda h: h.with_plain(k="zz")),
        ("with_table('t')", lambda h: h.with_table("t", k="zz")),
        ("transform_items(ident)", lambda h: h.transform_items(lambda v: v)),
        ("update_items()", lambda h: h.update_items()),
        ("reset_plain", lambda h: h.reset_plain()),
    ]


def _by_key_items(h):
    """Every item object reachable through the KEY interfaces of the keyed containers of `h`."""
    out = []
    for cont in (h.__dict__.get("items"), h.__dict__.get("members")):
        if cont is None:
            continue
        for it in list(cont):
            k = cont.key(it)
            try:
                out.append(cont[k])
            except Exception:  # noqa: BLE001
                pass
        if hasattr(cont, "items") and hasattr(cont, "keys"):
            try:
                out.extend(v for _k, v in cont.items())
            except Exception:  # noqa: BLE001
                pass
            try:
                out.extend(cont.get(k) for k in cont.keys())
            except Exception:  # noqa: BLE001
                pass
    return [o for o in out if o is not None]


def _extra_keyed(tier, rng):
    It, Holder, Outer = _keyed_ns()
    evaluations, violations, keys = 0, [], []

    def mk(n, gen):
        h = Holder(
            items=[It(chr(97 + i), tags=[str(i)]) for i in range(n)],
            members=[It(chr(97 + i), tags=[str(i)]) for i in range(n)],
            plain=[It(chr(97 + i), tags=[str(i)]) for i in range(n)],
            table={chr(97 + i): It(chr(97 + i), tags=[str(i)]) for i in range(n)},
        )
        for _ in range(gen):  # a derived instance as the starting point (second / third generation copies)
            h = h.with_label(h.label + "g")
        return h

    def judge(label, recv, res, wrap_recv=None, wrap_res=None):
        """(i) no shared mutable object, (iii) no in-place change of either side visible through the other."""
        nonlocal evaluations
        evaluations += 1
        r_ids = H.mutable_ids(res)
        s_ids = H.mutable_ids(recv)
        shared = [i for i in r_ids if i in s_ids]
        if shared:
            kinds = sorted({type(r_ids[i]).__name__ for i in shared})
            violations.append({"case": {"extra": "keyed", "call": label}, "violation": [f"{label}: result shares {len(shared)} mutable object(s) ({kinds}) with the receiver (key index included)"]})
            return
        for side, other in ((res, recv), (recv, res)):
            before = H.deep_snapshot(other)
            holders = [side] if isinstance(side, Holder) else [side.__dict__.get("holder")] + list(side.__dict__.get("holders") or [])
            for hh in holders:
                if hh is None:
                    continue
                for it in _by_key_items(hh) + list(hh.__dict__.get("plain") or []) + list((hh.__dict__.get("table") or {}).values()):
                    it.tags.append("probe")
                    moved = H.deep_snapshot(other) != before
                    it.tags.pop()
                    if moved:
                        violations.append({"case": {"extra": "keyed", "call": label}, "violation": [f"{label}: appending to the tags of an item reached by key on one side is visible through the other side"]})
                        return

    for n in range(0, 4):
        for gen in range(0, 3):
            for label, fn in _keyed_derivations():
                recv = mk(n, gen)
                try:
                    res = fn(recv)
                except Exception:  # noqa: BLE001
                    continue
                if res is recv:
                    continue
                keys.append((n, gen, label))
                judge(f"{label} on a generation-{gen} holder with {n} item(s)", recv, res)
    # nested: the holder is itself an attribute / a list element of another spec instance
    for n in (1, 2):
        for label, fn in (
            ("deepcopy(outer)", lambda o: __import__("copy").deepcopy(o)),
            ("outer.with_name", lambda o: o.with_name("x")),
            ("outer.update_holder(label)", lambda o: o.update_holder(label="q")),
            ("outer.transform_holder(ident)", lambda o: o.transform_holder(lambda v: v)),
            ("outer.update_holder()", lambda o: o.update_holder()),
            ("outer.with_holder(new)", lambda o: o.with_holder(label="fresh")),
            ("outer.update_holder(first, label)", lambda o: o.update_holder(label="z")),
            ("outer.transform(name)", lambda o: o.transform(name=lambda v: v + "!")),
        ):
            o = Outer(holder=mk(n, 1), holders=[mk(n, 0), mk(n, 2)])
            try:
                res = fn(o)
            except Exception:  # noqa: BLE001
                continue
            if res is o:
                continue
            keys.append((n, "outer", label))
            judge(f"{label} with {n} item(s)", o, res)
    return {
        "evaluations": evaluations,
        "nontrivial": keys,
        "violations": violations,
        "disagreements": [],
        "info": {"derivations_on_classes_with_keyed_attributes": evaluations},
    }


def _extra_masked(tier, rng):
    """Descriptor-backed attributes and unmanaged `__dict__` entries (harness/c02_masked.py): real code + oracle."""
    evaluations, keys, violations, hist = CM.sweep(tier, rng)
    return {
        "evaluations": evaluations,
        "nontrivial": keys,
        "violations": violations[:50],
        "disagreements": [],
        "info": {"derivations_on_classes_with_masked_attributes": evaluations, "masked_scenario_status": hist},
    }


def _extra_masked_tie(tier, rng):
    """Real descriptor layer vs `SpecVerif.C02Masked` through Drivers/C02Masked.lean (harness/c02_masked_tie.py)."""
    import common

    r = CT.run(tier, rng, common.run_driver)
    return {
        "evaluations": r["cases"],
        "nontrivial": r["keys"],
        "violations": r["violations"][:20],
        "disagreements": r["disagreements"][:20],
        "info": {
            "masked_tie_cases": r["cases"],
            "masked_tie_lines_compared": r["lines"],
            "masked_tie_disagreeing_cases": len(r["disagreements"]),
            "masked_tie_histogram": dict(sorted(r["tags"].items())),
        },
    }


def _extra_protect_tie(tier, rng):
    """Real `protect_via_deepcopy` vs `SpecVerif.Protect.protect` through Drivers/Protect.lean (harness/protect_tie.py)."""
    import common

    r = PT.run(tier, rng, common.run_driver)
    return {
        "evaluations": r["lines"],
        "nontrivial": r["keys"],
        "violations": r["violations"][:20],
        "disagreements": r["disagreements"][:20],
        "info": {
            "protect_tie_histories": r["cases"],
            "protect_tie_lines_compared": r["lines"],
            "protect_tie_disagreeing_histories": len(r["disagreements"]),
            "protect_tie_histogram": dict(sorted(r["tags"].items())),
        },
    }


def extra(tier, rng):
    out = {"evaluations": 0, "nontrivial": [], "violations": [], "disagreements": [], "info": {}}
    for part in (_extra_keyed, _extra_masked, _extra_masked_tie, lambda t, r: HS.extra_section(PID, t, r), _extra_protect_tie):
        r = part(tier, rng)
        out["evaluations"] += r["evaluations"]
        for k in ("nontrivial", "violations", "disagreements"):
            out[k].extend(r[k])
        out["info"].update(r["info"])
    return out


KNOWN_MATCHERS = {}

MANIFEST_ENTRY = {
    "level_text": "Lean 4 proof, over the heap model with object identities, that deepcopy (with memo, attribute- and class-level do_not_copy, __post_copy__) returns an object from which no pre-existing object is reachable except through do_not_copy attributes, which are carried by identity, and that an in-place write to an object a value cannot reach is invisible through that value (so mutating the copy or the original is never visible through the other); and that the result of every copy-on-write helper, the constructor and deepcopy is a new object from which only objects handed in as arguments or held by do_not_copy attributes are reachable among the pre-existing ones (for callbacks returning scalars or their argument); tied to /repo on every run by executing generated histories (aliasing inside the receiver, every helper, then in-place mutations of either side) on the real spec_classes and on the model and comparing contents and the alias pattern of all live objects after every step. Second Lean model (SpecVerif.C02Masked) for instances whose __dict__ also holds the cache/override of a spec_property, the local override of an Alias or the backing field of a property: the descriptor protocols (get with cache fill, set, delete) and mutate_attr / with_<a> / reset_<a> through them; proved for every table, descriptor assignment and heap that the result of deepcopy / with_<a> / reset_<a> and everything it shows through getattr afterwards reaches only do_not_copy values and the call's argument among the pre-existing objects, that deriving writes no pre-existing object and that getattr writes only its own receiver; tied to /repo per run through Drivers/C02Masked.lean. Third Lean model (SpecVerif.Protect) of protect_via_deepcopy / copy.deepcopy over tuples, named tuples, frozensets, sets, dicts, lists, plain objects, bytearrays, modules and uncopyable objects nested to any depth (memo; a tuple is returned as it is iff none of its members needed copying): proved for every value that no mutable object of the copy is an object of the original wherever it sits, that a tuple in which a mutable object occurs is re-created, that the copy has the content of the original; tied to /repo per run through Drivers/Protect.lean.",
    "level_note": "Trusted: Lean kernel; axioms propext/Classical.choice/Quot.sound only; the hand-written heap model and the correspondence harness; callbacks return new objects, scalars or their argument. Sharing of caller-provided arguments, do_not_copy attributes and frozen nested instances is allowed by the property. The theorems are about the model; the per-run correspondence (alias pattern) ties them to the code.",
    "technique": "Lean 4 reachability/provenance theorems over a hand-written heap model; differential correspondence of alias patterns against the real helpers",
}
