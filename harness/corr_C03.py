"""
C03 — managed attributes always satisfy their declared type on every mutation route.

Correspondence between the real `spec_classes` API (constructor keywords, dict-to-spec casting,
`obj.attr = v`, `del`, the four scalar helpers, element helpers with index / key / value addressing
for list / dict / set attributes, nested keyword updates, top-level `update` / `transform`, preparers
and item preparers) and the Lean Impl model `SpecVerif.C03.step` (Drivers/C03.lean); the invariant
`SpecVerif.C03.wt` evaluated by the driver after every call is compared with an independently
written reference type checker (plain recursion over `typing.get_origin/get_args`) applied to every
managed attribute of every live instance.

Round 5: families may be given as class STATEMENTS (`decl` lines; `SpecVerif.C03Boot.bootstrap` mirrors
`spec_class.bootstrap`: decorator options attrs / attrs_typed / attrs_skip / key / init_overflow_attr, re-annotation and
re-defaulting in subclasses, plain subclasses); their real classes are built fresh for every case and used in a chosen
order of first use (`pre`), see the section "round 5" below.
"""
import collections.abc
import json
import typing

import corr_C05 as C5
import sc_values as V
from sc_values import attr_name, decode, show

PID = "C03"
LEAN_TARGETS = ["SpecVerif.Props.C03", "SpecVerif.Props.C03Nested", "SpecVerif.Props.C03Boot", "SpecVerif.Model.C05Proto"]
AUDIT = [("SpecVerif.Props.C03", "SpecVerif.Props.C03"), ("SpecVerif.Props.C03Nested", "SpecVerif.Props.C03Nested"),
         ("SpecVerif.Props.C03Boot", "SpecVerif.Props.C03Boot")]
DRIVER = "Drivers/C03.lean"
REQUIRED_THEOREMS = [
    "SpecVerif.Props.C03.wellTyped_step",
    "SpecVerif.Props.C03.wellTyped_reachable",
    "SpecVerif.Props.C03.bad_value_rejected",
    "SpecVerif.Props.C03.wellTyped_attr",
    "SpecVerif.Props.C03.items_checked_by_prepare",
    "SpecVerif.Props.C03.stored_value_conforms_deep",
    "SpecVerif.Props.C03.bad_default_rejected",
    "SpecVerif.Props.C03.bad_default_error_stores_nothing",
    "SpecVerif.Props.C03.reset_error_stores_nothing",
    "SpecVerif.Props.C03Nested.conforms_list_iff",
    "SpecVerif.Props.C03Nested.conforms_set_iff",
    "SpecVerif.Props.C03Nested.conforms_dict_iff",
    "SpecVerif.Props.C03Nested.conforms_list_perm",
    "SpecVerif.Props.C03Nested.later_element_checked",
    "SpecVerif.Props.C03Nested.badAt_not_conforms",
    "SpecVerif.Props.C03Nested.nested_bad_value_rejected",
    "SpecVerif.Props.C03Nested.nested_bad_item_rejected",
    "SpecVerif.Props.C03Nested.nested_bad_dict_entry_rejected",
    "SpecVerif.Props.C03Nested.wellTyped_no_bad_position",
    "SpecVerif.Props.C03Nested.reachable_no_bad_position",
    "SpecVerif.Props.C03Boot.managed_attr_type",
    "SpecVerif.Props.C03Boot.attrs_nominated_keeps_annotation",
    "SpecVerif.Props.C03Boot.attrs_typed_decides",
    "SpecVerif.Props.C03Boot.annotation_decides",
    "SpecVerif.Props.C03Boot.inherited_attr_type",
    "SpecVerif.Props.C03Boot.key_attr_type",
    "SpecVerif.Props.C03Boot.first_use_order_irrelevant",
    "SpecVerif.Props.C03Boot.first_use_orders_agree",
    "SpecVerif.Props.C03Boot.constructB_wellTyped",
]
RULE = (
    "case = class family (hand-written families incl. one with list/dict/set attributes carrying item preparers, "
    "one of which returns non-conforming items; seeded random families from the grammar) x receiver class x "
    "constructor keywords x a history of 4..14 calls. Valid stream: every route (constructor, obj.a = v, del, "
    "with_/update_/transform_/reset_<a> with value / keywords / dict-to-spec / transforms, update/transform/reset, "
    "with_/update_/transform_/without_<item> by index / key / value, _inplace, _if) with conforming arguments. "
    "Malformed stream: the same routes with ONE non-conforming value aimed at one position (attribute value, list / "
    "set element, dict key, dict value, nested attribute through keywords, through a dict cast and through the "
    "constructor, result of a transform, result of a preparer / item preparer); calls tagged `bad` must raise "
    "TypeError or ValueError and store nothing. After every call the reference checker visits every managed "
    "attribute of every live instance. Families also carry: attributes annotated with the abstract collection generics "
    "MutableSequence / MutableSet / MutableMapping (check_type looks at the container class only: pre-built containers "
    "with ONE wrong item / key / value at each position through every route), attributes backed by an overridable "
    "spec_property (overrides must conform like any value), and defaults that do NOT conform (declared value, "
    "default_factory, Attr(...), dataclasses.field, preparer output, plain- and spec-subclass overrides, wrong element "
    "of a default collection): constructed with explicit values, then del / reset_<a> / reset() must raise and store "
    "nothing. Family `nest` (and random families widened by random_nested_ty): element / key / value types BELOW the level "
    "the collection mutators walk -- Optional[List[V]], Union[Dict[str,V],int], Optional[Set[V]], Dict[str,List[V]], List[Set[V]], "
    "List[List[V]], Dict[str,Dict[str,V]], Optional[Dict[V,W]], Optional[List[List[V]]], element types validated / Literal / "
    "Union: every class x attribute x route (constructor, with_, assignment, update_, transform_ constant and growing the "
    "stored container, update, transform, element helpers with_/update_/transform_<item> constant and growing) x position of the "
    "ONE non-conforming leaf among conforming neighbours of the same Python class (first / last / anywhere, on every level; now "
    "and then 7..33 neighbours; now and then the equal float next to an int), conforming values of the same shape through the "
    "same routes before and after. extra(): the same for tuple generics on the real code (not in the model). "
    "Round 5 -- families given as class STATEMENTS (`decl` lines: the Lean model SpecVerif.C03Boot.bootstrap works out the class "
    "table itself): hierarchies root / spec subclass / sub-subclass / sibling subclass / plain subclasses / nested class from a "
    "grammar over every decorator option (attrs=, attrs_typed=, attrs_skip= alone and combined, naming annotated, un-annotated and "
    "INHERITED attributes, attrs_typed contradicting the annotation, the Any placeholder in attrs_typed; key= managed / annotated "
    "but not managed / bare / None; init_overflow_attr=), subclasses re-annotating inherited attributes with a NARROWER type (with "
    "and without a new value, every default kind), re-defaulting, lazy and eager bootstrap.  The real classes are built fresh for "
    "every case and used in a chosen ORDER OF FIRST USE (`pre`: nothing before / each ancestor / ancestors root-first and "
    "nearest-first / a descendant / a sibling / the nested class / everything else first; each an ordinary use: construction with "
    "values for the collection attributes plus element helper calls).  For every class x attribute x route (constructor, with_, "
    "assignment, update_, transform_, update, transform, element helpers append / insert / replace / update / transform, dict value "
    "and key): a value that conforms to the OTHER type the attribute has in the family (the parent's, a sibling's, the annotation the "
    "decorator overrides) but not to this class's must raise and store nothing; attributes typed the same everywhere get any "
    "non-conforming value through two routes (all routes for a key attribute without helpers). "
    "Non-trivial = a call that changed state or raised; distinct = distinct (family, pre-state, call[, order of first use])."
)
ASSUMPTIONS = [
    "instances handed in as arguments or returned by callbacks were themselves created through the API (are well typed)",
    "preparers, item preparers and transforms are pure and total; their results are arbitrary values",
    "bools are kept out of hashed positions (True == 1) and sets aimed at list attributes have at most one element",
    "direct mutation of a contained list/dict by the user is out of scope (property text)",
    "KeyedList/KeyedSet attributes and tuple generics are not in the Lean model (extra() checks them on the real code with the "
    "reference checker; the containers themselves: C13/C14, check_type alone: C15); frozen classes: C07; the constructor's "
    "**kwargs collection (init_overflow_attr): C05/C09 -- families are generated without it",
    "a dependant (`invalidated_by`) whose default passes check_type conforms deeply (EnvOK.depDefaultDeep: the model "
    "resets dependants after check_type alone)",
    "class statements (C03Boot): `Attr(...)` / `field(...)` values sit on attributes the class manages or inherits; single "
    "inheritance; no `invalidated_by` / `do_not_copy` / `frozen` in the statements; a subclass re-annotating an inherited attribute "
    "also manages it (a class whose decorator excludes a name it re-annotates keeps the parent's type for it: not generated); the "
    "overflow attribute is not annotated differently and receives no keywords; plain subclasses do not re-default the key",
]
EXHAUSTIVE = {"quick": False, "thorough": False}


def setup():
    C5.setup()


A = C5.A
INT, STR = C5.INT, C5.STR

FAMILY_ELEM = {
    "classes": [
        {"id": 1, "kind": "spec", "base": None, "key": None, "attrs": [
            A(0, INT, "value", "i1"), A(1, ["list", INT], "value", "L 1 i1"), A(2, ["lit", ["s100", "s101"]], "value", "s100")]},
        {"id": 0, "kind": "spec", "base": None, "key": None, "attrs": [
            A(0, ["list", INT], "value", "L 2 i1 i2"),
            A(1, ["dict", STR, INT], "factory", "D 1 s100 i1"),
            A(2, ["set", INT], "attrfactory", "S 2 i1 i2"),
            A(3, ["list", STR]),
            A(4, ["dict", INT, STR]),
            A(5, ["set", STR]),
            A(6, ["list", INT], "fieldfactory", "L 1 i5", ip=0),
            A(7, ["dict", STR, INT], ip=6),
            A(8, ["set", INT], ip=1),
            A(9, ["list", INT], ip=6),
            A(10, ["spec", 1]),
            A(11, INT, prep=6),
            A(12, V.opt(INT), "value", "N"),
            A(13, ["list", ["union", INT, STR]]),
            # containers inside Optional / Union are no "collection attributes": check_type alone guards their elements
            A(15, V.opt(["list", INT]), "value", "N"),
            A(16, ["union", ["dict", STR, INT], INT], "value", "i0"),
            A(17, V.opt(["set", STR])),
            # validated types at attribute, element and dict-value positions (one type object per predicate, shared)
            A(18, ["valid", 0, INT], "value", "i1"),
            A(19, ["list", ["valid", 0, INT]]),
            A(20, ["dict", STR, ["valid", 0, INT]]),
            A(21, V.opt(["valid", 1, INT]), "value", "N"),
            A(22, ["valid", 2, STR], "value", "s100"),
            A(23, ["set", ["valid", 3, INT]]),
            A(24, ["valid", 3, INT], "value", "i2"),
        ]},
        {"id": 2, "kind": "plain", "base": 0, "over": {"0": "L 1 i9"}},
        {"id": 3, "kind": "spec", "base": 0, "key": None, "attrs": [A(14, ["list", INT], "value", "L 0")]},
    ]
}

# container classes `check_type` does not look inside (the abstract collection generics): only the per-item pass of
# `CollectionAttrMutator.prepare()` and the checking inserters guard the items
VT0, VT3 = ["valid", 0, INT], ["valid", 3, INT]
FAMILY_ABS = {
    "classes": [
        {"id": 1, "kind": "spec", "base": None, "key": None, "attrs": [
            A(0, INT, "value", "i1"), A(1, ["mseq", INT]), A(2, ["mmap", STR, INT], "factory", "D 1 s100 i1")]},
        {"id": 0, "kind": "spec", "base": None, "key": None, "attrs": [
            A(0, ["mseq", INT]),
            A(1, ["mmap", STR, INT]),
            A(2, ["mset", STR]),
            A(3, ["mseq", STR], "factory", "L 2 s100 s101"),
            A(4, ["mmap", INT, STR], "attrfactory", "D 1 i1 s100"),
            A(5, ["mset", INT], "fieldfactory", "S 2 i1 i2"),
            A(6, ["mseq", ["union", INT, STR]]),
            A(7, ["mseq", VT0]),
            A(8, ["mmap", STR, VT3]),
            A(9, ["list", INT], "value", "L 1 i1"),          # the concrete kinds next to them
            A(10, ["dict", STR, INT]),
            A(11, INT, "value", "i0"),
            A(12, ["spec", 1]),
            A(13, ["mseq", V.opt(INT)], "factory", "L 2 N i0"),
            A(14, ["mset", ["lit", ["s100", "s101"]]]),
        ]},
        {"id": 2, "kind": "plain", "base": 0, "over": {"11": "i5"}},
        {"id": 3, "kind": "spec", "base": 0, "key": None, "over": {"11": "i7"}, "attrs": [A(15, ["mseq", INT], "factory", "L 0")]},
        {"id": 4, "kind": "plain", "base": 3, "over": {"9": "L 0"}},
    ]
}

# managed attributes whose class-level value is a descriptor (an overridable `spec_property`): no default of their
# own, reading without an override runs the getter; an override must conform like any other value
FAMILY_DESC = {
    "classes": [
        {"id": 1, "kind": "spec", "base": None, "key": None, "attrs": [
            A(0, INT, "value", "i1"), A(1, INT, "prop", "i3"), A(2, STR, "prop", "s100")]},
        {"id": 0, "kind": "spec", "base": None, "key": None, "attrs": [
            A(0, INT, "value", "i8"),
            A(1, INT, "prop", "i1"),
            A(2, ["lit", ["s100", "s101"]], "prop", "s100"),
            A(3, V.opt(STR), "prop", "N"),
            A(4, ["union", INT, STR], "prop", "s101"),
            A(5, STR, "prop", "s999"),                        # falsy getter value
            A(6, ["spec", 1], "prop", "I 1 1 0 i2"),
            A(7, ["list", INT], "prop", "L 2 i1 i2"),
            A(8, ["float"], "prop", "f3"),
            A(9, VT0, "prop", "i0"),
            A(10, STR, "value", "s100"),
            A(11, ["dict", STR, INT], "prop", "D 1 s100 i1"),
            A(12, ["bool"], "prop", "F"),
            A(13, INT, "value", "i2", prep=4),               # a preparer reading a0
        ]},
        {"id": 2, "kind": "plain", "base": 0, "over": {"0": "i0", "10": "s101"}},
        {"id": 3, "kind": "spec", "base": 0, "key": None, "over": {"10": "s102"}, "attrs": [A(14, INT, "prop", "i0")]},
        {"id": 4, "kind": "plain", "base": 3, "over": {"0": "i3"}},
    ]
}

# defaults that do NOT conform: nothing may ever establish them (constructor, del, reset_<a>, reset())
FAMILY_BADDEF = {
    "classes": [
        {"id": 1, "kind": "spec", "base": None, "key": None, "attrs": [A(0, INT, "value", "i1"), A(1, STR, "value", "i5")]},
        {"id": 0, "kind": "spec", "base": None, "key": None, "attrs": [
            A(0, INT, "value", "N"),                          # declared None, not Optional
            A(1, STR, "factory", "i3"),                       # default_factory of the wrong type
            A(2, ["list", STR], "attrfactory", "L 2 s100 i0"),  # one wrong element (last)
            A(3, V.opt(INT), "value", "N"),                   # fine
            A(4, INT, "attr", "s100"),                        # Attr(default=...)
            A(5, ["float"], "field", "s100"),                 # dataclasses.field(default=...)
            A(6, ["dict", STR, INT], "fieldfactory", "D 2 s100 i1 i1 i1"),   # wrong key
            A(7, ["lit", ["s100", "s101"]], "value", "s102"),  # not one of the choices
            A(8, INT, "value", "i13", prep=6),                # the preparer turns the default into a str
            A(9, INT, "value", "i2"),                         # fine here, overridden in subclasses
            A(10, ["set", INT], "attrfactory", "S 2 i1 s100"),
            A(11, V.opt(["spec", 1]), "value", "i5"),         # (Optional: raw instances of the pools always carry it)
            A(12, VT0, "value", "i-4"),                       # fails the validator
            A(13, ["mseq", INT], "factory", "L 2 i1 s100"),   # container class ok, wrong item
            A(14, ["dict", STR, INT], "factory", "D 1 s100 s101"),           # wrong value
            A(15, STR, "value", "s100"),                      # fine
            A(16, ["union", INT, STR], "value", "f3"),
            A(17, ["bool"], "value", "i0"),                   # falsy, but an int is no bool
        ]},
        {"id": 2, "kind": "plain", "base": 0, "over": {"9": "s100", "3": "s101"}},
        {"id": 3, "kind": "spec", "base": 0, "key": None, "over": {"9": "N", "0": "i4"}, "attrs": [A(18, INT, "value", "f3")]},
        {"id": 4, "kind": "plain", "base": 3, "over": {"18": "i1", "15": "i0"}},
        {"id": 5, "kind": "plain", "base": 2, "over": {"9": "i1", "3": "N", "15": "N"}},     # plain subclass of a plain subclass
    ]
}

# validated / Literal / Union element types nested inside containers that are NOT themselves the collection the
# mutators walk item by item: containers inside Optional / Union, containers as the items / values of a collection
# attribute, two levels of nesting, validated dict keys.  Only the whole-container `check_type` guards these positions.
VT2 = ["valid", 2, STR]
LIT2 = ["lit", ["s100", "s101"]]
FAMILY_NEST = {
    "classes": [
        {"id": 1, "kind": "spec", "base": None, "key": None, "attrs": [
            A(0, V.opt(["list", VT0]), "value", "N"), A(1, ["dict", STR, ["list", VT3]]), A(2, INT, "value", "i1")]},
        {"id": 0, "kind": "spec", "base": None, "key": None, "attrs": [
            A(0, V.opt(["list", VT0]), "value", "N"),
            A(1, ["union", ["dict", STR, VT3], INT], "value", "i0"),
            A(2, V.opt(["set", VT3])),
            A(3, ["dict", STR, ["list", VT0]]),                 # a collection attribute whose VALUES are containers
            A(4, ["list", ["set", VT3]]),                       # ... whose items are sets
            A(5, ["list", ["list", VT2]], "factory", "L 1 L 2 s100 s101"),
            A(6, ["dict", STR, ["dict", STR, VT0]]),
            A(7, V.opt(["dict", VT2, VT3])),                    # validated keys and values
            A(8, ["union", ["list", VT3], ["dict", STR, VT3]]),
            A(9, V.opt(["list", V.opt(VT0)])),                  # a Union as the element type
            A(10, V.opt(["list", ["list", VT0]])),              # two levels below the Optional
            A(11, ["spec", 1]),
            A(12, ["list", VT0], "factory", "L 2 i1 i3"),       # (the plain collection attribute next to them)
            A(13, V.opt(["list", LIT2])),                       # same class, different verdicts without a validator
            A(14, ["set", VT3]),
            A(15, ["dict", STR, ["set", VT2]]),
            A(16, V.opt(["list", ["union", VT0, STR]])),
            A(17, ["list", V.opt(["list", VT3])]),
            A(18, INT, "value", "i2"),
        ]},
        {"id": 2, "kind": "plain", "base": 0, "over": {"18": "i5"}},
        {"id": 3, "kind": "spec", "base": 0, "key": None, "over": {"18": "i7"}, "attrs": [A(19, V.opt(["set", VT2]), "value", "N")]},
    ]
}

ABSTRACT = {"mseq": "list", "mset": "set", "mmap": "dict"}


def cty(ty):
    """the concrete counterpart of an annotation (MutableSequence[t] -> List[t] &c.): what the property demands of
    a value is the same for both"""
    k = ty[0]
    if k in ABSTRACT:
        return [ABSTRACT[k]] + [cty(t) for t in ty[1:]]
    if k in ("list", "set", "dict", "union"):
        return [k] + [cty(t) for t in ty[1:]]
    return ty


def is_abstract(ty):
    return ty[0] in ABSTRACT


_VIEWS = {}


def view(fam):
    """the family as the value generators see it: abstract collection generics replaced by the concrete kinds
    (the original annotation is kept under "aty")"""
    hit = _VIEWS.get(id(fam))
    if hit is not None and hit[0] is fam:
        return hit[1]
    import copy

    out = copy.deepcopy(fam)
    for cd in out["classes"]:
        for ad in cd.get("attrs", []):
            ad["aty"] = ad["ty"]
            ad["ty"] = cty(ad["ty"])
    if len(_VIEWS) > 400:
        _VIEWS.clear()
    _VIEWS[id(fam)] = (fam, out)
    return out


class _Probe:
    """what a preparer sees when a default is vetted by the harness (only `a0` is ever read)"""
    a0 = 1


def bad_default_attrs(vfam, cid):
    """names of the attributes of class `cid` whose default (as an instance of `cid` gets it) does not conform"""
    out = []
    for ad in V.effective_attrs(vfam, cid):
        if ad.get("d") is None or ad.get("dk") == "prop":
            continue
        if ad["d"].startswith("I"):
            continue
        v = decode(ad["d"])
        if ad.get("prep") is not None:
            v = V.PREPARERS[ad["prep"]](_Probe(), v)
        if v is None and ad["ty"][0] in ("list", "set", "dict") and not is_abstract(ad.get("aty", ad["ty"])):
            continue        # None is normalised into the empty collection
        if not C5.p_conforms(vfam, ad["ty"], C5.snap(v)):
            out.append(ad["name"])
    return out


def random_nested_ty(rng):
    """Optional / Union of containers, containers of containers (one or two levels), with validated / Literal / Union /
    plain leaves"""
    leaf = lambda: rng.choice([VT0, VT3, VT2, VT0, VT3, LIT2, INT, STR, V.opt(VT0), ["union", VT3, STR]])  # noqa: E731
    hleaf = lambda: rng.choice([VT0, VT3, VT2, LIT2, INT, STR])  # noqa: E731   (hashable, no None / mixed classes)

    def cont(depth):
        k = rng.choice(["list", "list", "set", "dict"])
        if k == "set":
            return ["set", hleaf()]
        inner = cont(depth - 1) if depth > 0 and rng.random() < 0.5 else leaf()
        if k == "list":
            return ["list", inner]
        return ["dict", rng.choice([STR, STR, VT2, INT]), inner]

    shape = rng.choice(["opt", "opt", "union", "coll", "coll"])
    if shape == "opt":
        return V.opt(cont(1))
    if shape == "union":
        return ["union", cont(0), rng.choice([INT, STR])]
    k = rng.choice(["list", "dict"])
    return ["list", cont(1)] if k == "list" else ["dict", STR, cont(1)]


def no_ovf(fam):
    """C05's family grammar may declare `init_overflow_attr` classes ("ovf"); the constructor's **kwargs collection is
    C05's / C09's subject and is not in this property's model: such classes are generated without it here"""
    for cd in fam["classes"]:
        cd.pop("ovf", None)
    return fam


def random_family3(rng):
    """a family from C05's grammar, widened: some list/set/dict attributes become abstract collection generics, some
    preparer-less attributes become property-backed, and (one time in three) some defaults are made non-conforming"""
    fam = no_ovf(C5.random_family(rng))
    for cd in fam["classes"]:
        keyattr = cd.get("key")
        for ad in cd.get("attrs", []):
            k = ad["ty"][0]
            if k in ("list", "set", "dict") and rng.random() < 0.35:
                ad["ty"] = [{"list": "mseq", "set": "mset", "dict": "mmap"}[k]] + ad["ty"][1:]
                ad["ip"] = None        # (an item preparer on an abstract container can only ever raise)
                if ad.get("d") == "N":
                    ad["dk"], ad["d"] = "none", None
            elif (k not in ("list", "set", "dict") and ad.get("prep") is None and ad["name"] != keyattr
                  and ad.get("d") is not None and not ad["d"].startswith("I") and rng.random() < 0.3):
                ad["dk"] = "prop"
    # subclasses must not re-default a property-backed attribute (`del` then finds the class attribute again)
    for cd in fam["classes"]:
        if cd.get("over"):
            props = {str(ad["name"]) for ad in V.effective_attrs(fam, cd["base"]) if ad.get("dk") == "prop"}
            cd["over"] = {a: d for a, d in cd["over"].items() if a not in props}
    if rng.random() < 0.5:
        # one or two attributes whose element / key / value types sit below the level the collection mutators walk
        top = [cd for cd in fam["classes"] if cd["id"] == 0][0]
        for i in range(rng.randint(1, 2)):
            t = random_nested_ty(rng)
            top["attrs"].append(A(50 + i, t, "value", "N") if t[0] == "union" and t[2] == ["none"] and rng.random() < 0.6
                                else A(50 + i, t))
    if rng.random() < 0.34:
        vf = view(fam)
        top = [cd for cd in fam["classes"] if cd["id"] == 0][0]
        cands = [ad for ad in top["attrs"] if ad.get("prep") is None and ad.get("ip") is None and ad.get("dk") != "prop"
                 and C5.spec_member(cty(ad["ty"])) is None]
        for ad in rng.sample(cands, min(len(cands), rng.randint(1, 2))):
            t = cty(ad["ty"])
            if t[0] in ("list", "set", "dict"):
                b = bad_collection(rng, vf, t, rng.choice(["key", "value"]), abstract=is_abstract(ad["ty"]))
                if b == "i1":
                    continue
                ad["dk"], ad["d"] = rng.choice(["factory", "attrfactory", "fieldfactory"]), b
            else:
                b = bad_for(rng, vf, t, scalar_only=True)
                if b is None:
                    continue
                ad["dk"], ad["d"] = rng.choice(["value", "factory", "attr", "field"]), b
        _VIEWS.pop(id(fam), None)
    return fam


# ---------------------------------------------------------------------------
# generation
# ---------------------------------------------------------------------------

BAD_POOL = ["N", "s100", "s102", "f3", "i1", "i-4", "L 0", "L 1 i1", "L 1 s100", "D 1 s100 i1", "D 1 i1 s100", "T",
            "L 1 N", "S 1 i1", "S 1 s100", "i13", "i0", "s999", "i-1"]


_PLAIN = {}


def plain(tok, fam):
    """the plain snapshot of the value the tokens denote (memoised per family object: read-only for the callers)"""
    hit = _PLAIN.get((id(fam), tok))
    if hit is not None and hit[0] is fam:
        return hit[1]
    v = C5.snap(decode(tok, V.build_family(fam) if "I" in tok else None))
    if len(_PLAIN) > 20000:
        _PLAIN.clear()
    _PLAIN[(id(fam), tok)] = (fam, v)
    return v


def bad_for(rng, fam, ty, scalar_only=False, no_iter=False, abstract=False):
    """tokens of a value that does not conform to `ty` (and cannot be normalised into it)"""
    cands = []
    abstract = abstract or is_abstract(ty)
    ty = cty(ty)
    for t in BAD_POOL:
        if scalar_only and t[0] in "LSD":
            continue
        if no_iter and (t[0] in "LSD" or t[0] == "s"):
            continue
        if t == "T" and ty[0] in ("int", "float", "union", "lit", "list", "set", "dict", "valid"):
            continue
        if t == "N" and ty[0] in ("list", "set", "dict") and not abstract:
            continue  # None is normalised into the empty collection
        if t[0] == "D" and "valid" in json.dumps(ty):
            continue  # a dict aimed at a validated type is read as constructor arguments: RuntimeError ("should not be
            #           instantiated"), nothing stored -- reported separately, kept out of the TypeError/ValueError stream
        try:
            if not C5.p_conforms(fam, ty, plain(t, fam)):
                cands.append(t)
        except Exception:
            pass
    return rng.choice(cands) if cands else None


def is_container(ty):
    return ty[0] in ("list", "set", "dict")


def has_container(ty):
    """a List / Set / Dict annotation, or an Optional / Union with such a member"""
    return is_container(ty) or (ty[0] == "union" and any(is_container(m) for m in V.union_members(ty)))


def same_class_bad(rng, fam, ty):
    """a NON-conforming scalar of a Python class that conforming values of `ty` have too (validated types, Literal
    choices, unions of them: the verdict depends on the value, not on its class); any non-conforming scalar otherwise"""
    def pool(t):
        if t[0] == "valid":
            return list(C5.VALID_BAD[t[1]])
        if t[0] == "lit":
            return [x for x in (C5.STRS if t[1][0][0] == "s" else C5.INTS) if x not in t[1]]
        if t[0] == "union":
            return [x for m in V.union_members(t) for x in pool(m)]
        return []

    cands = [c for c in pool(ty) if not C5.p_conforms(fam, ty, plain(c, fam))]
    return rng.choice(cands) if cands else bad_for(rng, fam, ty, scalar_only=True)


def good_nest(rng, fam, ty):
    """a conforming value of `ty`; containers (at every depth) are non-empty"""
    k = ty[0]
    if k == "union":
        return good_nest(rng, fam, rng.choice(V.union_members(ty)))
    if k in ("list", "set"):
        xs = []
        for _ in range(rng.randint(1, 3)):
            g = C5.nobool(good_nest(rng, fam, ty[1]))
            if k == "list" or g not in xs:
                xs.append(g)
        return " ".join(["S" if k == "set" else "L", str(len(xs))] + xs)
    if k == "dict":
        d = {}
        for _ in range(rng.randint(1, 2)):
            d[C5.nobool(good_nest(rng, fam, ty[1]))] = C5.nobool(good_nest(rng, fam, ty[2]))
        return " ".join(["D", str(len(d))] + [f"{a} {b}" for a, b in d.items()])
    return C5.gen_value(rng, fam, ty, 0)


PLACES = ("first", "last", "mid")


def place_index(rng, place, n):
    return 0 if place == "first" else n if place == "last" else rng.randint(0, n)


def n_siblings(rng, place):
    """1..3 conforming neighbours; for `mid` now and then many (a check that samples / truncates long containers)"""
    return rng.choice([7, 12, 33]) if place == "mid" and rng.random() < 0.3 else rng.randint(1, 3)


def equal_twin(tok):
    """the float that compares (and hashes) equal to an int token: `i2` -> `f4` (= 2.0); None for other tokens"""
    return "f" + str(2 * int(tok[1:])) if tok[:1] == "i" and tok[1:].lstrip("-").isdigit() else None


def nest_bad(rng, fam, ty, place="mid"):
    """
    tokens of a value shaped like `ty` in which exactly ONE leaf (an element, a key or a value, at any depth) does not
    conform -- preferably a value of the same Python class as its conforming neighbours; on every level of the path the
    offending child sits first / last / anywhere among 1..3 conforming siblings.  None when there is no such value.
    """
    ty = cty(ty)
    k = ty[0]
    if k == "union":
        ms = [m for m in V.union_members(ty) if is_container(m)]
        v = nest_bad(rng, fam, rng.choice(ms), place) if ms else same_class_bad(rng, fam, ty)
        if v is None or C5.p_conforms(fam, ty, plain(v, fam)):
            return None
        return v
    if k in ("list", "set"):
        be = nest_bad(rng, fam, ty[1], place)
        if be is None:
            return None
        sib = []
        for _ in range(n_siblings(rng, place)):
            g = C5.nobool(good_nest(rng, fam, ty[1]))
            if g != be and (k == "list" or g not in sib):
                sib.append(g)
        if k == "list" and sib and rng.random() < 0.15 and equal_twin(sib[0]) is not None \
                and not C5.p_conforms(fam, ty[1], plain(equal_twin(sib[0]), fam)):
            be = equal_twin(sib[0])      # `2.0` next to `2`: equal and of equal hash, but no int
        pos = place_index(rng, place, len(sib))
        xs = sib[:pos] + [be] + sib[pos:]
        return " ".join(["S" if k == "set" else "L", str(len(xs))] + xs)
    if k == "dict":
        pairs = {}
        for _ in range(n_siblings(rng, place)):
            pairs[C5.nobool(good_nest(rng, fam, ty[1]))] = C5.nobool(good_nest(rng, fam, ty[2]))
        bk = same_class_bad(rng, fam, ty[1])
        bv = nest_bad(rng, fam, ty[2], place)
        if bk is not None and bk not in pairs and (bv is None or rng.random() < 0.35):
            bad = (bk, C5.nobool(good_nest(rng, fam, ty[2])))
        elif bv is not None:
            gk = None
            for _ in range(12):
                gk = C5.nobool(good_nest(rng, fam, ty[1]))
                if gk not in pairs:
                    break
            if gk in pairs:
                del pairs[gk]
            bad = (gk, bv)
        else:
            return None
        items = list(pairs.items())
        pos = place_index(rng, place, len(items))
        items = items[:pos] + [bad] + items[pos:]
        return " ".join(["D", str(len(items))] + [f"{a} {b}" for a, b in items])
    return same_class_bad(rng, fam, ty)


def bad_collection(rng, fam, ty, where=None, abstract=False):
    """a pre-built list / set / dict of 1..3 entries with ONE non-conforming element (key / value) at a random position
    (`abstract`: the annotation is a container class check_type does not look inside -- the value must be an instance
    of that class, so a real set for set attributes)"""
    abstract = abstract or is_abstract(ty)
    ty = cty(ty)
    n = rng.randint(1, 3)
    pos = rng.randrange(n)
    if ty[0] in ("list", "set"):
        be = bad_for(rng, fam, ty[1], scalar_only=True)
        if has_container(ty[1]) and rng.random() < 0.7:
            be = nest_bad(rng, fam, ty[1], rng.choice(PLACES)) or be   # the wrong leaf one level further down
        elif be is not None and rng.random() < 0.5:
            be = same_class_bad(rng, fam, ty[1])
        if be is None:
            return "i1"
        xs = []
        tries = 0
        while len(xs) < n - 1 and tries < 20:
            tries += 1
            g = C5.nobool(C5.gen_value(rng, fam, ty[1], 0))
            if g not in xs:
                xs.append(g)
        xs.insert(min(pos, len(xs)), be)
        if abstract and ty[0] == "set":
            return " ".join(["S", str(len(xs))] + xs)
        return " ".join(["L", str(len(xs))] + xs)   # (a list also for set attributes: element order is kept)
    keys = []
    while len(keys) < n:
        g = C5.nobool(C5.gen_value(rng, fam, ty[1], 0))
        if g not in keys:
            keys.append(g)
        elif len(keys) >= 2:
            break
    n = len(keys)
    pos = rng.randrange(n)
    vals = [C5.gen_value(rng, fam, ty[2], 0) for _ in range(n)]
    bk = bad_for(rng, fam, ty[1], scalar_only=True)
    bv = bad_for(rng, fam, ty[2], scalar_only=True)
    if has_container(ty[2]) and rng.random() < 0.7:
        bv = nest_bad(rng, fam, ty[2], rng.choice(PLACES)) or bv
    elif bv is not None and rng.random() < 0.5:
        bv = same_class_bad(rng, fam, ty[2])
    if where == "key" and bk is not None:
        keys[pos] = bk
    elif bv is not None:
        vals[pos] = bv
    else:
        return "i1"
    return " ".join(["D", str(n)] + [f"{k} {v}" for k, v in zip(keys, vals)])


def container_member(ty):
    """a List/Set/Dict member of an Optional / Union annotation (None if there is none)"""
    if ty[0] != "union":
        return None
    ms = [m for m in V.union_members(ty) if m[0] in ("list", "set", "dict")]
    return ms[0] if ms else None


def bad_in_union(rng, fam, ty):
    """for Optional[List[..]] &c.: a pre-built container of the member type with one wrong element / key / value"""
    m = container_member(ty)
    v = bad_collection(rng, fam, m, rng.choice(["key", "value"]))
    if m[0] == "set":
        v = "S" + v[1:]          # a real set (the attribute is no collection attribute: nothing is normalised)
    return v if v != "i1" and not C5.p_conforms(fam, ty, plain(v, fam)) else None


def coll_attrs(fam, cid):
    return [ad for ad in V.effective_attrs(fam, cid) if cty(ad["ty"])[0] in ("list", "set", "dict")]


def item_tr(rng, fam, ty):
    t = C5.gen_tr(rng, fam, {"ty": ty})
    return {"cst T": "cst i1", "cst F": "cst i0"}.get(t, t)   # no bools inside collections (True == 1)


def gen_elem_op(rng, fam, cid, state_hint=None):
    """a valid-looking element helper call on a collection attribute of class `cid`"""
    cands = coll_attrs(fam, cid)
    if not cands:
        return None
    ad = rng.choice(cands)
    ty = cty(ad["ty"])
    a = ad["name"]
    fl = C5.gen_flags(rng)
    item = lambda t: C5.nobool(C5.gen_value(rng, fam, t, 0))  # noqa: E731
    if ty[0] == "list":
        k = rng.choice(["ewith", "ewith", "eupd", "etra", "edel"])
        idx = rng.choice(["i0", "i0", "i1", "i-1", "i2", "i5", "i-3"])
        if k == "ewith":
            form = rng.choice(["append", "append", "index", "insert"])
            return {"k": k, "fl": fl, "a": a, "item": rng.choice([item(ty[1])] * 6 + ["M"]),
                    "index": "M" if form == "append" else idx, "ins": 1 if form == "insert" else 0}
        voi = rng.choice([idx, idx, item(ty[1])])
        by = rng.choice(["a", "a", "y", "n"])
        if k == "eupd":
            return {"k": k, "fl": fl, "a": a, "voi": voi, "new": rng.choice([item(ty[1])] * 5 + ["M"]), "by": by}
        if k == "etra":
            return {"k": k, "fl": fl, "a": a, "voi": voi, "f": item_tr(rng, fam, ty[1]), "by": by}
        return {"k": k, "fl": fl, "a": a, "voi": voi, "by": by}
    if ty[0] == "dict":
        k = rng.choice(["mwith", "mwith", "mupd", "mtra", "mdel"])
        key = rng.choice([item(ty[1])] * 3 + (["s100", "s101"] if ty[1] == STR else ["i1", "i2"]))
        if k == "mwith":
            return {"k": k, "fl": fl, "a": a, "key": key, "v": item(ty[2])}
        if k == "mupd":
            return {"k": k, "fl": fl, "a": a, "key": key, "new": rng.choice([item(ty[2])] * 5 + ["M"])}
        if k == "mtra":
            return {"k": k, "fl": fl, "a": a, "key": key, "f": item_tr(rng, fam, ty[2])}
        return {"k": k, "fl": fl, "a": a, "key": key}
    k = rng.choice(["swith", "swith", "supd", "stra", "sdel"])
    it = rng.choice([item(ty[1])] * 3 + (["i1", "i2"] if ty[1] == INT else ["s100", "s101"]))
    if k == "swith":
        return {"k": k, "fl": fl, "a": a, "item": it}
    if k == "supd":
        return {"k": k, "fl": fl, "a": a, "item": it, "new": item(ty[1])}
    if k == "stra":
        return {"k": k, "fl": fl, "a": a, "item": it, "f": item_tr(rng, fam, ty[1])}
    return {"k": k, "fl": fl, "a": a, "item": it}


def plain_attrs(fam, cid):
    """attributes whose assignment route has no preparer in the way"""
    return [ad for ad in V.effective_attrs(fam, cid) if ad.get("prep") is None and ad.get("ip") is None and not ad.get("ovf")]


def gen_bad_op(rng, fam, cid):
    """one call aiming ONE non-conforming value at one position; `bad` names the position.
    The addressing part of the call is valid, so the only acceptable outcome is TypeError / ValueError."""
    eff = plain_attrs(fam, cid)
    fl = rng.choice(["-", "i", "a", "ia"])
    route = rng.choice(["with", "set", "upd", "tra", "UPD", "TRA", "kw", "dictcast", "elem", "elem", "elem", "key",
                        "dictval", "elemtr", "nestedkw-upd", "UPDnested"])
    nested = [ad for ad in eff if ad["ty"][0] == "spec"]
    colls = [ad for ad in eff if ad["ty"][0] in ("list", "set", "dict")]
    if route in ("with", "set", "upd", "UPD") and eff:
        ad = rng.choice(eff)
        ty = ad["ty"]
        ab = is_abstract(ad.get("aty", ty))
        if ty[0] in ("list", "set"):
            # a collection with one wrong element, or something that is no collection at all
            v = rng.choice([bad_collection(rng, fam, ty, abstract=ab), bad_collection(rng, fam, ty, abstract=ab), "i1", "f3"])
            pos = "element"
        elif ty[0] == "dict":
            bk = bad_for(rng, fam, ty[1], scalar_only=True)
            bv = bad_for(rng, fam, ty[2], scalar_only=True)
            gk = C5.nobool(C5.gen_value(rng, fam, ty[1], 0))
            gv = C5.gen_value(rng, fam, ty[2], 0)
            v, pos = rng.choice([(bad_collection(rng, fam, ty, "key", abstract=ab), "key"),
                                 (bad_collection(rng, fam, ty, "value", abstract=ab), "dictvalue"),
                                 ("i1", "value"), ("L 0", "value")])
        elif C5.spec_member(ty) is not None:
            v, pos = bad_for(rng, fam, ty, scalar_only=True), "value"
        elif container_member(ty) is not None and rng.random() < 0.7:
            v, pos = bad_in_union(rng, fam, ty), "element-inside-union"
        else:
            v, pos = bad_for(rng, fam, ty), "value"
            if v is not None and v.startswith("D"):
                v = bad_for(rng, fam, ty, scalar_only=True)
        if v is None:
            return None
        if route == "with":
            return {"k": "with", "fl": fl, "a": ad["name"], "v": v, "kw": [], "bad": pos}
        if route == "set":
            return {"k": "set", "a": ad["name"], "v": v, "bad": pos}
        if route == "upd":
            return {"k": "upd", "fl": fl, "a": ad["name"], "v": v, "kw": [], "bad": pos}
        good = [[x["name"], C5.gen_value(rng, fam, x["ty"], 1)] for x in rng.sample(eff, min(len(eff), 2)) if x is not ad]
        kw = good + [[ad["name"], v]]
        rng.shuffle(kw)
        return {"k": "UPD", "fl": fl, "v": "M", "kw": kw, "bad": "toplevel-" + pos}
    if route in ("tra", "TRA") and eff:
        # (a transform of an attribute that holds nothing starts from `type()`; a validated type refuses to be instantiated
        # with RuntimeError -- "Observation" in docs/C03.md -- so such attributes need a default to fall back on)
        cands = [x for x in eff if not (x["ty"][0] == "valid" and x.get("d") is None)]
        if not cands:
            return None
        ad = rng.choice(cands)
        v = bad_for(rng, fam, ad["ty"], scalar_only=True, no_iter=ad["ty"][0] in ("list", "set", "dict"))
        if ad["ty"][0] in ("list", "set", "dict") and rng.random() < 0.6:
            # the transform answers a container of the right class holding ONE wrong item / key / value
            v = bad_collection(rng, fam, ad["ty"], rng.choice(["key", "value"]), abstract=is_abstract(ad.get("aty", ad["ty"])))
            v = None if v == "i1" else v
        elif container_member(ad["ty"]) is not None and C5.spec_member(ad["ty"]) is None and rng.random() < 0.6:
            v = nest_bad(rng, fam, ad["ty"], rng.choice(PLACES))
        if v is None:
            return None
        if route == "tra":
            return {"k": "tra", "fl": fl, "a": ad["name"], "f": "cst " + v, "kt": [], "bad": "transform-result"}
        return {"k": "TRA", "fl": fl, "f": None, "kt": [[ad["name"], "cst " + v]], "bad": "toplevel-transform-result"}
    if route in ("kw", "dictcast", "nestedkw-upd", "UPDnested") and nested:
        ad = rng.choice(nested)
        ceff = plain_attrs(fam, ad["ty"][1])
        ceff = [x for x in ceff if x["ty"][0] not in ("spec",)]
        if not ceff:
            return None
        x = rng.choice(ceff)
        v = bad_for(rng, fam, x["ty"], scalar_only=True, no_iter=x["ty"][0] in ("list", "set", "dict"))
        key = V.effective_key(fam, ad["ty"][1])
        if v is None:
            return None
        extra = []
        if key is not None and key != x["name"]:
            kad = C5.attr_desc(fam, ad["ty"][1], key)
            extra = [[key, C5.gen_value(rng, fam, kad["ty"], 0)]]
        if route == "kw":
            return {"k": "with", "fl": fl, "a": ad["name"], "v": "M", "kw": extra + [[x["name"], v]], "bad": "nested-attribute"}
        if route == "nestedkw-upd":
            return {"k": "upd", "fl": fl, "a": ad["name"], "v": "M", "kw": extra + [[x["name"], v]], "bad": "nested-attribute"}
        d = " ".join(["D", str(len(extra) + 1)] + [f"s{k} {vv}" for k, vv in extra] + [f"s{x['name']} {v}"])
        if route == "dictcast":
            return {"k": rng.choice(["with", "set"]), "fl": fl, "a": ad["name"], "v": d, "kw": [], "bad": "dict-cast-nested-attribute"}
        return {"k": "UPD", "fl": fl, "v": "M", "kw": [[ad["name"], d]], "bad": "toplevel-dict-cast-nested-attribute"}
    if route in ("elem", "key", "dictval", "elemtr") and colls:
        ad = rng.choice(colls)
        ty = ad["ty"]
        a = ad["name"]
        if ty[0] == "list":
            be = bad_for(rng, fam, ty[1])
            if has_container(ty[1]) and rng.random() < 0.7:
                be = nest_bad(rng, fam, ty[1], rng.choice(PLACES)) or be
            if be is None:
                return None
            if route == "elemtr":
                return None
            form = rng.choice(["append", "insert"])
            return {"k": "ewith", "fl": fl, "a": a, "item": be, "index": "M" if form == "append" else "i0",
                    "ins": 0 if form == "append" else 1, "bad": "element"}
        if ty[0] == "set":
            be = bad_for(rng, fam, ty[1], scalar_only=True)
            if be is None:
                return None
            return {"k": "swith", "fl": fl, "a": a, "item": be, "bad": "element"}
        bk = bad_for(rng, fam, ty[1], scalar_only=True)
        bv = bad_for(rng, fam, ty[2], scalar_only=True)
        if has_container(ty[2]) and rng.random() < 0.7:
            bv = nest_bad(rng, fam, ty[2], rng.choice(PLACES)) or bv
        gk = C5.nobool(C5.gen_value(rng, fam, ty[1], 0))
        gv = C5.gen_value(rng, fam, ty[2], 0)
        if route == "key" or (route == "elem" and rng.random() < 0.5):
            if bk is None:
                return None
            return {"k": "mwith", "fl": fl, "a": a, "key": bk, "v": gv, "bad": "key"}
        if bv is None:
            return None
        return {"k": "mwith", "fl": fl, "a": a, "key": gk, "v": bv, "bad": "dictvalue"}
    return None


def good_value(rng, fam, ad):
    """a conforming value for attribute `ad` that its preparer (if any) leaves conforming"""
    for _ in range(20):
        v = C5.gen_value(rng, fam, ad["ty"], 0)
        if ad.get("prep") is None:
            return v
        try:
            if C5.p_conforms(fam, ad["ty"], C5.snap(V.PREPARERS[ad["prep"]](_Probe(), decode(v)))):
                return v
        except Exception:
            pass
    return C5.gen_value(rng, fam, ad["ty"], 0)


class _Unhashable(Exception):
    pass


def buildable(tok):
    """False when the value tokens put a list / set / dict inside a set or at a dict key: the harness itself could not
    build such an argument (TypeError: unhashable) -- nothing the library would ever see"""
    ts = V.toks(tok)
    if ts and ts[0] in ("cst", "app"):
        ts = ts[1:]

    def walk(i, hashed):
        t = ts[i]
        if t in ("L", "S", "D"):
            if hashed:
                raise _Unhashable()
            n = int(ts[i + 1])
            i += 2
            for _ in range(n):
                if t == "D":
                    i = walk(i, True)
                    i = walk(i, False)
                else:
                    i = walk(i, t == "S")
            return i
        if t == "I":
            n = int(ts[i + 2])
            i += 3
            for _ in range(n):
                i = walk(i + 1, False)
            return i
        return i + 1

    try:
        if ts:
            walk(0, False)
    except _Unhashable:
        return False
    except (IndexError, ValueError):
        return True
    return True


def strings_in(x):
    if isinstance(x, str):
        yield x
    elif isinstance(x, (list, tuple)):
        for y in x:
            yield from strings_in(y)
    elif isinstance(x, dict):
        for y in x.values():
            yield from strings_in(y)


def gen_case(rng, fam0, fname, nops, malformed):
    fam = view(fam0)          # (generation sees the concrete counterparts of the abstract collection generics)
    return gen_case_on(rng, fam0, fam, fname, rng.choice(C5.top_classes(fam)), nops, malformed)


def gen_case_on(rng, fam0, fam, fname, cid, nops, malformed):
    eff = V.effective_attrs(fam, cid)
    init = []
    for ad in rng.sample(eff, rng.randint(0, min(4, len(eff)))):
        init.append([ad["name"], C5.gen_arg(rng, fam, ad, sentinel_p=0.0, bad_p=0.0)])
    init = [x for x in init if buildable(x[1])]
    # attributes whose default does not conform must be given explicitly (else the constructor raises, rightly)
    for a in bad_default_attrs(fam, cid):
        if all(x[0] != a for x in init) and rng.random() < 0.93:
            init.append([a, good_value(rng, fam, C5.attr_desc(fam, cid, a))])
    ops = []
    for _ in range(nops):
        r = rng.random()
        op = None
        if malformed and r < 0.4:
            op = gen_bad_op(rng, fam, cid)
        if op is None and r < 0.75:
            op = gen_elem_op(rng, fam, cid)
        if op is None:
            op = C5.gen_op(rng, fam, cid)
        if all(buildable(t) for t in strings_in(op)):
            ops.append(op)
    case = {"family": fam0, "fname": fname, "cls": cid, "init": init, "ops": ops, "stream": "malformed" if malformed else "valid"}
    if malformed and rng.random() < 0.25:
        # a non-conforming constructor keyword
        pl = plain_attrs(fam, cid)
        if pl:
            ad = rng.choice(pl)
            v = bad_for(rng, fam, ad["ty"], scalar_only=True, no_iter=ad["ty"][0] in ("list", "set", "dict"))
            if ad["ty"][0] in ("list", "set", "dict") and rng.random() < 0.6:
                v = bad_collection(rng, fam, ad["ty"], rng.choice(["key", "value"]), abstract=is_abstract(ad.get("aty", ad["ty"])))
                v = None if v == "i1" else v
            elif container_member(ad["ty"]) is not None and C5.spec_member(ad["ty"]) is None and rng.random() < 0.6:
                v = nest_bad(rng, fam, ad["ty"], rng.choice(PLACES))
            if v is not None:
                case["init"] = [x for x in init if x[0] != ad["name"]] + [[ad["name"], v]]
                case["init_bad"] = True
    return case


WHOLE_ROUTES = ("ctor", "with", "set", "upd", "tra", "UPD", "TRA")

VALID_ROUTES = ("ctor", "with", "set", "upd", "tra", "UPD", "TRA", "ewith", "eupd", "etra", "mwith", "mupd", "mtra")


def valid_family(tag, pid, base):
    """a family of its own per tag (own validated type object, fresh verdict history in this process)"""
    vt = ["valid", pid, base]
    return {"tag": tag, "classes": [
        {"id": 1, "kind": "spec", "base": None, "key": None, "attrs": [A(0, vt), A(1, ["list", vt])]},
        {"id": 0, "kind": "spec", "base": None, "key": None, "attrs": [
            A(0, vt), A(1, ["list", vt]), A(2, ["dict", STR, vt]), A(3, V.opt(vt), "value", "N"), A(4, vt), A(5, ["spec", 1])]},
        {"id": 2, "kind": "spec", "base": 0, "key": None, "attrs": [A(6, vt)]},
    ]}


def valid_op(route, a_scalar, good, bad, is_bad, fl):
    """one call sending a same-class value with the given verdict through `route`"""
    v = bad if is_bad else good
    tag = {"bad": "validated-" + route} if is_bad else {}
    if route == "with" or route == "upd":
        return dict({"k": route, "fl": fl, "a": a_scalar, "v": v, "kw": []}, **tag)
    if route == "set":
        return dict({"k": "set", "a": a_scalar, "v": v}, **tag)
    if route == "tra":
        return dict({"k": "tra", "fl": fl, "a": a_scalar, "f": "cst " + v, "kt": []}, **tag)
    if route == "UPD":
        return dict({"k": "UPD", "fl": fl, "v": "M", "kw": [[a_scalar, v]]}, **tag)
    if route == "TRA":
        return dict({"k": "TRA", "fl": fl, "f": None, "kt": [[a_scalar, "cst " + v]]}, **tag)
    if route == "ewith":
        return dict({"k": "ewith", "fl": fl, "a": 1, "item": v, "index": "M", "ins": 0}, **tag)
    if route == "eupd":
        return dict({"k": "eupd", "fl": fl, "a": 1, "voi": "i0", "new": v, "by": "y"}, **tag)
    if route == "etra":
        return dict({"k": "etra", "fl": fl, "a": 1, "voi": "i0", "f": "cst " + v, "by": "y"}, **tag)
    if route == "mwith":
        return dict({"k": "mwith", "fl": fl, "a": 2, "key": "s100", "v": v}, **tag)
    if route == "mupd":
        return dict({"k": "mupd", "fl": fl, "a": 2, "key": "s100", "new": v}, **tag)
    if route == "mtra":
        return dict({"k": "mtra", "fl": fl, "a": 2, "key": "s100", "f": "cst " + v}, **tag)
    raise ValueError(route)


def valid_order_cases(rng):
    """
    Value-dependent annotations: values of ONE Python class with different verdicts, through every route, in both
    orders, in one process. For every first route a family of its own (fresh validated type object) is used, the
    very first check of that type is through that route, then every route follows with the opposite and the same
    verdict; further cases revisit the same family from other classes / instances / attributes.
    """
    specs = [(0, INT, C5.VALID_GOOD[0], C5.VALID_BAD[0]), (3, INT, C5.VALID_GOOD[3], C5.VALID_BAD[3]),
             (2, STR, C5.VALID_GOOD[2], C5.VALID_BAD[2])]
    needs_scalar = ("tra", "TRA")
    needs_elem = ("eupd", "etra")
    needs_key = ("mupd", "mtra")
    for pid, base, goods, bads in specs:
        for first_bad in (False, True):
            for first in VALID_ROUTES:
                if first_bad and first in needs_scalar + needs_elem + needs_key:
                    continue   # these routes need a stored (hence already checked) value to start from
                fam = valid_family(f"{pid}-{first}-{int(first_bad)}", pid, base)
                good, bad = rng.choice(goods), rng.choice(bads)
                have = {"s0": False, "s4": False, "elem": False, "key": False}
                ops = []

                def emit(route, a, is_bad):
                    # preconditions of the addressing part (seeded with conforming values)
                    if route in needs_scalar and not have[f"s{a}"]:
                        ops.append({"k": "set", "a": a, "v": rng.choice(goods)})
                        have[f"s{a}"] = True
                    if route in needs_elem and not have["elem"]:
                        ops.append({"k": "ewith", "fl": "i", "a": 1, "item": rng.choice(goods), "index": "M", "ins": 0})
                        have["elem"] = True
                    if route in needs_key and not have["key"]:
                        ops.append({"k": "mwith", "fl": "i", "a": 2, "key": "s100", "v": rng.choice(goods)})
                        have["key"] = True
                    ops.append(valid_op(route, a, rng.choice(goods), rng.choice(bads), is_bad, rng.choice(["i", "a"])))
                    if not is_bad:
                        if route in ("with", "set", "upd", "UPD", "tra", "TRA"):
                            have[f"s{a}"] = True
                        if route == "ewith":
                            have["elem"] = True
                        if route == "mwith":
                            have["key"] = True

                if first == "ctor":
                    case0 = {"family": fam, "fname": "valid", "cls": 0, "init": [[0, bad if first_bad else good]], "ops": [],
                             "stream": "directed", "origin": "directed-validated"}
                    if first_bad:
                        case0["init_bad"] = True
                    yield case0
                else:
                    emit(first, 0, first_bad)
                # now every route: opposite verdict first, then the same verdict, then alternating
                for verdict_bad in (not first_bad, first_bad, True, False):
                    for route in VALID_ROUTES[1:]:
                        emit(route, rng.choice([0, 4]), verdict_bad)
                yield {"family": fam, "fname": "valid", "cls": rng.choice([0, 2]), "init": [], "ops": ops,
                       "stream": "directed", "origin": "directed-validated"}
                # the same type object seen from a nested class and through the constructor again
                yield {"family": fam, "fname": "valid", "cls": 2, "init": [[6, rng.choice(bads)]], "ops": [], "init_bad": True,
                       "stream": "directed", "origin": "directed-validated"}
                yield {"family": fam, "fname": "valid", "cls": 2, "init": [[6, rng.choice(goods)], [0, rng.choice(goods)]],
                       "ops": [valid_op("with", 6, rng.choice(goods), rng.choice(bads), True, "-"),
                               {"k": "with", "fl": "i", "a": 5, "v": "M", "kw": [[0, rng.choice(bads)]], "bad": "validated-nested"},
                               {"k": "with", "fl": "i", "a": 5, "v": "M", "kw": [[0, rng.choice(goods)]]}],
                       "stream": "directed", "origin": "directed-validated"}


def directed_bad_cases(rng, fam, fname):
    """
    every class of the family (base, re-defaulting spec subclass with a differing do_not_copy, sub-subclass,
    plain subclasses) x every attribute without a preparer x every whole-attribute route: one non-conforming
    value (for collections: a pre-built collection with one wrong element / key / value, or a non-collection)
    """
    fam0, fam = fam, view(b_flat(fam) if is_boot(fam) else fam)
    for cid in (boot_receivers(fam0) if is_boot(fam0) else C5.top_classes(fam)):
        ops = []
        base_init = [[a, good_value(rng, fam, C5.attr_desc(fam, cid, a))] for a in bad_default_attrs(fam, cid)]
        keyattr = V.effective_key(fam, cid) if is_boot(fam0) else None
        if keyattr is not None and all(x[0] != keyattr for x in base_init) and C5.attr_desc(fam, cid, keyattr).get("d") is None:
            base_init.append([keyattr, good_value(rng, fam, C5.attr_desc(fam, cid, keyattr))])
        orders = boot_orders(rng, fam0, cid) if is_boot(fam0) else None
        for ad in plain_attrs(fam, cid):
            ty = ad["ty"]
            ab = is_abstract(ad.get("aty", ty))
            for route in WHOLE_ROUTES:
                if route in ("tra", "TRA") and ty[0] == "valid" and ad.get("d") is None:
                    continue    # (nothing held, no default: the transform would start from `type()` -- RuntimeError, see "Observation")
                if ty[0] in ("list", "set", "dict"):
                    v = rng.choice([bad_collection(rng, fam, ty, rng.choice(["key", "value"]), abstract=ab)] * (3 if ab else 1) + ["i1"])
                    if route in ("tra", "TRA") and v == "i1":
                        v = "f3"
                elif container_member(ty) is not None and rng.random() < 0.7:
                    v = bad_in_union(rng, fam, ty)
                else:
                    v = bad_for(rng, fam, ty, scalar_only=True)
                if v is None:
                    continue
                a = ad["name"]
                fl = rng.choice(["-", "i", "a", "ia"])
                tag = "subclass-" + ("element" if ty[0] in ("list", "set", "dict") else "value")
                if route == "ctor":
                    case = {"family": fam0, "fname": fname, "cls": cid, "init": [x for x in base_init if x[0] != a] + [[a, v]],
                            "ops": [], "init_bad": True, "stream": "directed", "origin": "directed-bad"}
                    if orders:
                        case["pre"] = [boot_use(rng, fam, c) for c in rng.choice(orders)]
                    yield case
                    continue
                if route in ("with", "upd"):
                    ops.append({"k": route, "fl": fl, "a": a, "v": v, "kw": [], "bad": tag})
                elif route == "set":
                    ops.append({"k": "set", "a": a, "v": v, "bad": tag})
                elif route == "tra":
                    ops.append({"k": "tra", "fl": fl, "a": a, "f": "cst " + v, "kt": [], "bad": tag})
                elif route == "UPD":
                    ops.append({"k": "UPD", "fl": fl, "v": "M", "kw": [[a, v]], "bad": tag})
                else:
                    ops.append({"k": "TRA", "fl": fl, "f": None, "kt": [[a, "cst " + v]], "bad": tag})
        rng.shuffle(ops)
        if is_boot(fam0):
            ops = boot_filter_ops(fam, cid, ops)
        for n, i in enumerate(range(0, len(ops), 12)):
            case = {"family": fam0, "fname": fname, "cls": cid, "init": base_init, "ops": ops[i:i + 12], "stream": "directed",
                    "origin": "directed-bad"}
            if orders:
                case["pre"] = [boot_use(rng, fam, c) for c in orders[n % len(orders)]]
            yield case


def directed_baddef_cases(rng, fam0, fname):
    """
    Defaults that do not conform (declared, default_factory, Attr / dataclasses.field, preparer output, overridden in a
    plain or spec subclass, one wrong element of a default collection). For every class of the family:
    (1) the constructor without an explicit value for ONE of them must raise;
    (2) instances built with explicit conforming values: `del obj.a`, `reset_<a>` (copying, in place) for every such
        attribute and `reset()` must raise TypeError / ValueError and store nothing -- on the fresh instance, after valid
        writes, and on second-generation copies.
    """
    fam = view(fam0)
    for cid in C5.top_classes(fam):
        bad = bad_default_attrs(fam, cid)
        if not bad:
            continue
        good = lambda a: good_value(rng, fam, C5.attr_desc(fam, cid, a))  # noqa: E731
        for a in bad:
            yield {"family": fam0, "fname": fname, "cls": cid, "init": [[b, good(b)] for b in bad if b != a], "ops": [],
                   "init_bad": True, "stream": "directed", "origin": "directed-bad-default"}
        ops = []
        for a in bad:
            for k, fl in (("del", "-"), ("rst", "-"), ("rst", "i"), ("rst", rng.choice(["a", "ia"]))):
                op = {"k": k, "a": a, "bad": "default"}
                if k == "rst":
                    op["fl"] = fl
                ops.append(op)
        for fl in ("-", "i", "a"):
            ops.append({"k": "RST", "fl": fl, "bad": "default"})
        rng.shuffle(ops)
        eff = [ad for ad in V.effective_attrs(fam, cid) if ad["ty"][0] != "spec"]
        out = []
        for op in ops:
            out.append(op)
            if rng.random() < 0.5:      # valid writes in between (half of them adopted: second-generation receivers)
                ad = rng.choice(eff)
                v = good_value(rng, fam, ad)
                out.append(rng.choice([
                    {"k": "with", "fl": rng.choice(["a", "i", "ia"]), "a": ad["name"], "v": v, "kw": []},
                    {"k": "set", "a": ad["name"], "v": v},
                    {"k": "UPD", "fl": rng.choice(["a", "i"]), "v": "M", "kw": [[ad["name"], v]]}]))
        for i in range(0, len(out), 14):
            yield {"family": fam0, "fname": fname, "cls": cid, "init": [[b, good(b)] for b in bad], "ops": out[i:i + 14],
                   "stream": "directed", "origin": "directed-bad-default"}


def whole_op(route, a, v, fl, tag=None):
    """value `v` sent to attribute `a` through one whole-attribute route (not the constructor)"""
    t = {"bad": tag} if tag else {}
    if route in ("with", "upd"):
        return dict({"k": route, "fl": fl, "a": a, "v": v, "kw": []}, **t)
    if route == "set":
        return dict({"k": "set", "a": a, "v": v}, **t)
    if route == "tra":
        return dict({"k": "tra", "fl": fl, "a": a, "f": "cst " + v, "kt": []}, **t)
    if route == "UPD":
        return dict({"k": "UPD", "fl": fl, "v": "M", "kw": [[a, v]]}, **t)
    if route == "TRA":
        return dict({"k": "TRA", "fl": fl, "f": None, "kt": [[a, "cst " + v]]}, **t)
    raise ValueError(route)


def grows_by(rng, fam, cont_ty, place):
    """`app <x>`: the transform that adds ONE non-conforming element to the list / set it is given (None: n/a)"""
    if cont_ty[0] not in ("list", "set"):
        return None
    x = nest_bad(rng, fam, cont_ty[1], place)
    if x is None or (cont_ty[0] == "set" and x[0] in "LSD"):
        return None
    return "app " + x


def directed_nested_cases(rng, fam0, fname, reps=1):
    """
    Element / key / value types below the level the collection mutators walk: containers inside Optional / Union,
    containers as items / values of a collection attribute, two levels of nesting.  For every class of the family x
    every attribute without a preparer x every route -- constructor, with_, assignment, update_, transform_ (constant
    result, and growing the stored container by one element), update, transform, and for collection attributes the
    element helpers with_/update_/transform_<item> (new item, replaced item, transformed item: constant and grown) --
    x the position of the ONE non-conforming leaf among its conforming neighbours of the same class (first / last /
    anywhere, on every level): the call must raise TypeError / ValueError and store nothing.  Conforming values of the
    same shape go through the same routes right before and after (same class objects, same process).
    """
    fam = view(fam0)
    flags = lambda: rng.choice(["-", "i", "a", "ia"])  # noqa: E731
    for cid in C5.top_classes(fam):
        base_init = [[a, good_value(rng, fam, C5.attr_desc(fam, cid, a))] for a in bad_default_attrs(fam, cid)]
        groups = []
        for ad in plain_attrs(fam, cid):
            ty, a = ad["ty"], ad["name"]
            if not has_container(ty) or C5.spec_member(ty) is not None:
                continue
            deep = any(has_container(t) for t in ty[1:]) if is_container(ty) else True
            if not deep and not any(t[0] in ("valid", "lit", "union") for t in ty[1:]):
                continue
            for _ in range(reps):
                for place in PLACES:
                    # -- whole-attribute routes
                    for route in WHOLE_ROUTES:
                        v = nest_bad(rng, fam, ty, place)
                        if v is None:
                            continue
                        if route == "ctor":
                            yield {"family": fam0, "fname": fname, "cls": cid, "init": [x for x in base_init if x[0] != a] + [[a, v]],
                                   "ops": [], "init_bad": True, "stream": "directed", "origin": "directed-nested"}
                            continue
                        g = []
                        if rng.random() < 0.6:
                            g.append(whole_op(rng.choice(WHOLE_ROUTES[1:]), a, good_nest(rng, fam, ty), rng.choice(["i", "a", "-"])))
                        g.append(whole_op(route, a, v, flags(), f"nested-{place}"))
                        groups.append(g)
                    # -- transform_<a> growing the stored container by one non-conforming element
                    conts = [ty] if is_container(ty) else [m for m in V.union_members(ty) if m[0] in ("list", "set")]
                    for m in conts:
                        f = grows_by(rng, fam, m, place)
                        if f is None:
                            continue
                        seed_op = whole_op("set", a, good_nest(rng, fam, m), "i")
                        groups.append([seed_op, {"k": "tra", "fl": flags(), "a": a, "f": f, "kt": [], "bad": f"nested-grow-{place}"}])
                        groups.append([seed_op, {"k": "TRA", "fl": flags(), "f": None, "kt": [[a, f]], "bad": f"nested-grow-{place}"}])
                    # -- element helpers of collection attributes
                    if ty[0] == "list":
                        it = ty[1]
                        seed_op = {"k": "ewith", "fl": "i", "a": a, "item": C5.nobool(good_nest(rng, fam, it)), "index": "i0", "ins": 1}
                        be = nest_bad(rng, fam, it, place)
                        if be is not None:
                            form = rng.choice(["append", "insert"])
                            groups.append([seed_op, {"k": "ewith", "fl": flags(), "a": a, "item": be, "index": "M" if form == "append" else "i0",
                                                     "ins": 0 if form == "append" else 1, "bad": f"nested-item-{place}"}])
                            groups.append([seed_op, {"k": "eupd", "fl": flags(), "a": a, "voi": "i0", "new": be, "by": "y",
                                                     "bad": f"nested-item-{place}"}])
                            groups.append([seed_op, {"k": "etra", "fl": flags(), "a": a, "voi": "i0", "f": "cst " + be, "by": "y",
                                                     "bad": f"nested-item-{place}"}])
                        for m in ([it] if it[0] in ("list", "set") else [x for x in V.union_members(it) if x[0] in ("list", "set")]):
                            f = grows_by(rng, fam, m, place)
                            if f is not None:
                                s2 = dict(seed_op, item=C5.nobool(good_nest(rng, fam, m)))
                                groups.append([s2, {"k": "etra", "fl": flags(), "a": a, "voi": "i0", "f": f, "by": "y",
                                                    "bad": f"nested-item-grow-{place}"}])
                    elif ty[0] == "dict":
                        kt_, vt = ty[1], ty[2]
                        key = rng.choice(["s100", "s101"]) if kt_ == STR else C5.nobool(good_nest(rng, fam, kt_))
                        seed_op = {"k": "mwith", "fl": "i", "a": a, "key": key, "v": good_nest(rng, fam, vt)}
                        bv = nest_bad(rng, fam, vt, place)
                        if bv is not None:
                            groups.append([seed_op, {"k": "mwith", "fl": flags(), "a": a, "key": rng.choice([key, "s102" if kt_ == STR else key]),
                                                     "v": bv, "bad": f"nested-item-{place}"}])
                            groups.append([seed_op, {"k": "mupd", "fl": flags(), "a": a, "key": key, "new": bv, "bad": f"nested-item-{place}"}])
                            groups.append([seed_op, {"k": "mtra", "fl": flags(), "a": a, "key": key, "f": "cst " + bv,
                                                     "bad": f"nested-item-{place}"}])
                        for m in ([vt] if vt[0] in ("list", "set") else []):
                            f = grows_by(rng, fam, m, place)
                            if f is not None:
                                groups.append([seed_op, {"k": "mtra", "fl": flags(), "a": a, "key": key, "f": f,
                                                         "bad": f"nested-item-grow-{place}"}])
                    elif ty[0] == "set":
                        be = nest_bad(rng, fam, ty[1], place)
                        g0 = C5.nobool(good_nest(rng, fam, ty[1]))
                        seed_op = {"k": "swith", "fl": "i", "a": a, "item": g0}
                        if be is not None:
                            groups.append([seed_op, {"k": "swith", "fl": flags(), "a": a, "item": be, "bad": f"nested-item-{place}"}])
                            groups.append([seed_op, {"k": "supd", "fl": flags(), "a": a, "item": g0, "new": be, "bad": f"nested-item-{place}"}])
                            groups.append([seed_op, {"k": "stra", "fl": flags(), "a": a, "item": g0, "f": "cst " + be,
                                                     "bad": f"nested-item-{place}"}])
        rng.shuffle(groups)
        ops = []
        for g in groups:
            if len(ops) + len(g) > 14:
                yield {"family": fam0, "fname": fname, "cls": cid, "init": base_init, "ops": ops, "stream": "directed",
                       "origin": "directed-nested"}
                ops = []
            ops = ops + g
        if ops:
            yield {"family": fam0, "fname": fname, "cls": cid, "init": base_init, "ops": ops, "stream": "directed",
                   "origin": "directed-nested"}


# ---------------------------------------------------------------------------
# round 5: class STATEMENTS -- where the managed type of an attribute comes from.  Families of this section are
# described by what the user writes (class bodies, `@spec_class(...)` options, who derives from whom, lazy / eager
# bootstrap); the Lean model (`SpecVerif.C03Boot.bootstrap`, driven by `decl` lines) and the harness' own reference
# (`b_resolved`) each work out the class table, the real classes are built fresh for every case and used in the
# order the case says (`pre`: classes used before the class under test is first used).
# ---------------------------------------------------------------------------
#   bfam = {"boot": 1, "classes": [cd, ...]} in definition order, cd =
#     {"id", "kind": "spec", "base", "eager": bool, "entries": [Ent(...)], "attrs": [names], "typed": [[name, ty]],
#      "skip": None | [names], "key": "_" (not given) | "-" (key=None) | name, "ovf": None | name}
#     {"id", "kind": "plain", "base", "over": {"<name>": value tokens}}

FLOAT = ["float"]
ANY = ["any"]
FACTORY_KINDS = ("factory", "attrfactory", "fieldfactory")
VALUE_KINDS = ("value", "attr", "field")


def Ent(name, ann=None, dk="none", d=None, prep=None, ip=None):
    """one name of a class body: annotation (None: not annotated), class-level value, preparers defined next to it"""
    return {"name": name, "ann": ann, "dk": dk, "d": d, "prep": prep, "ip": ip}


def is_boot(fam):
    return bool(fam.get("boot"))


_BRES = {}


def b_resolved(bfam):
    """
    the harness' own reading of the class statements: for every class the managed attributes (metadata order) with
    the type each of them is DECLARED to have -- the type given through `attrs_typed`, else the annotation visible on
    the class (its own, else the nearest ancestor's; an ancestor that declared the type through its decorator counts),
    else Any; the overflow attribute is a Dict[str, Any]; an attribute this class does not declare keeps what it had
    in the parent class.  {cid: {"attrs": [...], "key", "ovf", "anns", "cvals", "preps", "ips", "chain"}}
    """
    hit = _BRES.get(id(bfam))
    if hit is not None and hit[0] is bfam:
        return hit[1]
    res = {}
    for cd in bfam["classes"]:
        res[cd["id"]] = _b_class(cd, res)
    if len(_BRES) > 200:
        _BRES.clear()
    _BRES[id(bfam)] = (bfam, res)
    return res


def _b_class(cd, res):
    cid, base = cd["id"], cd.get("base")
    chain = [] if base is None else [base] + res[base]["chain"]
    parent = res[base] if base is not None else None
    inherited = [dict(a) for a in parent["attrs"]] if parent else []
    if cd["kind"] == "plain":
        over = {int(a): d for a, d in (cd.get("over") or {}).items()}
        for a in inherited:
            if a["name"] in over:
                a["dk"], a["d"] = "value", over[a["name"]]
        return {"attrs": inherited, "key": parent["key"], "ovf": parent["ovf"], "anns": {}, "chain": chain,
                "cvals": {a: ("value", d) for a, d in over.items()}, "preps": {}, "ips": {}}
    entries = {e["name"]: e for e in cd["entries"]}
    own_ann = {e["name"]: e["ann"] for e in cd["entries"] if e.get("ann") is not None}
    nominated, typed, skip = list(cd.get("attrs") or []), list(cd.get("typed") or []), cd.get("skip")
    declared = {}                                   # the decorator's word on types
    for a in nominated:
        declared.setdefault(a, ANY)
    for a, t in typed:
        declared[a] = t
    if cd.get("ovf") is not None:
        declared[cd["ovf"]] = V.OVF_TY
    mine = []
    if not (nominated or typed) or skip is not None:
        mine += [a for a in own_ann if a not in (skip or [])]
    mine += list(declared)
    key = cd.get("key", "_")

    def visible_annotation(a):
        if a in own_ann:
            return own_ann[a]
        for c in chain:
            if a in res[c]["anns"]:
                return res[c]["anns"][a]
        return None

    def type_of(a):
        t = declared.get(a)
        return t if t is not None and t != ANY else (visible_annotation(a) or ANY)

    def class_value(a):
        e = entries.get(a)
        if e is not None and e["dk"] != "none":
            return ("none", None) if e["dk"] == "bare" else (e["dk"], e["d"])
        for c in chain:
            if a in res[c]["cvals"]:
                dk, d = res[c]["cvals"][a]
                # (a default factory / a declaration without default leaves the MISSING sentinel on the ancestor)
                return ("value", d) if dk in VALUE_KINDS else ("prop", d) if dk == "prop" else ("none", None)
        return ("none", None)

    def nearest(a, which):
        e = entries.get(a)
        if e is not None and e.get(which) is not None:
            return e[which]
        for c in chain:
            if a in res[c][which + "s"]:
                return res[c][which + "s"][a]
        return None

    def build(a, t, owner, helpers=True):
        dk, d = class_value(a)
        return {"name": a, "ty": t, "dk": dk, "d": d, "prep": nearest(a, "prep"),
                "ip": nearest(a, "ip") if cty(t)[0] in ("list", "set", "dict") else None, "owner": owner, "helpers": helpers}

    typed_here = set(mine) | ({key} if isinstance(key, int) else set())
    attrs = []
    for a in inherited:
        e = entries.get(a["name"])
        if a["name"] in typed_here or e is None or e["dk"] == "none":
            attrs.append(a)
        else:               # only a new class-level value: the inherited type stays
            attrs.append(build(a["name"], a["ty"], a["owner"] if e["dk"] in ("value", "prop") else cid))
    for a in mine:
        nb = build(a, type_of(a), cid)
        at = [i for i, x in enumerate(attrs) if x["name"] == a]
        if at:
            attrs[at[0]] = nb
        else:
            attrs.append(nb)
    if isinstance(key, int) and all(x["name"] != key for x in attrs):
        attrs.append(build(key, type_of(key), cid, helpers=False))
    anns = dict(own_ann)
    for x in attrs:
        if x["owner"] == cid:
            anns.setdefault(x["name"], x["ty"])
    return {"attrs": attrs, "chain": chain, "anns": anns,
            "key": parent["key"] if key == "_" and parent else None if key in ("_", "-") else key,
            "ovf": cd["ovf"] if cd.get("ovf") is not None else (parent["ovf"] if parent else None),
            "cvals": {e["name"]: (e["dk"], e["d"]) for e in cd["entries"] if e["dk"] != "none"},
            "preps": {e["name"]: e["prep"] for e in cd["entries"] if e.get("prep") is not None},
            "ips": {e["name"]: e["ip"] for e in cd["entries"] if e.get("ip") is not None}}


def b_other_types(bfam):
    """{class: {attribute name: every type the name is given anywhere in the hierarchy of the class}} (annotations,
    `attrs_typed`, resolved types; classes of another hierarchy -- the nested class -- do not count)"""
    out = {}
    res = b_resolved(bfam)
    root = lambda c: (res[c]["chain"] or [c])[-1]  # noqa: E731

    def add(c, a, t):
        if t is not None and t not in out.setdefault((root(c), a), []):
            out[(root(c), a)].append(t)

    for cd in bfam["classes"]:
        for e in cd.get("entries") or []:
            add(cd["id"], e["name"], e.get("ann"))
        for a, t in cd.get("typed") or []:
            add(cd["id"], a, t)
    for c, r in res.items():
        for x in r["attrs"]:
            add(c, x["name"], x["ty"])
    return {c: {a: ts for (rt, a), ts in out.items() if rt == root(c)} for c in res}


_BFLAT = {}


def b_flat(bfam):
    """
    the family as the generators, the reference checker and the call helpers read it: one base-less class per class
    with its resolved attributes.  Per attribute: "was" = the OTHER types the name has somewhere in the family (in an
    ancestor, in a sibling, as an annotation the decorator overrides), "nohelp" = no helper methods (a key attribute
    the class does not otherwise manage), "ovf" = the overflow attribute.
    """
    hit = _BFLAT.get(id(bfam))
    if hit is not None and hit[0] is bfam:
        return hit[1]
    res = b_resolved(bfam)
    others = b_other_types(bfam)
    classes = []
    for cd in bfam["classes"]:
        r = res[cd["id"]]
        attrs = []
        for x in r["attrs"]:
            ad = A(x["name"], x["ty"], "none" if x["dk"] == "bare" else x["dk"], x["d"], x["prep"], x["ip"])
            ad["was"] = [t for t in others[cd["id"]].get(x["name"], []) if t != x["ty"]]
            if not x["helpers"]:
                ad["nohelp"] = True
            if r["ovf"] == x["name"]:
                ad["ovf"] = True
            attrs.append(ad)
        classes.append({"id": cd["id"], "kind": "spec", "base": None, "key": r["key"], "attrs": attrs})
    out = {"classes": classes, "flat": 1}
    if len(_BFLAT) > 200:
        _BFLAT.clear()
    _BFLAT[id(bfam)] = (bfam, out)
    return out


def b_build(bfam):
    """the REAL classes, fresh (nothing bootstrapped yet unless `eager`), exactly as the statements say"""
    import dataclasses

    Attr, spec_class, spec_property = V._sc["Attr"], V._sc["spec_class"], V._sc["mod"].spec_property
    res = b_resolved(bfam)
    classes = {}
    for cd in bfam["classes"]:
        cid = cd["id"]
        bases = (classes[cd["base"]],) if cd.get("base") is not None else ()
        ns = {"__module__": "verif_family", "__qualname__": f"C{cid}"}
        if cd["kind"] == "plain":
            for a, d in (cd.get("over") or {}).items():
                ns[attr_name(int(a))] = decode(d, classes)
            cls = type(f"C{cid}", bases, ns)
        else:
            ann = {}
            for e in cd["entries"]:
                name = attr_name(e["name"])
                if e.get("ann") is not None:
                    ann[name] = V.ty_real(e["ann"], classes)
                dk, d = e["dk"], e["d"]
                if dk == "value":
                    ns[name] = decode(d, classes)
                elif dk == "attr":
                    ns[name] = Attr(default=decode(d, classes))
                elif dk == "field":
                    ns[name] = dataclasses.field(default=decode(d, classes))
                elif dk in ("factory", "attrfactory"):
                    ns[name] = Attr(default_factory=(lambda d=d: decode(d, classes)))
                elif dk == "fieldfactory":
                    ns[name] = dataclasses.field(default_factory=(lambda d=d: decode(d, classes)))
                elif dk == "bare":
                    ns[name] = Attr()
                elif dk == "prop":
                    ns[name] = spec_property((lambda d: (lambda self: decode(d, classes)))(d))
                if e.get("prep") is not None:
                    ns[f"_prepare_{name}"] = (lambda f: (lambda self, v: f(self, v)))(V.PREPARERS[e["prep"]])
                if e.get("ip") is not None:
                    ns[f"_prepare_{name}_item"] = (lambda f: (lambda self, v: f(self, v)))(V.PREPARERS[e["ip"]])
            ns["__annotations__"] = ann
            cls = type(f"C{cid}", bases, ns)
            kw = {"bootstrap": bool(cd.get("eager", False))}
            if cd.get("key", "_") != "_":
                kw["key"] = None if cd["key"] == "-" else attr_name(cd["key"])
            if cd.get("attrs"):
                kw["attrs"] = [attr_name(a) for a in cd["attrs"]]
            if cd.get("typed"):
                kw["attrs_typed"] = {attr_name(a): V.ty_real(t, classes) for a, t in cd["typed"]}
            if cd.get("skip") is not None:
                kw["attrs_skip"] = [attr_name(a) for a in cd["skip"]]
            if cd.get("ovf") is not None:
                kw["init_overflow_attr"] = attr_name(cd["ovf"])
            cls = spec_class(**kw)(cls)
        cls.__verif_id__ = cid
        cls.__verif_attrs__ = [x["name"] for x in res[cid]["attrs"]]
        classes[cid] = cls
    return classes


def b_decl_lines(bfam):
    """`decl …` protocol lines (Drivers/C03.lean): the class statements themselves, not a ready-made class table"""
    lines = []
    opt = lambda x: "_" if x is None else str(x)  # noqa: E731
    for cd in bfam["classes"]:
        if cd["kind"] == "plain":
            ents = [Ent(int(a), None, "value", d) for a, d in (cd.get("over") or {}).items()]
            parts = ["decl", str(cd["id"]), "p", opt(cd.get("base")), "_", "_", "_", "0", "0"]
        else:
            ents = cd["entries"]
            skip = cd.get("skip")
            parts = ["decl", str(cd["id"]), "s", opt(cd.get("base")), str(cd.get("key", "_")), opt(cd.get("ovf")),
                     "_" if skip is None else " ".join([str(len(skip))] + [str(a) for a in skip])]
            parts += [str(len(cd.get("attrs") or []))] + [str(a) for a in cd.get("attrs") or []]
            parts += [str(len(cd.get("typed") or []))] + [f"{a} {V.ty_tokens(t)}" for a, t in cd.get("typed") or []]
        parts.append(str(len(ents)))
        for e in ents:
            dk, d = e["dk"], e["d"]
            body = ("_" if dk == "none" else "b" if dk == "bare" else f"v {d}" if dk == "value" else f"d {d}" if dk in ("attr", "field")
                    else f"f {d}" if dk in FACTORY_KINDS else f"p {d}")
            parts += [str(e["name"]), "_" if e.get("ann") is None else V.ty_tokens(e["ann"]), body, opt(e.get("prep")), opt(e.get("ip"))]
        lines.append(" ".join(parts))
    return lines


def boot_option_tags(bfam, cid):
    """which decorator options / class-statement features the class `cid` and its ancestors use (evidence histogram)"""
    res = b_resolved(bfam)
    out = set()
    for c in [cid] + res[cid]["chain"]:
        cd = [x for x in bfam["classes"] if x["id"] == c][0]
        if cd["kind"] == "plain":
            out.add("plain-subclass")
            continue
        out.add("lazy" if not cd.get("eager") else "eager")
        for k, name in (("attrs", "attrs"), ("typed", "attrs_typed"), ("ovf", "init_overflow_attr")):
            if cd.get(k):
                out.add(name)
        if cd.get("skip") is not None:
            out.add("attrs_skip")
        if cd.get("key", "_") != "_":
            out.add("key" if cd["key"] != "-" else "key=None")
        inh = {x["name"] for x in res[cd["base"]]["attrs"]} if cd.get("base") is not None else set()
        for e in cd["entries"]:
            if e["name"] in inh and e.get("ann") is not None:
                out.add("re-annotated" + ("" if e["dk"] == "none" else "+value"))
            elif e["name"] in inh and e["dk"] != "none":
                out.add("re-defaulted")
        if any(a in inh for a in cd.get("attrs") or []):
            out.add("attrs-names-inherited")
        if any(a in inh for a, _ in cd.get("typed") or []):
            out.add("attrs_typed-names-inherited")
    return sorted(out)


# -- the grammar of class statements ------------------------------------------------------------------------------

UIS = ["union", INT, STR]
# (what the parent says, what a subclass may narrow it to)
NARROWINGS = [
    (FLOAT, [INT]),
    (UIS, [INT, STR]),
    (V.opt(INT), [INT]),
    (V.opt(STR), [STR]),
    (ANY, [INT, STR, ["list", INT]]),
    (["lit", ["s100", "s101"]], [["lit", ["s100"]]]),
    (INT, [["valid", 0, INT], ["valid", 3, INT]]),
    (["list", FLOAT], [["list", INT]]),
    (["list", UIS], [["list", INT], ["list", STR]]),
    (["list", V.opt(INT)], [["list", INT]]),
    (["list", INT], [["list", ["valid", 0, INT]], ["mseq", INT]]),
    (["dict", STR, FLOAT], [["dict", STR, INT]]),
    (["dict", STR, UIS], [["dict", STR, INT], ["dict", STR, STR]]),
    (["dict", UIS, INT], [["dict", STR, INT], ["dict", INT, INT]]),
    (["set", UIS], [["set", INT], ["set", STR]]),
    (["mseq", FLOAT], [["mseq", INT], ["list", INT]]),
    (V.opt(["list", FLOAT]), [V.opt(["list", INT]), ["list", INT]]),
]
BOOT_SCALARS = [INT, STR, FLOAT, ["bool"], V.opt(INT), UIS, ["lit", ["s100", "s101"]]]
BOOT_COLLS = [["list", INT], ["list", STR], ["dict", STR, INT], ["set", INT], ["set", STR], ["dict", INT, STR]]


def boot_default(rng, ty, p=0.7, plain_only=False):
    """(dk, d): a class-level value conforming to `ty`, or none"""
    if rng.random() > p:
        return "none", None
    t = cty(ty)
    mutable = t[0] in ("list", "set", "dict")
    if is_abstract(ty):
        return rng.choice(["factory", "attrfactory"]), C5.gen_value(rng, {"classes": []}, t, 0)
    d = C5.nobool(C5.gen_value(rng, {"classes": []}, t, 0)) if not mutable else C5.gen_value(rng, {"classes": []}, t, 0)
    if plain_only:
        return "value", d
    return rng.choice(["value", "value", "attr", "field", "factory"] if not mutable
                      else ["value", "value", "factory", "attrfactory", "fieldfactory"]), d


def boot_options(rng, cd, inherited, mode):
    """decorate the class statement `cd` (entries are in place) with the options of `mode`"""
    annotated = [e["name"] for e in cd["entries"] if e.get("ann") is not None]
    unannotated = [e["name"] for e in cd["entries"] if e.get("ann") is None and e["dk"] not in ("none",)
                   and e["name"] not in inherited]
    reann = [a for a in annotated if a in inherited]
    fresh = [a for a in annotated if a not in inherited]
    ann_of = {e["name"]: e["ann"] for e in cd["entries"]}
    pick = lambda xs, lo=1: rng.sample(xs, rng.randint(min(lo, len(xs)), len(xs))) if xs else []  # noqa: E731
    if "attrs" in mode:
        # annotated attributes nominated by name (their annotation is their type), un-annotated ones (Any), inherited ones
        cd["attrs"] = pick(fresh) + [a for a in unannotated if rng.random() < 0.7] + \
            [a for a in inherited if a not in annotated and rng.random() < 0.25]
        if "skip" not in mode:
            # TODO(observation C03-excluded-reannotation, reported to the orchestrator, not registered): a class whose decorator
            # EXCLUDES a name it re-annotates -- `@spec_class(attrs=["values"]) class C3(S): u: int = 5; values: List[int]` with
            # `S.u: Union[int, str]` -- keeps managing `u` under the parent's type (`C3().u = "s"` is accepted although C3
            # annotates `u: int`); which annotation counts is ambiguous in the property text, the shape is not generated:
            # every re-annotated name is also nominated.
            cd["attrs"] += [a for a in reann if a not in cd["attrs"]]    # (a re-annotation the class would otherwise not manage)
        rng.shuffle(cd["attrs"])
    if "typed" in mode:
        typed = []
        for a in unannotated:
            if a not in cd.get("attrs", []) or rng.random() < 0.3:
                typed.append([a, cty_guess(rng, cd, a)])
        for a in rng.sample(fresh, min(len(fresh), rng.randint(1, 2))):
            # the decorator's type wins over the annotation: declare something else than the annotation says
            alts = [t for w, ns in NARROWINGS for t in ns if w == ann_of[a]] + [w for w, ns in NARROWINGS if ann_of[a] in ns]
            if alts:
                t = rng.choice(alts)
                e = [x for x in cd["entries"] if x["name"] == a][0]
                if e["dk"] == "none" or C5.p_conforms({"classes": []}, cty(t), plain(e["d"], {"classes": []})):
                    typed.append([a, t])
        for a in inherited:
            if a not in annotated and rng.random() < 0.3:
                ns = [t for w, ns_ in NARROWINGS for t in ns_ if w == inherited[a]]
                if ns:
                    typed.append([a, rng.choice(ns)])
        if rng.random() < 0.3 and fresh:
            typed.append([rng.choice(fresh), ANY])      # the placeholder: the annotation stays in charge
        cd["typed"] = typed
        if "skip" not in mode and "attrs" not in mode:
            cd["attrs"] = [a for a in reann if all(a != x for x, _ in typed)]
            if not cd["typed"] and not cd["attrs"]:
                cd["typed"] = []
    if "skip" in mode:
        cand = [a for a in fresh if all(a != x for x, _ in cd.get("typed") or [])]
        cd["skip"] = rng.sample(cand, min(len(cand), rng.randint(0, 2)))
    return cd


def cty_guess(rng, cd, a):
    """a type for an un-annotated class-level value (declared through `attrs_typed`): one its value conforms to"""
    e = [x for x in cd["entries"] if x["name"] == a][0]
    v = plain(e["d"], {"classes": []})
    cands = [t for t in BOOT_SCALARS + BOOT_COLLS + [ANY] if C5.p_conforms({"classes": []}, t, v)]
    return rng.choice(cands)


BOOT_MODES = ["-", "attrs", "typed", "skip", "attrs+skip", "typed+skip", "attrs+typed", "attrs+typed+skip"]


def boot_family(rng, root_mode=None, sub_mode=None, lazy_p=0.8):
    """
    a hierarchy from the grammar of class statements:
      C1 nested class (stand-alone) - C0 root - C2 spec subclass of C0 - C3 spec subclass of C2 - C5 spec subclass of C0
      (a sibling of C2 narrowing differently) - C4 plain subclass of C3 - C6 plain subclass of C0 (some are left out).
    Root: 5..8 attributes (scalars, collections, wide types that can be narrowed), defaults of every kind; decorator
    options per class from BOOT_MODES, a key (managed / not managed, annotated / not), an overflow attribute.
    Subclasses: re-annotate inherited attributes with a NARROWER type (with / without a new value), re-default others,
    name inherited attributes in `attrs=` / `attrs_typed=`, add attributes of their own.
    """
    root_mode = root_mode or rng.choice(BOOT_MODES)
    sub_mode = sub_mode or rng.choice(BOOT_MODES)
    lazy = lambda: rng.random() >= lazy_p  # noqa: E731   (-> "eager")
    classes = [{"id": 1, "kind": "spec", "base": None, "eager": lazy(), "key": "_", "entries": [
        Ent(0, INT, "value", "i1"), Ent(1, rng.choice([STR, V.opt(STR)]), "value", "s100"), Ent(2, ["list", INT])]}]
    # -- the root
    ents = []
    wide = rng.sample(NARROWINGS, rng.randint(3, 5))
    a = 0
    for w, _ in wide:
        dk, d = boot_default(rng, w, 0.75)
        ents.append(Ent(a, w, dk, d))
        a += 1
    for t in rng.sample(BOOT_SCALARS, 2) + rng.sample(BOOT_COLLS, 1):
        dk, d = boot_default(rng, t, 0.7)
        ents.append(Ent(a, t, dk, d, prep=(1 if t == INT and rng.random() < 0.3 else None),
                        ip=(rng.choice([0, 1]) if t == ["list", INT] and rng.random() < 0.3 else None)))
        a += 1
    if rng.random() < 0.5:
        ents.append(Ent(a, ["spec", 1], "none", None))
        a += 1
    if rng.random() < 0.6:                  # a class-level value without annotation (managed only if the decorator names it)
        ents.append(Ent(a, None, "value", rng.choice(["i3", "s101", "L 1 i1"])))
        a += 1
    rng.shuffle(ents)
    root = {"id": 0, "kind": "spec", "base": None, "eager": lazy(), "key": "_", "entries": ents}
    boot_options(rng, root, {}, root_mode)
    r = rng.random()
    if r < 0.35:
        # a key: an annotated attribute the class manages / an annotated one it does not manage / a bare name
        strs = [e["name"] for e in ents if e.get("ann") in (STR, INT) and e["dk"] == "none"]
        if strs and rng.random() < 0.6:
            root["key"] = rng.choice(strs)
        else:
            root["entries"].append(Ent(20, rng.choice([STR, INT, None])))
            root["key"] = 20
            if root.get("attrs") or root.get("typed"):
                pass                        # (annotations are not picked up: the key stays un-managed)
            elif root["entries"][-1]["ann"] is not None and rng.random() < 0.5:
                root["skip"] = (root.get("skip") or []) + [20]
    if rng.random() < 0.2:
        root["ovf"] = 30
    classes.append(root)
    fam = {"boot": 1, "classes": classes}

    def subclass(cid, base, mode, narrow_p):
        res = b_resolved({"boot": 1, "classes": classes})
        inh = {x["name"]: x["ty"] for x in res[base]["attrs"]}
        pinfo = {x["name"]: x for x in res[base]["attrs"]}
        ents = []
        for n, t in inh.items():
            if pinfo[n].get("helpers") is False or n == res[base]["ovf"] or pinfo[n]["dk"] == "prop":
                continue
            ns = [x for w, ns_ in NARROWINGS for x in ns_ if w == t]
            r = rng.random()
            if ns and r < narrow_p:
                nt = rng.choice(ns)
                # re-annotated: mostly without a value (the inherited class-level value stays), sometimes with a new one
                if rng.random() < 0.65:
                    ents.append(Ent(n, nt))
                else:
                    dk, d = boot_default(rng, nt, 1.0)
                    ents.append(Ent(n, nt, dk, d))
            elif r < narrow_p + 0.12 and t[0] != "spec" and n != res[base]["key"]:
                dk, d = boot_default(rng, t, 1.0, plain_only=rng.random() < 0.7)
                ents.append(Ent(n, None, dk, d))                     # re-defaulted only
            elif r < narrow_p + 0.2 and t[0] != "spec":
                ents.append(Ent(n, t))                               # re-annotated with the same type
        nxt = 40 + 10 * cid
        for t in rng.sample(BOOT_SCALARS + BOOT_COLLS, rng.randint(1, 2)):
            dk, d = boot_default(rng, t, 0.8)
            ents.append(Ent(nxt, t, dk, d))
            nxt += 1
        if rng.random() < 0.4:
            ents.append(Ent(nxt, None, "value", rng.choice(["i3", "s101"])))
        rng.shuffle(ents)
        cd = {"id": cid, "kind": "spec", "base": base, "eager": lazy(), "key": "_", "entries": ents}
        boot_options(rng, cd, inh, mode)
        if rng.random() < 0.1:
            cd["key"] = "-"
        classes.append(cd)

    def plain_sub(cid, base):
        res = b_resolved({"boot": 1, "classes": classes})
        over = {}
        for x in rng.sample(res[base]["attrs"], min(len(res[base]["attrs"]), rng.randint(0, 2))):
            # (not the key: the generated signature -- fixed when the spec class is bootstrapped -- keeps demanding it)
            if x["ty"][0] != "spec" and x["dk"] != "prop" and x.get("helpers") is not False and x["name"] not in (res[base]["ovf"], res[base]["key"]):
                over[str(x["name"])] = boot_default(rng, x["ty"], 1.0, plain_only=True)[1]
        classes.append({"id": cid, "kind": "plain", "base": base, "over": over})

    subclass(2, 0, sub_mode, 0.6)
    shape = rng.random()
    if shape < 0.75:
        subclass(3, 2, rng.choice(BOOT_MODES), 0.45)
    if shape > 0.3:
        subclass(5, 0, rng.choice(BOOT_MODES), 0.7)
    if rng.random() < 0.5:
        plain_sub(4, classes[-1]["id"] if classes[-1]["kind"] == "spec" else 2)
    if rng.random() < 0.3:
        plain_sub(6, 0)
    return fam


# hand-written: the shapes of the two seeded changes of round 5 and their neighbours, every option at least once
FAMILY_BOOT = {"boot": 1, "classes": [
    {"id": 1, "kind": "spec", "base": None, "eager": False, "key": "_", "entries": [
        Ent(0, INT, "value", "i1"), Ent(1, STR, "value", "s100"), Ent(2, ["list", INT])]},
    {"id": 0, "kind": "spec", "base": None, "eager": False, "key": "_", "entries": [
        Ent(0, STR, "value", "s100"),
        Ent(1, ["list", FLOAT], "value", "L 0"),
        Ent(2, ["dict", STR, FLOAT], "value", "D 0"),
        Ent(3, UIS, "value", "i0"),
        Ent(4, V.opt(INT), "value", "i2"),
        Ent(5, ["set", UIS]),
        Ent(6, ["list", UIS], "factory", "L 1 i1"),
        Ent(7, FLOAT, "attr", "i3"),
        Ent(8, ["spec", 1]),
        Ent(9, ["list", INT], "value", "L 0"),
        Ent(10, INT, "value", "i5"),
    ]},
    {"id": 2, "kind": "spec", "base": 0, "eager": False, "key": "_", "entries": [     # narrows by re-annotation only
        Ent(1, ["list", INT]), Ent(2, ["dict", STR, INT]), Ent(3, INT), Ent(4, INT), Ent(5, ["set", INT]),
        Ent(6, ["list", INT], "factory", "L 1 i2"), Ent(7, INT), Ent(9, ["list", ["valid", 0, INT]]), Ent(40, STR, "value", "s101")]},
    {"id": 3, "kind": "spec", "base": 2, "eager": False, "key": "_", "entries": [     # a third level, narrowing once more
        Ent(3, ["valid", 3, INT], "value", "i2"), Ent(10, ["valid", 0, INT]), Ent(50, INT, "value", "i0")]},
    {"id": 5, "kind": "spec", "base": 0, "eager": False, "key": "_", "entries": [     # the sibling narrows the other way
        Ent(1, ["list", INT]), Ent(3, STR, "value", "s101"), Ent(5, ["set", STR]), Ent(6, ["list", STR], "factory", "L 0"),
        Ent(2, ["dict", STR, INT], "value", "D 1 s100 i1")]},
    {"id": 4, "kind": "plain", "base": 3, "over": {"10": "i7"}},
    {"id": 6, "kind": "plain", "base": 0, "over": {"3": "s102"}},
]}

FAMILY_BOOTOPT = {"boot": 1, "classes": [
    {"id": 1, "kind": "spec", "base": None, "eager": False, "key": 0, "attrs": [1, 2], "entries": [
        Ent(0, STR), Ent(1, INT, "value", "i1"), Ent(2, ["list", INT], "value", "L 0")]},
    {"id": 0, "kind": "spec", "base": None, "eager": False, "key": 9,          # (the key: annotated, not nominated)
     "attrs": [0, 1, 2, 3, 4, 12], "typed": [[5, ["dict", STR, INT]], [6, STR], [7, ANY]], "ovf": 30, "entries": [
        Ent(0, INT, "value", "i0"), Ent(1, ["list", STR], "value", "L 0"), Ent(2, ["dict", STR, INT], "value", "D 0"),
        Ent(3, V.opt(STR), "value", "N"), Ent(4, ["set", INT]), Ent(5, None, "value", "D 0"),
        Ent(6, INT, "value", "s100"),              # annotated int, declared str by the decorator
        Ent(7, ["list", INT], "factory", "L 1 i1"),  # the Any placeholder in attrs_typed: the annotation decides
        Ent(8, INT, "value", "i4"),                # annotated, but not nominated: not managed
        Ent(12, None, "value", "i3"),              # nominated without annotation: Any
        Ent(9, STR),
    ]},
    {"id": 2, "kind": "spec", "base": 0, "eager": False, "key": "_", "skip": [41], "attrs": [0], "typed": [[1, ["list", ["lit", ["s100", "s101"]]]]],
     "entries": [Ent(40, UIS, "value", "i1"), Ent(41, INT, "value", "i2"), Ent(4, ["set", ["valid", 0, INT]]),
                 Ent(6, None, "value", "s101"),     # re-defaulted only: stays `str` (the parent's decorator said so), not the annotation
                 Ent(5, None, "factory", "D 1 s100 i1")]},
    {"id": 3, "kind": "spec", "base": 2, "eager": False, "key": 42, "entries": [Ent(40, INT), Ent(42, STR), Ent(50, FLOAT, "value", "f3")]},
    {"id": 5, "kind": "spec", "base": 0, "eager": True, "key": "_", "typed": [[2, ["dict", STR, ["valid", 3, INT]]], [60, ["list", FLOAT]]],
     "entries": [Ent(60, None, "value", "L 0"), Ent(3, STR, "value", "s101")]},
    {"id": 4, "kind": "plain", "base": 3, "over": {"0": "i9"}},
]}


def boot_receivers(bfam):
    return [cd["id"] for cd in bfam["classes"] if cd["id"] != 1]


def was_ok_bad(rng, vfam, ad, item=False):
    """tokens of a value that conforms to one of the OTHER types the attribute has in the family (in an ancestor, in a
    sibling, under the annotation the decorator overrides) but not to the type it has in THIS class; None: no such value.
    `item`: for a collection attribute, such an element (value) rather than a whole collection."""
    ty = ad["ty"]
    for _ in range(12):
        if not ad.get("was"):
            return None
        w = cty(rng.choice(ad["was"]))
        if item:
            if not (is_container(w) and is_container(ty) and w[0] == ty[0]):
                continue
            v = C5.nobool(C5.gen_value(rng, vfam, w[-1], 0))
            if not C5.p_conforms(vfam, ty[-1], plain(v, vfam)):
                return v
            continue
        if w == ANY:
            v = bad_for(rng, vfam, ty, scalar_only=not is_container(ty))
        elif is_container(w):
            v = good_nest(rng, vfam, w)
        else:
            v = C5.gen_value(rng, vfam, w, 0)
        if v is None or "I" in V.toks(v):
            continue
        if is_container(ty) and v == "N" and not is_abstract(ad.get("aty", ty)):
            continue                      # None is normalised into the empty collection
        if v[0] == "D" and "valid" in json.dumps(ty):
            continue
        if not is_container(ty) and v[0] in "LSD" and ty[0] != "any" and container_member(ty) is None and w != ANY:
            pass
        if not C5.p_conforms(vfam, ty, plain(v, vfam)) and not normalises_into(vfam, ty, v):
            return v
    return None


def normalises_into(vfam, ty, v):
    """would the collection normalisation of a collection attribute turn `v` into a conforming value? (a set / tuple
    handed to a list attribute, a list handed to a set attribute are rebuilt item by item)"""
    if not is_container(ty):
        return False
    pv = plain(v, vfam)
    try:
        if ty[0] == "list" and isinstance(pv, (set, list, str)):
            return C5.p_conforms(vfam, ty, list(pv))
        if ty[0] == "set" and isinstance(pv, (set, list, str)):
            return C5.p_conforms(vfam, ty, set(pv))
    except TypeError:
        return False
    return False


def elem_routes_for(rng, vfam, ad, bad, tag, fl):
    """every element helper of the collection attribute `ad` introducing the element / value `bad`:
    [(seed op or None, the call)]"""
    ty, a = ad["ty"], ad["name"]
    out = []
    if ty[0] == "list":
        good = C5.nobool(good_nest(rng, vfam, ty[1]))
        seed_op = {"k": "ewith", "fl": "i", "a": a, "item": good, "index": "i0", "ins": 1}
        out.append((None, {"k": "ewith", "fl": fl(), "a": a, "item": bad, "index": "M", "ins": 0, "bad": tag}))
        out.append((seed_op, {"k": "ewith", "fl": fl(), "a": a, "item": bad, "index": "i0", "ins": 1, "bad": tag}))
        out.append((seed_op, {"k": "ewith", "fl": fl(), "a": a, "item": bad, "index": "i0", "ins": 0, "bad": tag}))
        out.append((seed_op, {"k": "eupd", "fl": fl(), "a": a, "voi": "i0", "new": bad, "by": "y", "bad": tag}))
        out.append((seed_op, {"k": "etra", "fl": fl(), "a": a, "voi": "i0", "f": "cst " + bad, "by": "y", "bad": tag}))
    elif ty[0] == "dict":
        gk = C5.nobool(good_nest(rng, vfam, ty[1]))
        seed_op = {"k": "mwith", "fl": "i", "a": a, "key": gk, "v": good_nest(rng, vfam, ty[2])}
        out.append((None, {"k": "mwith", "fl": fl(), "a": a, "key": gk, "v": bad, "bad": tag}))
        out.append((seed_op, {"k": "mwith", "fl": fl(), "a": a, "key": gk, "v": bad, "bad": tag}))
        out.append((seed_op, {"k": "mupd", "fl": fl(), "a": a, "key": gk, "new": bad, "bad": tag}))
        out.append((seed_op, {"k": "mtra", "fl": fl(), "a": a, "key": gk, "f": "cst " + bad, "bad": tag}))
    elif ty[0] == "set":
        good = C5.nobool(good_nest(rng, vfam, ty[1]))
        seed_op = {"k": "swith", "fl": "i", "a": a, "item": good}
        out.append((None, {"k": "swith", "fl": fl(), "a": a, "item": bad, "bad": tag}))
        out.append((seed_op, {"k": "supd", "fl": fl(), "a": a, "item": good, "new": bad, "bad": tag}))
        out.append((seed_op, {"k": "stra", "fl": fl(), "a": a, "item": good, "f": "cst " + bad, "bad": tag}))
    return out


def boot_use(rng, vfam, cid, nops=2):
    """an ordinary use of class `cid`: constructed with conforming values for its collection / re-typed attributes, then
    a few valid calls (element helpers first: they are what fills per-attribute caches)"""
    eff = V.effective_attrs(vfam, cid)
    init = []
    for ad in eff:
        if ad.get("ovf") or ad["ty"][0] == "spec":
            continue
        need = ad["name"] in bad_default_attrs(vfam, cid) or ad["name"] == V.effective_key(vfam, cid)
        if need or ((is_container(ad["ty"]) or ad.get("was")) and ad.get("prep") is None and rng.random() < 0.8):
            v = good_value(rng, vfam, ad) if not is_container(ad["ty"]) else good_nest(rng, vfam, ad["ty"])
            init.append([ad["name"], v])
    ops = []
    for _ in range(nops):
        op = gen_elem_op(rng, vfam, cid) if rng.random() < 0.7 else None
        if op is None:
            cands = [ad for ad in eff if not ad.get("nohelp") and not ad.get("ovf") and ad["ty"][0] != "spec"]
            if not cands:
                continue
            ad = rng.choice(cands)
            op = {"k": "with", "fl": rng.choice(["-", "i", "a"]), "a": ad["name"], "v": good_value(rng, vfam, ad), "kw": []}
        ops.append(op)
    ops = boot_filter_ops(vfam, cid, ops)
    return {"cls": cid, "init": [x for x in init if buildable(x[1])], "ops": [op for op in ops if all(buildable(t) for t in strings_in(op))]}


def boot_orders(rng, bfam, cid):
    """the orders of first use to put before a case on receiver class `cid`: none; each ancestor alone; the ancestors
    root-most first and nearest first; a descendant first; a sibling first; everything else in random order"""
    res = b_resolved(bfam)
    chain = res[cid]["chain"]
    ids = [cd["id"] for cd in bfam["classes"]]
    desc = [c for c in ids if cid in res[c]["chain"]]
    sibs = [c for c in ids if c != cid and c not in chain and c not in desc and c != 1]
    orders = [[]]
    orders += [[c] for c in chain]
    if len(chain) > 1:
        orders += [list(reversed(chain)), list(chain)]
    orders += [[c] for c in desc]
    orders += [[c] for c in sibs]
    if sibs and chain:
        orders.append([rng.choice(sibs), chain[0]])
    if desc and chain:
        orders.append([chain[-1], rng.choice(desc)])
    rest = [c for c in ids if c != cid]
    rng.shuffle(rest)
    orders.append(rest)
    if 1 in ids and cid != 1:
        orders.append([1])
    return orders


def boot_filter_ops(vfam, cid, ops):
    """drop the calls this family shape has no counterpart for in the model: helper methods of a key attribute the class
    does not otherwise manage (there are none), stray keywords on a class that collects extra keywords"""
    eff = {ad["name"]: ad for ad in V.effective_attrs(vfam, cid)}
    has_ovf = any(ad.get("ovf") for ad in eff.values())
    out = []
    for op in ops:
        if op is None:
            continue
        ad = eff.get(op.get("a")) if "a" in op else None
        if ad is not None and ad.get("nohelp") and op["k"] not in ("set", "del"):
            continue
        if ad is not None and "float" in json.dumps(ad["ty"]) and op["k"] in ("edel", "eupd", "etra") and op.get("by") != "y":
            continue        # (addressing an element of a float list by value: `0 == 0.0`, the model compares structurally)
        names = [x[0] for x in op.get("kw") or []] + [x[0] for x in op.get("kt") or []]
        if op["k"] in ("UPD", "TRA") and has_ovf and any(n not in eff for n in names):
            continue
        out.append(op)
    return out


def directed_boot_cases(rng, bfam, fname, per_class=None):
    """
    For every class of the hierarchy x every attribute whose type differs somewhere else in the family (narrowed by
    re-annotation / `attrs_typed` in this class or a sibling, widened in an ancestor, annotated differently from what
    the decorator declares) x every route -- constructor, with_, assignment, update_, transform_, update, transform and
    the element helpers with_/update_/transform_<item> (append / insert / replace, dict value and key) -- ONE value that
    conforms to the OTHER type but not to this class's: the call must raise TypeError / ValueError and store nothing.
    Conforming values go through the same routes in between.  The groups of calls are dealt out over the orders of
    first use (`boot_orders`): the same kind of call is made on a class whose ancestors / descendants / siblings
    were used, and thereby bootstrapped, before it -- and on one that is the first class of its hierarchy to be used.
    """
    flat = b_flat(bfam)
    vfam = view(flat)
    fl = lambda: rng.choice(["-", "i", "a", "ia"])  # noqa: E731
    for cid in boot_receivers(bfam):
        eff = V.effective_attrs(vfam, cid)
        keyattr = V.effective_key(vfam, cid)
        base_init = [[a, good_value(rng, vfam, C5.attr_desc(vfam, cid, a))] for a in bad_default_attrs(vfam, cid)]
        if keyattr is not None and all(x[0] != keyattr for x in base_init):
            kad = C5.attr_desc(vfam, cid, keyattr)
            if kad.get("d") is None:
                base_init.append([keyattr, good_value(rng, vfam, kad)])
        groups, ctor_cases = [], []
        for ad in eff:
            if ad.get("prep") is not None or ad.get("ip") is not None or ad.get("ovf"):
                continue
            a, ty = ad["name"], ad["ty"]
            routes = ("ctor", "set", "UPD") if ad.get("nohelp") else WHOLE_ROUTES
            if not ad.get("was"):
                # typed the same everywhere: any non-conforming value, through two of the routes (all of them for a key
                # attribute without helper methods -- its type is worked out on a path of its own)
                routes = routes if ad.get("nohelp") else rng.sample(routes, 2)
            for route in routes:
                if ad.get("was"):
                    v = was_ok_bad(rng, vfam, ad)
                elif is_container(ty):
                    v = rng.choice([bad_collection(rng, vfam, ty, rng.choice(["key", "value"]), abstract=is_abstract(ad.get("aty", ty))), "i1"])
                    v = "f3" if v == "i1" and route in ("tra", "TRA") else v
                else:
                    v = bad_for(rng, vfam, ty, scalar_only=True)
                if v is None or not buildable(v):
                    continue
                if route == "ctor":
                    ctor_cases.append([x for x in base_init if x[0] != a] + [[a, v]])
                    continue
                g = []
                # (a transform of an attribute that holds nothing starts from `type()`: a validated type refuses that
                # with RuntimeError -- see "Observation" in docs/C03.md; give it a value first)
                if rng.random() < 0.5 or route in ("tra", "TRA"):
                    gv = good_nest(rng, vfam, ty) if is_container(ty) else good_value(rng, vfam, ad)
                    if buildable(gv):
                        g.append(whole_op(rng.choice(["set"] if ad.get("nohelp") or route in ("tra", "TRA") else ["with", "set", "UPD"]),
                                          a, gv, rng.choice(["i", "a", "-"])))
                g.append(whole_op(route, a, v, fl(), "retyped-value" if ad.get("was") else "value"))
                groups.append(g)
            if is_container(ty) and not ad.get("nohelp"):
                be = was_ok_bad(rng, vfam, ad, item=True)
                if be is not None and buildable(be) and not (ty[0] == "set" and be[0] in "LSD"):
                    for seed_op, call in elem_routes_for(rng, vfam, ad, be, "retyped-element", fl):
                        groups.append(([seed_op] if seed_op else []) + [call])
                if ty[0] == "dict":
                    for w in ad["was"]:
                        w = cty(w)
                        if w[0] == "dict" and w[1] != ty[1]:
                            bk = C5.nobool(C5.gen_value(rng, vfam, w[1], 0))
                            if not C5.p_conforms(vfam, ty[1], plain(bk, vfam)):
                                groups.append([{"k": "mwith", "fl": fl(), "a": a, "key": bk, "v": good_nest(rng, vfam, ty[2]), "bad": "retyped-key"}])
        rng.shuffle(groups)
        orders = boot_orders(rng, bfam, cid)
        rng.shuffle(orders)
        cases = []
        ops = []
        for g in groups:
            if len(ops) + len(g) > 10:
                cases.append(ops)
                ops = []
            ops = ops + g
        if ops:
            cases.append(ops)
        # every order of first use gets at least one batch of calls; with few batches the batches are repeated
        n = max(len(cases), len(orders)) if cases else 0
        if per_class is not None:
            n = min(n, per_class)
        for i in range(n):
            order = orders[i % len(orders)]
            yield {"family": bfam, "fname": fname, "cls": cid, "init": base_init, "ops": boot_filter_ops(vfam, cid, cases[i % len(cases)]),
                   "pre": [boot_use(rng, vfam, c) for c in order], "stream": "directed", "origin": "directed-boot"}
        for j, init in enumerate(ctor_cases[: (per_class or len(ctor_cases))]):
            order = orders[(j + 1) % len(orders)]
            yield {"family": bfam, "fname": fname, "cls": cid, "init": init, "ops": [], "init_bad": True,
                   "pre": [boot_use(rng, vfam, c) for c in order], "stream": "directed", "origin": "directed-boot"}


def gen_boot_case(rng, bfam, fname, nops, malformed):
    """a random history on a random class of the hierarchy, after a random order of first use of the other classes"""
    vfam = view(b_flat(bfam))
    cid = rng.choice(boot_receivers(bfam))
    case = gen_case_on(rng, bfam, vfam, fname, cid, nops, malformed)
    keyattr = V.effective_key(vfam, cid)
    eff = {ad["name"]: ad for ad in V.effective_attrs(vfam, cid)}
    case["init"] = [x for x in case["init"] if not eff[x[0]].get("ovf")]
    if keyattr is not None and all(x[0] != keyattr for x in case["init"]) and eff[keyattr].get("d") is None:
        case["init"].append([keyattr, good_value(rng, vfam, eff[keyattr])])
    case["ops"] = boot_filter_ops(vfam, cid, case["ops"])
    if malformed and rng.random() < 0.5:
        # one call aiming a value of the attribute's OTHER type at it
        cands = [ad for ad in eff.values() if ad.get("was") and ad.get("prep") is None and ad.get("ip") is None and not ad.get("ovf")]
        if cands:
            ad = rng.choice(cands)
            v = was_ok_bad(rng, vfam, ad)
            if v is not None and buildable(v):
                route = rng.choice(["set"] if ad.get("nohelp") else ["with", "set", "upd", "UPD"] if "valid" in json.dumps(ad["ty"])
                                   else list(WHOLE_ROUTES[1:]))
                case["ops"].insert(rng.randint(0, len(case["ops"])), whole_op(route, ad["name"], v, rng.choice(["-", "i", "a"]), "retyped-value"))
            if is_container(ad["ty"]) and not ad.get("nohelp"):
                be = was_ok_bad(rng, vfam, ad, item=True)
                if be is not None and buildable(be) and not (ad["ty"][0] == "set" and be[0] in "LSD"):
                    seed_op, call = rng.choice(elem_routes_for(rng, vfam, ad, be, "retyped-element", lambda: rng.choice(["-", "i", "a"])))
                    at = rng.randint(0, len(case["ops"]))
                    case["ops"][at:at] = ([seed_op] if seed_op else []) + [call]
    order = rng.choice(boot_orders(rng, bfam, cid))
    case["pre"] = [boot_use(rng, vfam, c, rng.randint(0, 3)) for c in order]
    return case


def gen_cases(tier, rng):
    nfam = {"quick": 4, "thorough": 30, "search": 10}[tier]
    hand = [("elem", FAMILY_ELEM), ("main", C5.FAMILY_MAIN), ("prep", C5.FAMILY_PREP), ("falsy", C5.FAMILY_FALSY),
            ("abs", FAMILY_ABS), ("desc", FAMILY_DESC), ("baddef", FAMILY_BADDEF), ("nest", FAMILY_NEST)]
    fams = hand + [(f"rnd{i}", random_family3(rng) if i % 2 == 0 else no_ovf(C5.random_family(rng))) for i in range(nfam)]
    nh = len(hand)
    # round 5: families given as class STATEMENTS (decorator options, re-annotation in hierarchies, lazy bootstrap); every
    # decorator-option mode is the root's resp. the first subclass's mode in at least one family of every run
    nboot = {"quick": 8, "thorough": 48, "search": 8}[tier]
    boot = [("boot", FAMILY_BOOT), ("bootopt", FAMILY_BOOTOPT)] + [
        (f"brnd{i}", boot_family(rng, BOOT_MODES[i % len(BOOT_MODES)], BOOT_MODES[(3 * i + 1 + i // len(BOOT_MODES)) % len(BOOT_MODES)]))
        for i in range(nboot)]
    if tier != "search":
        for fname, fam in boot:
            hand_written = fname in ("boot", "bootopt")
            yield from directed_boot_cases(rng, fam, fname, per_class=None if hand_written or tier == "thorough" else 3)
            if hand_written or tier == "thorough":
                yield from directed_bad_cases(rng, fam, fname)
            for j in range(16 if hand_written else 6 if tier == "quick" else 30):
                yield gen_boot_case(rng, fam, fname, rng.randint(3, 10), malformed=(j % 2 == 1))
    if tier != "search":
        yield from valid_order_cases(rng)
        for fname, fam in fams[:nh] + (fams[nh:nh + 2] if tier == "quick" else fams[nh:]):
            yield from directed_bad_cases(rng, fam, fname)
        for fname, fam in fams:
            yield from directed_baddef_cases(rng, fam, fname)
        for fname, fam in fams:
            yield from directed_nested_cases(rng, fam, fname, reps=1 if tier == "quick" or fname != "nest" else 6)
    if tier == "search":
        k = 0
        while True:
            k += 1
            if k % 3 == 0:
                # class statements: now and then a new hierarchy from the grammar
                if k % 90 == 0:
                    boot[2 + (k // 90) % nboot] = (f"brnd{k}", boot_family(rng))
                fname, fam = rng.choice(boot)
                yield gen_boot_case(rng, fam, fname, rng.randint(1, 8), rng.random() < 0.6)
                continue
            fname, fam = rng.choice(fams)
            yield gen_case(rng, fam, fname, rng.randint(1, 8), rng.random() < 0.6)
        return
    n = 800 if tier == "quick" else 20000   # (round 4: 200 random cases traded for the directed nested stream)
    for i in range(n):
        fname, fam = fams[i % len(fams)] if rng.random() < 0.6 else rng.choice([fams[0], fams[0], fams[4], fams[5], fams[6], fams[7]])
        yield gen_case(rng, fam, fname, rng.randint(4, 14), malformed=(i % 2 == 1))


# ---------------------------------------------------------------------------
# protocol
# ---------------------------------------------------------------------------

ELEM_KINDS = ("ewith", "eupd", "etra", "edel", "mwith", "mupd", "mtra", "mdel", "swith", "supd", "stra", "sdel")


def op_line(op):
    k = op["k"]
    if k not in ELEM_KINDS:
        return C5.op_line(op)
    fl, a = op.get("fl", "-"), op["a"]
    if k == "ewith":
        return f"ewith {fl} {a} {op['item']} {op['index']} {op['ins']}"
    if k == "eupd":
        return f"eupd {fl} {a} {op['voi']} {op['new']} {op['by']}"
    if k == "etra":
        return f"etra {fl} {a} {op['voi']} {op['f']} {op['by']}"
    if k == "edel":
        return f"edel {fl} {a} {op['voi']} {op['by']}"
    if k == "mwith":
        return f"mwith {fl} {a} {op['key']} {op['v']}"
    if k == "mupd":
        return f"mupd {fl} {a} {op['key']} {op['new']}"
    if k == "mtra":
        return f"mtra {fl} {a} {op['key']} {op['f']}"
    if k == "mdel":
        return f"mdel {fl} {a} {op['key']}"
    if k == "swith":
        return f"swith {fl} {a} {op['item']}"
    if k == "supd":
        return f"supd {fl} {a} {op['item']} {op['new']}"
    if k == "stra":
        return f"stra {fl} {a} {op['item']} {op['f']}"
    if k == "sdel":
        return f"sdel {fl} {a} {op['item']}"
    raise ValueError(op)


def is_extra_case(case):
    """a case reported by `extra()` (outside the line protocol)"""
    return "family" not in case


def segments(case):
    """the receivers of a case in order: the classes used BEFORE the class under test is first used (`pre`), then the
    case's own receiver"""
    return list(case.get("pre") or []) + [{"cls": case["cls"], "init": case["init"], "ops": case["ops"],
                                            "init_bad": case.get("init_bad")}]


def header_len(case):
    return 1 + len(case["family"]["classes"])


def seg_layout(case):
    """[(line number, segment index, op index or None for the constructor line)]"""
    out = []
    n = header_len(case)
    for si, seg in enumerate(segments(case)):
        out.append((n, si, None))
        n += 1
        for oi in range(len(seg["ops"])):
            out.append((n, si, oi))
            n += 1
    return out


def model_lines(case):
    if is_extra_case(case):
        return ["reset"]
    fam = case["family"]
    lines = ["reset"] + (b_decl_lines(fam) if is_boot(fam) else V.class_lines(fam))
    for seg in segments(case):
        lines.append(f"new {seg['cls']} {C5.kw_tokens(seg['init'])}")
        lines += [op_line(op) for op in seg["ops"]]
    return lines


def call_real(classes, fam, recv, op):
    k = op["k"]
    if k not in ELEM_KINDS:
        return C5.call_real(classes, fam, recv, op)
    fl = op.get("fl", "-")
    flags = {}
    if "i" in fl:
        flags["_inplace"] = True
    if "n" in fl:
        flags["_if"] = False
    name = attr_name(op["a"])
    spec = type(recv).__spec_class__.attrs[name]
    item_name = spec.item_name
    dec = lambda t: decode(t, classes)  # noqa: E731
    by = {} if op.get("by", "a") == "a" else {"_by_index": op["by"] == "y"}
    if k == "ewith":
        return getattr(recv, f"with_{item_name}")(dec(op["item"]), _index=dec(op["index"]), _insert=bool(op["ins"]), **flags)
    if k == "eupd":
        return getattr(recv, f"update_{item_name}")(dec(op["voi"]), dec(op["new"]), **by, **flags)
    if k == "etra":
        return getattr(recv, f"transform_{item_name}")(dec(op["voi"]), V.transform_fn(op["f"], classes), **by, **flags)
    if k == "edel":
        return getattr(recv, f"without_{item_name}")(dec(op["voi"]), **by, **flags)
    if k == "mwith":
        return getattr(recv, f"with_{item_name}")(dec(op["key"]), dec(op["v"]), **flags)
    if k == "mupd":
        return getattr(recv, f"update_{item_name}")(dec(op["key"]), dec(op["new"]), **flags)
    if k == "mtra":
        return getattr(recv, f"transform_{item_name}")(dec(op["key"]), V.transform_fn(op["f"], classes), **flags)
    if k == "mdel":
        return getattr(recv, f"without_{item_name}")(dec(op["key"]), **flags)
    if k == "swith":
        return getattr(recv, f"with_{item_name}")(dec(op["item"]), **flags)
    if k == "supd":
        return getattr(recv, f"update_{item_name}")(dec(op["item"]), dec(op["new"]), **flags)
    if k == "stra":
        return getattr(recv, f"transform_{item_name}")(dec(op["item"]), V.transform_fn(op["f"], classes), **flags)
    if k == "sdel":
        return getattr(recv, f"without_{item_name}")(dec(op["item"]), **flags)
    raise ValueError(op)


# ---------------------------------------------------------------------------
# the reference type checker (independent of spec_classes.utils.type_checking)
# ---------------------------------------------------------------------------


_REF_PRED = {}      # id(validated type object) -> (type object, the harness' own predicate)


def ref_conforms(value, ann):
    """does `value` conform to the annotation `ann`?  Plain recursion over typing.get_origin/get_args."""
    if ann is typing.Any:
        return True
    if id(ann) in V.VALID_REGISTRY and V.VALID_REGISTRY[id(ann)][0] is ann:
        return bool(V.VALID_PRED[V.VALID_REGISTRY[id(ann)][1]](value))   # not the library's isinstance hook
    if id(ann) in _REF_PRED and _REF_PRED[id(ann)][0] is ann:
        return bool(_REF_PRED[id(ann)][1](value))                        # (validated types of `extra_nested`)
    if ann is None or ann is type(None):
        return value is None
    origin = typing.get_origin(ann)
    args = typing.get_args(ann)
    if origin is typing.Union:
        return any(ref_conforms(value, a) for a in args)
    if origin is typing.Literal:
        return any(type(value) in (bool, int, float, str, type(None)) and value == a for a in args)
    if origin in (list, set, frozenset, collections.abc.MutableSequence, collections.abc.MutableSet,
                  collections.abc.Sequence, collections.abc.Set):
        if isinstance(value, (str, bytes)):
            return False
        return isinstance(value, origin) and all(ref_conforms(x, args[0]) for x in value) if args else isinstance(value, origin)
    if origin in (dict, collections.abc.MutableMapping, collections.abc.Mapping):
        if not isinstance(value, origin):
            return False
        return all(ref_conforms(k, args[0]) and ref_conforms(x, args[1]) for k, x in value.items()) if args else True
    if origin is tuple:
        if not isinstance(value, tuple):
            return False
        if len(args) == 2 and args[1] is Ellipsis:
            return all(ref_conforms(x, args[0]) for x in value)
        return len(value) == len(args) and all(ref_conforms(x, a) for x, a in zip(value, args))
    if ann is float:
        return isinstance(value, (int, float))
    if isinstance(ann, type):
        return isinstance(value, ann)
    return True


def annotations_of(fam, classes, cid):
    return {ad["name"]: V.ty_real(ad["ty"], classes) for ad in V.effective_attrs(fam, cid)}


def instances_in(v, seen=None):
    """every spec instance reachable from `v` through managed attributes and plain containers"""
    seen = [] if seen is None else seen
    if V.is_spec_instance(v):
        if any(v is s for s in seen):
            return seen
        seen.append(v)
        for a in type(v).__verif_attrs__:
            x = v.__dict__.get(attr_name(a), V.S("MISSING"))
            if x is not V.S("MISSING"):
                instances_in(x, seen)
    elif isinstance(v, (list, set, frozenset, tuple)):
        for x in v:
            instances_in(x, seen)
    elif isinstance(v, dict):
        for k, x in v.items():
            instances_in(k, seen)
            instances_in(x, seen)
    return seen


def ill_typed(fam, classes, roots):
    """[(instance, attribute, value)] for every managed attribute of every live instance that does not conform"""
    out = []
    seen = []
    for r in roots:
        instances_in(r, seen)
    for obj in seen:
        ann = annotations_of(fam, classes, type(obj).__verif_id__)
        for a, t in ann.items():
            x = obj.__dict__.get(attr_name(a), V.S("MISSING"))
            if x is V.S("MISSING"):
                continue
            if not ref_conforms(x, t):
                out.append((obj, a, x))
    return out


def wt_bits(fam, classes, recv, ret):
    a = "0" if ill_typed(fam, classes, [recv]) else "1"
    b = "0" if ill_typed(fam, classes, [ret]) else "1"
    return a + b


def real_family(case):
    """(family description the reference checker / call helpers read, real classes) of a case"""
    fam = case["family"]
    if is_boot(fam):
        return b_flat(fam), b_build(fam)      # fresh classes for every run: what is bootstrapped when is part of the case
    return fam, V.build_family(fam)


_OBS = {}


def observe(case):
    """
    ONE execution of the case on the real classes, looked at twice: (protocol lines for the comparison with the model,
    violations of the property text).  The second reading is the oracle's: what a call tagged `bad` may do, nothing
    stored by a call that raised, and the reference checker over every live instance after every call.
    """
    fam, classes = real_family(case)
    out = ["ok"] * header_len(case)
    viol = []
    live = []
    segs = segments(case)
    for si, seg in enumerate(segs):
        where = "" if si == len(segs) - 1 else f"[used before: C{seg['cls']}] "
        try:
            recv = C5.construct_real(classes, seg)
            out.append("ok ;; " + show(recv) + " ;; wt=" + wt_bits(fam, classes, recv, recv))
        except Exception as e:
            recv = None
            out.append(f"err {V.err_name(e)} ;; N ;; wt=11")
            if seg.get("init_bad") and V.err_name(e) not in ("TypeError", "ValueError"):
                viol.append(f"{where}constructor with a non-conforming keyword raised {V.err_name(e)}")
        if recv is not None:
            if seg.get("init_bad"):
                viol.append(f"{where}constructor accepted a non-conforming keyword / default: {C5.kw_tokens(seg['init'])} -> {show(recv)}")
            live.append(recv)
            for obj, a, x in ill_typed(fam, classes, live):
                viol.append(f"{where}after construction: C{type(obj).__verif_id__}.a{a} holds {show(x)}")
        for n, op in enumerate(seg["ops"]):
            if recv is None:
                out.append("err AttributeError ;; N ;; wt=11")
                continue
            watch = len(viol) <= 6
            pre = show(recv)
            pre_all = [show(o) for o in live] if watch and op.get("bad") else None
            ret = err = None
            try:
                ret = call_real(classes, fam, recv, op)
                line = ("self" if ret is recv else "new " + show(ret)) + " ;; " + show(recv)
                line += " ;; wt=" + wt_bits(fam, classes, recv, ret)
            except Exception as e:
                err = V.err_name(e)
                line = f"err {err} ;; " + show(recv) + " ;; wt=" + wt_bits(fam, classes, recv, recv)
            out.append(line)
            if watch:
                label = f"{where}op#{n} {op_line(op)} from {pre}"
                if op.get("bad"):
                    if err is None:
                        viol.append(f"{label}: a non-conforming {op['bad']} was accepted (result {show(ret)})")
                    elif err not in ("TypeError", "ValueError"):
                        viol.append(f"{label}: a non-conforming {op['bad']} raised {err}, not TypeError/ValueError")
                    if err is not None and [show(o) for o in live] != pre_all:
                        viol.append(f"{label}: raised {err} but something was stored: {show(recv)}")
                if ret is not None and V.is_spec_instance(ret) and not any(ret is o for o in live):
                    live.append(ret)
                roots = live + ([ret] if ret is not None else [])
                for obj, a, x in ill_typed(fam, classes, roots):
                    viol.append(f"{label}: afterwards C{type(obj).__verif_id__}.a{a} holds {show(x)}")
            if err is None and "a" in op.get("fl", "") and ret is not recv and V.is_spec_instance(ret):
                recv = ret
    return out, viol


def real_lines(case):
    if is_extra_case(case):
        return ["ok"]
    out, viol = observe(case)
    if len(_OBS) > 64:
        _OBS.clear()
    _OBS[id(case)] = (case, viol)       # (the oracle of the same case object reads the same execution)
    return out


# ---------------------------------------------------------------------------
# oracle: the property text, on the real code only
# ---------------------------------------------------------------------------


def oracle(case):
    if is_extra_case(case):
        probe = case.get("nested")
        if not isinstance(probe, dict) or "route" not in probe:
            return []       # (the other parts of `extra()` describe their probes in prose only)
        import random as _random

        return nested_probe(nested_classes(), _random.Random(0), probe)[1]
    hit = _OBS.pop(id(case), None)
    if hit is not None and hit[0] is case:
        return hit[1]
    return observe(case)[1]


# ---------------------------------------------------------------------------
# bookkeeping
# ---------------------------------------------------------------------------


def nontrivial(case, real):
    keys = []
    segs = segments(case)
    for j, si, oi in seg_layout(case):
        if oi is None:
            continue
        if j >= len(real):
            break
        op = segs[si]["ops"][oi]
        pre = real[j - 1].split(" ;; ")[1] if " ;; " in real[j - 1] else ""
        parts = real[j].split(" ;; ")
        if parts[0] != "self" or (len(parts) > 1 and parts[1] != pre):
            keys.append((case["fname"], pre, op_line(op)) + ((f"after:{boot_order_tag(case)}",) if case.get("pre") else ()))
    return keys


def boot_order_tag(case):
    return ">".join(f"C{seg['cls']}" for seg in case.get("pre") or []) or "-"


def tags(case, real):
    t = [f"stream:{case.get('stream')}", f"family:{case['fname'][:3]}", f"class:C{case['cls']}" if case["fname"] in ("elem", "falsy", "abs", "desc", "baddef", "nest") else "class:*"]
    base = header_len(case) + sum(1 + len(seg["ops"]) for seg in case.get("pre") or [])
    if is_boot(case["family"]):
        t.append("boot-first-use:" + ("none-before" if not case.get("pre") else f"{len(case['pre'])}-before"))
        t += [f"boot-options:{o}" for o in boot_option_tags(case["family"], case["cls"])]
    t.append("ctor:" + real[base].split(" ")[0] + (":bad-keyword" if case.get("init_bad") else ""))
    if real[base].startswith("err"):
        return t
    for i, op in enumerate(case["ops"]):
        j = base + 1 + i
        if j >= len(real):
            break
        head = real[j].split(" ;; ")[0].split(" ")
        t.append(f"route:{op['k']}")
        if op.get("bad"):
            t.append(f"bad:{op['k']}:{op['bad']}")
            t.append(f"bad-outcome:{head[0] if head[0] != 'err' else head[1]}")
        t.append("out:" + (head[0] if head[0] != "err" else "err:" + head[1]))
    return t


def shrink(case, at=None):
    if is_extra_case(case):
        return
    ops = case["ops"]
    pre = case.get("pre") or []
    base = header_len(case) + sum(1 + len(seg["ops"]) for seg in pre) + 1
    if at is not None and at >= base:
        yield {**case, "ops": ops[: at - base + 1]}
    for i in range(len(ops)):
        yield {**case, "ops": ops[:i] + ops[i + 1:]}
    # the classes used before: fewer of them, fewer calls on them
    for i in range(len(pre)):
        yield {**case, "pre": pre[:i] + pre[i + 1:]}
    for i, seg in enumerate(pre):
        if seg["ops"]:
            yield {**case, "pre": pre[:i] + [dict(seg, ops=[])] + pre[i + 1:]}


# ---------------------------------------------------------------------------
# pre-built Keyed containers (outside the line protocol: not in the Lean model, real code + reference checker)
# ---------------------------------------------------------------------------
# `check_type(value, KeyedList[Item, str])` only looks at the container class; what keeps wrong items out is the
# per-item preparation pass of `CollectionAttrMutator.prepare()`.  Every whole-attribute route is exercised with
# pre-built (unparameterised) KeyedList / KeyedSet / list / set values holding good items, bare keys and ONE
# wrong-typed item at each position.

_KEYED = {}


def keyed_classes():
    if _KEYED.get("mod") is V.S("mod"):
        return _KEYED
    from spec_classes import Attr, spec_class
    from spec_classes.types import KeyedList, KeyedSet

    @spec_class(key="k", bootstrap=True)
    class It:
        k: str
        v: int = 0

    @spec_class(bootstrap=True)
    class Host:
        kl: KeyedList[It, str]
        ks: KeyedSet[It, str]
        n: int = 0

    @spec_class(bootstrap=True, do_not_copy=["n"])
    class HostSub(Host):
        n = 3
        m: int = 1

    class HostPlain(HostSub):
        n = 4

    _KEYED.clear()
    _KEYED.update(mod=V.S("mod"), It=It, Host=Host, HostSub=HostSub, HostPlain=HostPlain, KeyedList=KeyedList,
                  KeyedSet=KeyedSet)
    return _KEYED


def keyed_ok(K, host):
    """reference check of a Host instance: [] or the list of complaints"""
    out = []
    for name, klass in (("kl", K["KeyedList"]), ("ks", K["KeyedSet"])):
        v = host.__dict__.get(name, V.S("MISSING"))
        if v is V.S("MISSING"):
            continue
        if not isinstance(v, klass):
            out.append(f"{name} holds a {type(v).__name__}")
            continue
        for item in list(v):
            if not isinstance(item, K["It"]):
                out.append(f"{name} contains {item!r}")
            elif not isinstance(item.__dict__.get("k"), str) or not isinstance(item.__dict__.get("v", 0), int):
                out.append(f"{name} contains the ill-typed item {item!r}")
    for name in ("n", "m"):
        v = host.__dict__.get(name, 0)
        if not isinstance(v, int):
            out.append(f"{name} holds {v!r}")
    return out


def keyed_state(host):
    def items(v):
        if v is V.S("MISSING"):
            return "M"
        xs = [f"{i.k}:{i.v}" if hasattr(i, "__spec_class__") else repr(i) for i in v]
        return type(v).__name__ + "[" + ",".join(xs if "List" in type(v).__name__ else sorted(xs)) + "]"

    return "|".join(items(host.__dict__.get(n, V.S("MISSING"))) for n in ("kl", "ks")) + f"|{host.__dict__.get('n')}"


WRONG_ITEMS = [5, None, (1, 2), 2.5, ["a"], True]


def extra_keyed(tier, rng):
    K = keyed_classes()
    It, KL, KS = K["It"], K["KeyedList"], K["KeyedSet"]
    viol = []
    evals = 0
    nontriv = set()
    hist = {}
    routes = ["ctor", "set", "with", "transform", "update_attr", "update", "transform_top"]
    reps = 2 if tier == "quick" else 12
    for _ in range(reps):
        for cls_name in ("Host", "HostSub", "HostPlain"):
            cls = K[cls_name]
            for attr, prebuilt in (("kl", KL), ("ks", KS)):
                for kind in ("prebuilt", "plain"):
                    for content in ("good", "bare", "mixed", "wrong"):
                        for route in routes:
                            n = rng.randint(1, 3)
                            keys = rng.sample(["a", "b", "c", "d"], n)
                            pos = rng.randrange(n)
                            items = []
                            for i, k in enumerate(keys):
                                if content == "good":
                                    items.append(It(k, v=i))
                                elif content == "bare":
                                    items.append(k)
                                elif content == "mixed":
                                    items.append(k if i % 2 == 0 else It(k, v=i))
                                else:
                                    items.append(It(k, v=i) if i != pos else None)
                            wrong = None
                            if content == "wrong":
                                wrong = rng.choice(WRONG_ITEMS if attr == "kl" or kind == "plain" else [5, None, (1, 2), 2.5, True])
                                if attr == "ks" and kind == "plain" and isinstance(wrong, list):
                                    wrong = 5
                                items[pos] = wrong
                            try:
                                if kind == "prebuilt":
                                    value = prebuilt(items, key=(lambda x: x.k if hasattr(x, "__spec_class__") else (
                                        x if isinstance(x, str) else repr(x))))
                                else:
                                    value = list(items) if attr == "kl" else set(items)
                            except Exception:
                                continue  # the container itself cannot be built (not the library under test)
                            host = cls(kl=[It("z")], ks=[It("z")]) if route != "ctor" else None
                            pre = keyed_state(host) if host is not None else None
                            desc = f"{cls_name}.{attr} via {route}: {kind} container, {content} items {items!r}"
                            err = None
                            res = None
                            try:
                                if route == "ctor":
                                    res = cls(**{attr: value})
                                elif route == "set":
                                    setattr(host, attr, value)
                                    res = host
                                elif route == "with":
                                    res = getattr(host, f"with_{attr}")(value, _inplace=rng.random() < 0.5)
                                elif route == "transform":
                                    res = getattr(host, f"transform_{attr}")(lambda old: value, _inplace=rng.random() < 0.5)
                                elif route == "update_attr":
                                    res = getattr(host, f"update_{attr}")(value, _inplace=rng.random() < 0.5)
                                elif route == "update":
                                    res = host.update(**{attr: value}, _inplace=rng.random() < 0.5)
                                else:
                                    res = host.transform(**{attr: (lambda old: value)}, _inplace=rng.random() < 0.5)
                            except Exception as e:
                                err = V.err_name(e)
                            evals += 1
                            hist[f"keyed:{route}:{content}:{err or 'ok'}"] = hist.get(f"keyed:{route}:{content}:{err or 'ok'}", 0) + 1
                            nontriv.add((cls_name, attr, kind, content, route, n, pos, repr(wrong)))
                            v = []
                            if content == "wrong":
                                if err is None:
                                    v.append(f"{desc}: accepted; result {keyed_state(res)}")
                                elif err not in ("TypeError", "ValueError"):
                                    v.append(f"{desc}: raised {err}, not TypeError/ValueError")
                                if host is not None and keyed_state(host) != pre:
                                    v.append(f"{desc}: raised {err} but the receiver changed to {keyed_state(host)}")
                            else:
                                if err is not None:
                                    v.append(f"{desc}: raised {err}")
                                else:
                                    got = [i.k for i in res.__dict__[attr] if hasattr(i, "__spec_class__")]
                                    if sorted(got) != sorted(keys) or (attr == "kl" and got != keys):
                                        v.append(f"{desc}: stored keys {got}")
                            for o in [x for x in (host, res) if x is not None and hasattr(x, "__spec_class__")]:
                                for c in keyed_ok(K, o):
                                    v.append(f"{desc}: afterwards {c}")
                            if v:
                                viol.append({"case": {"keyed": desc}, "violation": v})
    return {"evaluations": evals, "nontrivial": sorted(nontriv, key=repr), "violations": viol[:20],
            "info": {"keyed_container_routes": evals, "keyed_histogram": dict(sorted(hist.items()))}}


# ---------------------------------------------------------------------------
# more container classes `check_type` does not look inside (outside the line protocol): KeyedSet / KeyedList of scalars
# and of UNKEYED spec instances (no key type to cast from), other MutableMapping classes
# ---------------------------------------------------------------------------

_OPAQUE = {}


def opaque_classes():
    if _OPAQUE.get("mod") is V.S("mod"):
        return _OPAQUE
    import collections
    from typing import MutableMapping

    from spec_classes import spec_class
    from spec_classes.types import KeyedList, KeyedSet

    @spec_class(bootstrap=True)
    class Pl:
        v: int = 0

    @spec_class(bootstrap=True)
    class Reg:
        tags: KeyedSet[str, str]
        ports: KeyedList[int, int]
        pls: KeyedList[Pl, int]
        wts: MutableMapping[str, int]
        n: int = 0

    class RegP(Reg):
        n = 2

    @spec_class(bootstrap=True)
    class RegS(Reg):
        m: int = 1

    _OPAQUE.clear()
    _OPAQUE.update(mod=V.S("mod"), Pl=Pl, Reg=Reg, RegP=RegP, RegS=RegS, KeyedList=KeyedList, KeyedSet=KeyedSet,
                   OrderedDict=collections.OrderedDict, MutableMapping=MutableMapping)
    return _OPAQUE


def _plkey(x):
    return x.v if hasattr(x, "__spec_class__") else repr(x)


def reg_ok(O, reg):
    out = []
    d = reg.__dict__
    if "tags" in d and not (isinstance(d["tags"], O["KeyedSet"]) and all(type(t) is str for t in d["tags"])):
        out.append(f"tags holds {list(d['tags'])!r}")
    if "ports" in d and not (isinstance(d["ports"], O["KeyedList"]) and all(isinstance(t, int) for t in d["ports"])):
        out.append(f"ports holds {list(d['ports'])!r}")
    if "pls" in d and not (isinstance(d["pls"], O["KeyedList"]) and all(
            isinstance(t, O["Pl"]) and isinstance(t.__dict__.get("v", 0), int) for t in d["pls"])):
        out.append(f"pls holds {list(d['pls'])!r}")
    if "wts" in d and not (isinstance(d["wts"], collections.abc.MutableMapping) and all(
            type(k) is str and isinstance(x, int) for k, x in d["wts"].items())):
        out.append(f"wts holds {dict(d['wts'])!r}")
    for name in ("n", "m"):
        if not isinstance(d.get(name, 0), int):
            out.append(f"{name} holds {d[name]!r}")
    return out


def reg_state(reg):
    d = reg.__dict__

    def one(name):
        if name not in d:
            return "M"
        v = d[name]
        xs = [repr(_plkey(i)) if hasattr(i, "__spec_class__") else repr(i) for i in (v.items() if name == "wts" else v)]
        return type(v).__name__ + "[" + ",".join(sorted(xs) if name in ("tags",) else xs) + "]"

    return "|".join(one(n) for n in ("tags", "ports", "pls", "wts")) + f"|{d.get('n')}"


ROUTES7 = ["ctor", "set", "with", "transform", "update_attr", "update", "transform_top"]


def call_route(rng, cls, host, attr, value, route):
    """send `value` to `attr` through one whole-attribute route; returns the object that now should hold it"""
    inplace = rng.random() < 0.5
    if route == "ctor":
        return cls(**{attr: value})
    if route == "set":
        setattr(host, attr, value)
        return host
    if route == "with":
        return getattr(host, f"with_{attr}")(value, _inplace=inplace)
    if route == "transform":
        return getattr(host, f"transform_{attr}")(lambda old: value, _inplace=inplace)
    if route == "update_attr":
        return getattr(host, f"update_{attr}")(value, _inplace=inplace)
    if route == "update":
        return host.update(**{attr: value}, _inplace=inplace)
    return host.transform(**{attr: (lambda old: value)}, _inplace=inplace)


def extra_opaque(tier, rng):
    O = opaque_classes()
    Pl, KL, KS, OD = O["Pl"], O["KeyedList"], O["KeyedSet"], O["OrderedDict"]
    viol, evals, nontriv, hist = [], 0, set(), {}
    good_items = {"tags": ["a", "b", "c", ""], "ports": [80, 443, 0, 22], "pls": None, "wts": None}
    wrong_items = {"tags": [5, None, 2.5, (1, 2)], "ports": ["http", None, 2.5, (1,)], "pls": [5, None, "x", 2.5]}
    reps = 1 if tier == "quick" else 8
    for _ in range(reps):
        for cls_name in ("Reg", "RegP", "RegS"):
            cls = O[cls_name]
            for attr in ("tags", "ports", "pls", "wts"):
                for kind in ("prebuilt", "plain"):
                    if attr == "pls" and kind == "plain":
                        continue    # (rebuilding needs a key function: unkeyed items cannot be re-keyed by the library)
                    for content in ("good", "wrong"):
                        for route in ROUTES7:
                            n = rng.randint(1, 3)
                            pos = rng.randrange(n)
                            wrong = None
                            if attr == "wts":
                                keys = rng.sample(["a", "b", "c", ""], n)
                                d = {k: i for i, k in enumerate(keys)}
                                if content == "wrong":
                                    if rng.random() < 0.5:
                                        wrong = ("key", rng.choice([5, None, 2.5]))
                                        d = {(wrong[1] if i == pos else k): x for i, (k, x) in enumerate(d.items())}
                                    else:
                                        wrong = ("value", rng.choice(["x", None, 2.5]))
                                        d[keys[pos]] = wrong[1]
                                value = OD(d) if kind == "prebuilt" else d
                                want = list(d.items())
                            else:
                                items = ([Pl(v=i) for i in rng.sample(range(6), n)] if attr == "pls"
                                         else rng.sample(good_items[attr], n))
                                if content == "wrong":
                                    wrong = rng.choice(wrong_items[attr])
                                    items[pos] = wrong
                                try:
                                    if kind == "prebuilt":
                                        value = (KS if attr == "tags" else KL)(items, key=_plkey if attr == "pls" else None)
                                    else:
                                        value = set(items) if attr == "tags" else list(items)
                                except Exception:
                                    continue
                                want = items
                            host = None
                            if route != "ctor":
                                host = cls(tags=KS(["z"]), ports=KL([1]), pls=KL([Pl(v=9)], key=_plkey), wts={"z": 0})
                            pre = reg_state(host) if host is not None else None
                            desc = f"{cls_name}.{attr} via {route}: {kind} container, {content} content {want!r}"
                            err = res = None
                            try:
                                res = call_route(rng, cls, host, attr, value, route)
                            except Exception as e:
                                err = V.err_name(e)
                            evals += 1
                            hk = f"opaque:{attr}:{route}:{content}:{err or 'ok'}"
                            hist[hk] = hist.get(hk, 0) + 1
                            nontriv.add((cls_name, attr, kind, content, route, n, pos, repr(wrong)))
                            v = []
                            if content == "wrong":
                                if err is None:
                                    v.append(f"{desc}: accepted; result {reg_state(res)}")
                                elif err not in ("TypeError", "ValueError"):
                                    v.append(f"{desc}: raised {err}, not TypeError/ValueError")
                                if err is not None and host is not None and reg_state(host) != pre:
                                    v.append(f"{desc}: raised {err} but the receiver changed to {reg_state(host)}")
                            elif err is not None:
                                v.append(f"{desc}: raised {err}")
                            else:
                                got = res.__dict__[attr]
                                got = list(got.items()) if attr == "wts" else list(got)
                                same = (sorted(map(repr, got)) == sorted(map(repr, want))) if attr in ("tags", "wts") else (
                                    [_plkey(x) for x in got] == [_plkey(x) for x in want])
                                if not same:
                                    v.append(f"{desc}: stored {got!r}")
                            for o in [x for x in (host, res) if x is not None and hasattr(x, "__spec_class__")]:
                                for c in reg_ok(O, o):
                                    v.append(f"{desc}: afterwards {c}")
                            if v:
                                viol.append({"case": {"opaque": desc}, "violation": v})
    return {"evaluations": evals, "nontrivial": sorted(nontriv, key=repr), "violations": viol[:20],
            "info": {"opaque_container_routes": evals, "opaque_histogram": dict(sorted(hist.items()))}}


# ---------------------------------------------------------------------------
# managed attributes masked by other descriptor kinds (outside the line protocol): cached spec_property, Alias (local
# override and passthrough), DeprecatedAlias, plain `property` with a setter -- values assigned to them ("overrides")
# must conform like those of any other attribute; and `invalidated_by` dependants whose default does not conform
# ---------------------------------------------------------------------------

_DESC = {}


def desc_classes():
    if _DESC.get("mod") is V.S("mod"):
        return _DESC
    from typing import List, Optional

    from typing_extensions import Literal

    from spec_classes import Alias, Attr, DeprecatedAlias, spec_class, spec_property

    @spec_class(bootstrap=True)
    class In:
        x: int = 0

    @spec_class(bootstrap=True)
    class Srv:
        host: str = "h"
        port: int = 8000
        workers: int
        mode: Literal["dev", "prod"]
        label: Optional[str] = Alias("host")
        alt: int = Alias("port", passthrough=True)
        old: int = DeprecatedAlias("port")
        lim: int
        hosts: List[str]
        inner: In

        @spec_property
        def workers(self):
            return 4 if self.port == 80 else 1

        @spec_property(cache=True)
        def mode(self):
            return "prod" if self.port == 80 else "dev"

        @spec_property(cache=True)
        def hosts(self):
            return ["a"]

        @spec_property
        def inner(self):
            return In()

        @property
        def lim(self):
            return self.__dict__.get("_lim", 3)

        @lim.setter
        def lim(self, v):
            self.__dict__["_lim"] = v

    class SrvP(Srv):
        port = 1

    @spec_class(bootstrap=True)
    class SrvS(Srv):
        more: int = 0

    @spec_class(bootstrap=True)
    class Inv:
        src: int = 0
        dep: int = Attr(default=None, invalidated_by=["src"])                          # does not conform
        depf: List[str] = Attr(default_factory=lambda: ["a", 0], invalidated_by=["src"])   # one wrong element
        fine: int = Attr(default=5, invalidated_by=["src"])

    _DESC.clear()
    _DESC.update(mod=V.S("mod"), In=In, Srv=Srv, SrvP=SrvP, SrvS=SrvS, Inv=Inv)
    return _DESC


def srv_ok(D, obj):
    preds = {
        "host": lambda v: isinstance(v, str), "port": lambda v: isinstance(v, int),
        "workers": lambda v: isinstance(v, int), "mode": lambda v: type(v) is str and v in ("dev", "prod"),
        "label": lambda v: v is None or isinstance(v, str), "alt": lambda v: isinstance(v, int),
        "old": lambda v: isinstance(v, int), "lim": lambda v: isinstance(v, int),
        "hosts": lambda v: isinstance(v, list) and all(isinstance(x, str) for x in v),
        "inner": lambda v: isinstance(v, D["In"]) and isinstance(v.__dict__.get("x", 0), int),
        "more": lambda v: isinstance(v, int),
    }
    out = []
    for attr in type(obj).__spec_class__.attrs:
        try:
            value = getattr(obj, attr)
        except AttributeError:
            continue
        except Exception as e:          # a getter whose result is rejected: nothing is held
            out.append(f"reading {attr} raised {type(e).__name__}")
            continue
        if attr in preds and not preds[attr](value):
            out.append(f"{type(obj).__name__}.{attr} == {value!r}")
    return out


def srv_state(obj):
    return repr(sorted((k, repr(v)) for k, v in obj.__dict__.items()))


def extra_desc(tier, rng):
    import warnings

    D = desc_classes()
    In = D["In"]
    good = {"workers": [8, 0], "mode": ["prod", "dev"], "label": [None, "", "lbl"], "alt": [1, 0], "old": [2], "lim": [0, 7],
            "hosts": [[], ["b", "c"]], "inner": [lambda: In(x=3), lambda: {"x": 4}]}
    wrong = {"workers": ["many", None, 2.5], "mode": ["staging", 5, None, ""], "label": [42, 2.5, ["a"]], "alt": ["x", None],
             "old": ["x", None], "lim": ["x", None, 2.5], "hosts": [[1], ["a", 5], 5], "inner": [5, "x", lambda: {"x": "bad"}]}
    viol, evals, nontriv, hist = [], 0, set(), {}
    reps = 1 if tier == "quick" else 6
    with warnings.catch_warnings():
        warnings.simplefilter("ignore")
        for _ in range(reps):
            for cls_name in ("Srv", "SrvP", "SrvS"):
                cls = D[cls_name]
                for attr in good:
                    for content in ("good", "wrong"):
                        for route in ROUTES7:
                            for warm in (False, True):
                                pool = good[attr] if content == "good" else wrong[attr]
                                value = rng.choice(pool)
                                value = value() if callable(value) else value
                                host = cls() if route != "ctor" else None
                                if host is not None and warm:
                                    # derived values already read (caches filled), an earlier valid override in place
                                    srv_ok(D, host)
                                    g = rng.choice(good[attr])
                                    setattr(host, attr, g() if callable(g) else g)
                                pre = srv_state(host) if host is not None else None
                                desc = f"{cls_name}.{attr} via {route}{' (warm)' if warm else ''}: {content} value {value!r}"
                                err = res = None
                                try:
                                    res = call_route(rng, cls, host, attr, value, route)
                                except Exception as e:
                                    err = V.err_name(e)
                                evals += 1
                                hk = f"desc:{attr}:{route}:{content}:{err or 'ok'}"
                                hist[hk] = hist.get(hk, 0) + 1
                                nontriv.add((cls_name, attr, content, route, warm, repr(value)))
                                v = []
                                if content == "wrong":
                                    if err is None:
                                        v.append(f"{desc}: accepted")
                                    elif err not in ("TypeError", "ValueError"):
                                        v.append(f"{desc}: raised {err}, not TypeError/ValueError")
                                    if host is not None and warm and srv_state(host) != pre:
                                        # (not warm: reading a cached property on the way fills its cache, legitimately)
                                        v.append(f"{desc}: raised {err} but the receiver changed")
                                elif err is not None:
                                    v.append(f"{desc}: raised {err}")
                                else:
                                    got = getattr(res, attr)
                                    exp = value
                                    if attr == "inner":
                                        got, exp = got.x, (value["x"] if isinstance(value, dict) else value.x)
                                    if got != exp:
                                        v.append(f"{desc}: reads back {got!r}")
                                for o in [x for x in (host, res) if x is not None and hasattr(x, "__spec_class__")]:
                                    for c in srv_ok(D, o):
                                        v.append(f"{desc}: afterwards {c}")
                                if v:
                                    viol.append({"case": {"descriptor": desc}, "violation": v})
            # dependants with non-conforming defaults: writing the source must not establish them
            Inv = D["Inv"]
            for route in ROUTES7[1:] + ["reset_src", "del_src"]:
                for inplace_hint in (0, 1):
                    host = Inv(dep=1, depf=["x"], fine=9)
                    desc = f"Inv.src via {route}: dependants dep / depf have non-conforming defaults"
                    err = res = None
                    try:
                        if route == "reset_src":
                            res = host.reset_src(_inplace=bool(inplace_hint))
                        elif route == "del_src":
                            del host.src
                            res = host
                        else:
                            res = call_route(rng, Inv, host, "src", rng.choice([3, 0]), route)
                    except Exception as e:
                        err = V.err_name(e)
                    evals += 1
                    hk = f"inv-bad-default:{route}:{err or 'ok'}"
                    hist[hk] = hist.get(hk, 0) + 1
                    nontriv.add(("Inv", route, inplace_hint))
                    v = []
                    if err is not None and err not in ("TypeError", "ValueError"):
                        v.append(f"{desc}: raised {err}")
                    for o in [x for x in (host, res) if x is not None]:
                        dd = o.__dict__
                        if "dep" in dd and not isinstance(dd["dep"], int):
                            v.append(f"{desc}: afterwards dep holds {dd['dep']!r}")
                        if "depf" in dd and not (isinstance(dd["depf"], list) and all(isinstance(x, str) for x in dd["depf"])):
                            v.append(f"{desc}: afterwards depf holds {dd['depf']!r}")
                    if v:
                        viol.append({"case": {"descriptor": desc}, "violation": v})
    return {"evaluations": evals, "nontrivial": sorted(nontriv, key=repr), "violations": viol[:20],
            "info": {"descriptor_routes": evals, "descriptor_histogram": dict(sorted(hist.items()))}}


# ---------------------------------------------------------------------------
# tuple generics and other nestings (outside the line protocol: tuples are not in the Lean model; real code + reference
# checker).  Validated element types below the level the collection mutators walk: Tuple[V, ...], Tuple[V, W],
# Optional[Tuple[...]], List[Tuple[...]], Dict[str, Tuple[...]], Tuple[Tuple[...], ...], Tuple[List[V], ...],
# Optional[List[V]], Dict[str, List[V]], List[Set[V]], Optional[Set[V]], Optional[Dict[V, W]], Union[List[V], Tuple[W, ...]].
# Every route x every nesting x the position of the ONE non-conforming leaf among conforming neighbours of the same
# Python class (first / last / anywhere, on every level) x conforming and non-conforming values alternating in one
# process (the type objects are shared by all calls).
# ---------------------------------------------------------------------------

_NEST = {}

# leaf name -> (conforming values, non-conforming values OF THE SAME PYTHON CLASSES); "str" is the plain class
NEST_LEAVES = {
    "pos": ([1, 2, 3, 7, 10**6], [0, -1, -5]),
    "frac": ([0.5, 1.0, 0.0, 0.25, 1, 0], [1.5, -0.25, 2, -1, 1e9]),
    "low": (["a", "ok", "b", "zz", "lower"], ["NOT_OK", "Upper", "", "A"]),
    "even": ([0, 2, -4, 20], [1, 3, 13, -7]),
    "str": (["x", "y", "z", "w"], [1, None, 2.5]),
}

NEST_ATTRS = {
    "shape": ("tup", "pos"),
    "pair": ("tupfix", ["pos", "low"]),
    "span": ("tupfix", ["pos", "pos", "pos"]),
    "oshape": ("opt", ("tup", "frac")),
    "rows": ("list", ("tup", "pos")),
    "named": ("dict", "str", ("tup", "frac")),
    "grid": ("tup", ("tup", "pos")),
    "tl": ("tup", ("list", "even")),
    "weights": ("opt", ("list", "frac")),
    "strides": ("dict", "str", ("list", "pos")),
    "labels": ("list", ("set", "low")),
    "olabels": ("opt", ("set", "low")),
    "bykey": ("opt", ("dict", "low", "pos")),
    "either": ("union", ("list", "pos"), ("tup", "low")),
    "recs": ("opt", ("list", ("tupfix", ["low", "pos"]))),
    "deep": ("opt", ("list", ("list", "even"))),
    "sizes": ("list", "pos"),
    "tags": ("set", "low"),
}


def nested_classes():
    if _NEST.get("mod") is V.S("mod"):
        return _NEST
    from typing import Dict, List, Optional, Set, Tuple, Union

    from spec_classes import spec_class
    from spec_classes.types import bounded, validated

    leaf = {
        "pos": (bounded(int, gt=0), lambda v: type(v) is int and v > 0),
        "frac": (bounded(float, ge=0, le=1), lambda v: type(v) in (int, float) and 0 <= v <= 1),
        "low": (validated(lambda o: isinstance(o, str) and o.islower(), "lowercase"), lambda v: type(v) is str and v.islower()),
        "even": (validated(lambda o: type(o) is int and o % 2 == 0, "even"), lambda v: type(v) is int and v % 2 == 0),
    }
    for t, pred in leaf.values():
        _REF_PRED[id(t)] = (t, pred)

    def real(ast):
        if isinstance(ast, str):
            return str if ast == "str" else leaf[ast][0]
        k = ast[0]
        if k == "tup":
            return Tuple[real(ast[1]), ...]
        if k == "tupfix":
            return Tuple[tuple(real(x) for x in ast[1])]
        if k == "list":
            return List[real(ast[1])]
        if k == "set":
            return Set[real(ast[1])]
        if k == "dict":
            return Dict[real(ast[1]), real(ast[2])]
        if k == "opt":
            return Optional[real(ast[1])]
        if k == "union":
            return Union[real(ast[1]), real(ast[2])]
        raise ValueError(ast)

    ann = {name: real(ast) for name, ast in NEST_ATTRS.items()}
    Grid = spec_class(bootstrap=True)(type("Grid", (), {"__annotations__": dict(ann, n=int), "n": 0, "__module__": "verif_nested"}))

    class GridP(Grid):
        n = 4

    GridS = spec_class(bootstrap=True)(type("GridS", (Grid,), {"__annotations__": {"m": int}, "m": 1, "__module__": "verif_nested"}))
    _NEST.clear()
    _NEST.update(mod=V.S("mod"), Grid=Grid, GridP=GridP, GridS=GridS, ann=ann, leaf=leaf)
    return _NEST


def nest_good_py(rng, ast):
    if isinstance(ast, str):
        return rng.choice(NEST_LEAVES[ast][0])
    k = ast[0]
    if k in ("tup", "list"):
        xs = [nest_good_py(rng, ast[1]) for _ in range(rng.randint(1, 3))]
        return tuple(xs) if k == "tup" else xs
    if k == "tupfix":
        return tuple(nest_good_py(rng, x) for x in ast[1])
    if k == "set":
        return {nest_good_py(rng, ast[1]) for _ in range(rng.randint(1, 4))}
    if k == "dict":
        return {nest_good_py(rng, ast[1]): nest_good_py(rng, ast[2]) for _ in range(rng.randint(1, 3))}
    if k == "opt":
        return None if rng.random() < 0.15 else nest_good_py(rng, ast[1])
    return nest_good_py(rng, rng.choice(ast[1:]))


def nest_bad_py(rng, ast, place):
    """a value shaped like `ast` with exactly ONE non-conforming leaf (same class as its conforming neighbours)"""
    if isinstance(ast, str):
        return rng.choice(NEST_LEAVES[ast][1])
    k = ast[0]
    if k in ("tup", "list"):
        sib = [nest_good_py(rng, ast[1]) for _ in range(n_siblings(rng, place))]
        pos = place_index(rng, place, len(sib))
        be = nest_bad_py(rng, ast[1], place)
        if type(sib[0]) is int and ast[1] in ("pos", "even") and rng.random() < 0.2:
            be = float(sib[0])           # `2.0` next to `2`: equal and of equal hash, but no int
        xs = sib[:pos] + [be] + sib[pos:]
        return tuple(xs) if k == "tup" else xs
    if k == "tupfix":
        n = len(ast[1])
        if rng.random() < 0.3:           # every element conforms, but there are too few / too many of them
            good = [nest_good_py(rng, x) for x in ast[1]]
            return tuple(good[:-1]) if rng.random() < 0.5 else tuple(good + [nest_good_py(rng, ast[1][-1])])
        pos = 0 if place == "first" else n - 1 if place == "last" else rng.randrange(n)
        return tuple(nest_bad_py(rng, x, place) if i == pos else nest_good_py(rng, x) for i, x in enumerate(ast[1]))
    if k == "set":
        return {nest_good_py(rng, ast[1]) for _ in range(n_siblings(rng, place) + 1)} | {nest_bad_py(rng, ast[1], place)}
    if k == "dict":
        items = list({nest_good_py(rng, ast[1]): nest_good_py(rng, ast[2]) for _ in range(n_siblings(rng, place))}.items())
        if ast[1] != "str" and rng.random() < 0.4:
            bad = (nest_bad_py(rng, ast[1], place), nest_good_py(rng, ast[2]))
        else:
            keys = [x for x in NEST_LEAVES[ast[1]][0] if x not in dict(items)] or [items.pop()[0]]
            bad = (rng.choice(keys), nest_bad_py(rng, ast[2], place))
        pos = place_index(rng, place, len(items))
        return dict(items[:pos] + [bad] + items[pos:])
    if k == "opt":
        return nest_bad_py(rng, ast[1], place)
    return nest_bad_py(rng, rng.choice(ast[1:]), place)


def nest_grow_fn(rng, ast, place):
    """a transform adding ONE non-conforming element to the tuple / list / set it is given (None: not applicable)"""
    while ast[0] in ("opt",):
        ast = ast[1]
    if isinstance(ast, str) or ast[0] not in ("tup", "list", "set"):
        return None, None
    x = nest_bad_py(rng, ast[1], place)
    if ast[0] == "set" and not isinstance(x, (int, float, str)):
        return None, None
    front = place == "first"

    def grow(old):
        if isinstance(old, tuple):
            return (x,) + old if front else old + (x,)
        if isinstance(old, list):
            return [x] + old if front else old + [x]
        if isinstance(old, (set, frozenset)):
            return set(old) | {x}
        return old

    return grow, x


def grid_problems(N, obj):
    out = []
    for name, ann in N["ann"].items():
        v = obj.__dict__.get(name, V.S("MISSING"))
        if v is not V.S("MISSING") and not ref_conforms(v, ann):
            out.append(f"{type(obj).__name__}.{name} holds {v!r}")
    return out


def nested_probe(N, rng, probe):
    """run one probe on the real classes; returns (error class or None, violations)"""
    import ast as pyast

    cls = N[probe["cls"]]
    attr, route, kind = probe["attr"], probe["route"], probe["kind"]
    value = pyast.literal_eval(probe["value"]) if probe.get("value") is not None else None
    start = {a: pyast.literal_eval(x) for a, x in probe["start"].items()}
    try:
        host = cls(**start) if route != "ctor" else None
    except Exception as e:      # conforming values all of them: not this probe's subject, reported as a disagreement
        return "start:" + V.err_name(e), []
    pre = repr(sorted(host.__dict__.items(), key=lambda kv: kv[0])) if host is not None else None
    err = res = None
    inplace = bool(probe.get("inplace"))
    desc = (f"{probe['cls']}.{attr} via {route}{' (in place)' if inplace and route not in ('ctor', 'set') else ''}: {kind} value "
            f"{probe['value']}" + (f" added to {probe['start'][attr]}" if "grow" in route else ""))
    try:
        if route == "ctor":
            res = cls(**dict({a: v for a, v in start.items() if a != attr}, **{attr: value}))
        elif route == "set":
            setattr(host, attr, value)
            res = host
        elif route == "with":
            res = getattr(host, f"with_{attr}")(value, _inplace=inplace)
        elif route == "transform":
            res = getattr(host, f"transform_{attr}")(lambda old: value, _inplace=inplace)
        elif route == "update_attr":
            res = getattr(host, f"update_{attr}")(value, _inplace=inplace)
        elif route == "update":
            res = host.update(**{attr: value}, _inplace=inplace)
        elif route == "transform_top":
            res = host.transform(**{attr: (lambda old: value)}, _inplace=inplace)
        elif route in ("grow", "grow_top"):
            x = value
            front = bool(probe.get("front"))

            def grow(old):
                if isinstance(old, tuple):
                    return (x,) + old if front else old + (x,)
                if isinstance(old, list):
                    return [x] + old if front else old + [x]
                return set(old) | {x}

            if route == "grow":
                res = getattr(host, f"transform_{attr}")(grow, _inplace=inplace)
            else:
                res = host.transform(**{attr: grow}, _inplace=inplace)
        else:
            item_name = type(host).__spec_class__.attrs[attr].item_name
            key = pyast.literal_eval(probe["key"]) if probe.get("key") is not None else None
            if route == "item_with":
                res = getattr(host, f"with_{item_name}")(*([key, value] if key is not None else [value]), _inplace=inplace)
            elif route == "item_insert":
                res = getattr(host, f"with_{item_name}")(value, _index=0, _insert=True, _inplace=inplace)
            elif route == "item_update":
                res = getattr(host, f"update_{item_name}")(0 if key is None else key, value, _inplace=inplace)
            elif route == "item_transform":
                res = getattr(host, f"transform_{item_name}")(0 if key is None else key, lambda old: value, _inplace=inplace)
            elif route == "item_grow":
                x = value
                front = bool(probe.get("front"))

                def igrow(old):
                    if isinstance(old, tuple):
                        return (x,) + old if front else old + (x,)
                    if isinstance(old, list):
                        return [x] + old if front else old + [x]
                    return set(old) | {x}

                res = getattr(host, f"transform_{item_name}")(0 if key is None else key, igrow, _inplace=inplace)
            else:
                raise ValueError(route)
    except Exception as e:
        err = V.err_name(e)
    v = []
    if kind == "bad":
        if err is None:
            v.append(f"{desc}: a value with ONE non-conforming leaf was accepted")
        elif err not in ("TypeError", "ValueError"):
            v.append(f"{desc}: raised {err}, not TypeError/ValueError")
        if err is not None and host is not None and repr(sorted(host.__dict__.items(), key=lambda kv: kv[0])) != pre:
            v.append(f"{desc}: raised {err} but the receiver changed")
    elif err is not None and err not in ("TypeError", "ValueError"):
        v.append(f"{desc}: raised {err}")
    for o in [x for x in (host, res) if x is not None and hasattr(x, "__spec_class__")]:
        for c in grid_problems(N, o):
            v.append(f"{desc}: afterwards {c}")
    return err, v


NEST_ROUTES = ROUTES7 + ["grow", "grow_top"]


def extra_nested(tier, rng):
    N = nested_classes()
    from spec_classes.utils.type_checking import check_type

    viol, disagree, evals, nontriv, hist = [], [], 0, set(), {}
    reps = 1 if tier == "quick" else 6

    def start_values():
        return {a: repr(nest_good_py(rng, ast)) for a, ast in NEST_ATTRS.items()}

    def run(probe, ast_):
        nonlocal evals
        err, v = nested_probe(N, rng, probe)
        evals += 1
        hk = f"nested:{probe['route']}:{probe['kind']}:{err or 'ok'}"
        hist[hk] = hist.get(hk, 0) + 1
        nontriv.add((probe["cls"], probe["attr"], probe["route"], probe["kind"], probe.get("place"), probe["value"]))
        if v:
            viol.append({"case": {"nested": probe}, "violation": v})
        if (err or "").startswith("start:") or (probe["kind"] == "good" and err is not None):
            # on the tree this was written against every conforming value is accepted by every route
            disagree.append({"case": {"nested": probe}, "at": 0, "real": f"conforming values refused: {err}",
                             "model": "reference: every value conforms"})

    def verdicts(value, ann, want, what):
        # the library's own whole-value check against the reference checker, on the very values that are sent
        nonlocal evals
        evals += 1
        got = bool(check_type(value, ann))
        if got != ref_conforms(value, ann) or got != want:
            disagree.append({"case": {"nested": {"check_type": what, "value": repr(value)}}, "at": 0,
                             "real": f"check_type={got}", "model": f"reference={ref_conforms(value, ann)} expected={want}"})

    names = ("Grid", "GridP", "GridS")
    for rep in range(reps):
        # (quick tier: the three classes take turns; thorough: the full product)
        for turn, (cls_name, (attr, ast_)) in enumerate((c, a) for c in (names if tier != "quick" else names[:1])
                                                        for a in NEST_ATTRS.items()):
            if True:
                if tier == "quick":
                    cls_name = names[(turn + rep) % 3]
                ann = N["ann"][attr]
                for place in PLACES:
                    if tier == "quick":
                        cls_name = names[(names.index(cls_name) + 1) % 3]
                    for route in NEST_ROUTES:
                        order = ("good", "bad") if (rep + len(route) + len(attr)) % 2 == 0 else ("bad", "good")
                        for kind in order:
                            probe = {"cls": cls_name, "attr": attr, "route": route, "kind": kind, "place": place,
                                     "inplace": rng.random() < 0.5, "start": start_values()}
                            if route in ("grow", "grow_top"):
                                g, x = nest_grow_fn(rng, ast_, place)
                                if g is None:
                                    continue
                                inner = ast_
                                while inner[0] == "opt":
                                    inner = inner[1]
                                if kind == "good":
                                    x = nest_good_py(rng, inner[1])
                                    if inner[0] == "set" and not isinstance(x, (int, float, str)):
                                        continue
                                probe["start"][attr] = repr(nest_good_py(rng, inner))
                                probe["value"] = repr(x)
                                probe["front"] = place == "first"
                            else:
                                value = nest_good_py(rng, ast_) if kind == "good" else nest_bad_py(rng, ast_, place)
                                probe["value"] = repr(value)
                                verdicts(value, ann, kind == "good", f"{attr}: {kind} {place}")
                            if "set()" in probe["value"] or "set()" in "".join(probe["start"].values()):
                                continue
                            run(probe, ast_)
                    # element helpers of the collection attributes
                    if ast_[0] in ("list", "dict") and not isinstance(ast_[-1], str):
                        item_ast = ast_[-1]
                        iroutes = ["item_with", "item_update", "item_transform", "item_grow"] + (["item_insert"] if ast_[0] == "list" else [])
                        for route in iroutes:
                            for kind in ("good", "bad"):
                                probe = {"cls": cls_name, "attr": attr, "route": route, "kind": kind, "place": place,
                                         "inplace": rng.random() < 0.5, "start": start_values()}
                                cur = nest_good_py(rng, ast_)
                                probe["start"][attr] = repr(cur)
                                if ast_[0] == "dict":
                                    probe["key"] = repr(next(iter(cur)))
                                    if route == "item_with" and rng.random() < 0.5:
                                        probe["key"] = repr("fresh")
                                if route == "item_grow":
                                    g, x = nest_grow_fn(rng, item_ast, place)
                                    if g is None:
                                        continue
                                    if kind == "good":
                                        x = nest_good_py(rng, item_ast[1])
                                    probe["value"] = repr(x)
                                    probe["front"] = place == "first"
                                else:
                                    value = nest_good_py(rng, item_ast) if kind == "good" else nest_bad_py(rng, item_ast, place)
                                    probe["value"] = repr(value)
                                if "set()" in probe["value"] or "set()" in "".join(probe["start"].values()):
                                    continue
                                run(probe, ast_)
    return {"evaluations": evals, "nontrivial": sorted(nontriv, key=repr), "violations": viol[:20], "disagreements": disagree[:20],
            "info": {"nested_routes": evals, "nested_histogram": dict(sorted(hist.items()))}}


def extra(tier, rng):
    out = {"evaluations": 0, "nontrivial": [], "violations": [], "disagreements": [], "info": {}}
    for part in (extra_keyed, extra_opaque, extra_desc, extra_nested):
        r = part(tier, rng)
        out["evaluations"] += r["evaluations"]
        out["nontrivial"] += r["nontrivial"]
        out["violations"] += r["violations"]
        out["disagreements"] += r.get("disagreements", [])
        out["info"].update(r["info"])
    return out


MANIFEST_ENTRY = {
    "level_text": "Lean 4 proof that in the Impl model of every mutation route of the spec-class API (generated constructor incl. keyword and dict-to-spec casting, obj.a = v, del, with_/update_/transform_/reset_<attr> with values, keywords and transforms, update/transform/reset, with_/update_/transform_/without_<item> on list / dict / set attributes by index / key / value, preparers and item preparers returning arbitrary values) the invariant WellTyped (every managed attribute that is set conforms to its annotation: element, key and value types -- also for container classes check_type does not look inside (MutableSequence/MutableSet/MutableMapping[...]), where only the per-item pass of prepare() guards the items (items_checked_by_prepare) --, Union/Optional alternatives, Literal choices, nested spec classes, recursively through nested instances) is preserved by every step, for any class table (incl. attributes without a default of their own that are backed by a property, and defaults that do not conform), any pure callbacks, any fuel (wellTyped_step), hence holds in every reachable state of every history (wellTyped_reachable), and that a call whose pipeline ends in a non-conforming value, element or key raises TypeError / ValueError and leaves the receiver as it was (bad_value_rejected &c.), as do del / reset_<a> / reset() when the class default does not conform (bad_default_rejected, reset_error_stores_nothing). The model is tied to /repo on every run: valid and malformed call streams (one non-conforming value aimed at each position of each route) run on the real classes and on the model; outcome class, returned state, receiver state and the invariant (Lean `wt` vs an independent typing-based reference checker over every live instance) are compared after every call. Element / key / value types at any depth (containers inside Optional / Union, containers as items / values of collection attributes): the verdict of check_type on a container is the conjunction of the verdicts on its elements one by one (conforms_list_iff &c.), independent of their order (conforms_list_perm) and of what precedes an element (later_element_checked); ONE non-conforming leaf at any position of any nesting makes the value non-conforming (badAt_not_conforms), every route rejects it with nothing stored (nested_bad_value_rejected, nested_bad_item_rejected &c.) and no reachable state holds one (reachable_no_bad_position); tied to /repo by the `nest` family (every route x every nesting x position of the offending leaf among conforming neighbours of the same class). Where the class table comes from is modelled too (SpecVerif.C03Boot.bootstrap = spec_class.bootstrap: decorator options attrs / attrs_typed / attrs_skip / key / init_overflow_attr, annotations own and inherited, re-annotation and re-defaulting in subclasses, plain subclasses): every managed attribute is typed by the decorator's type unless that is the Any placeholder, else by the annotation visible on the class (managed_attr_type, attrs_nominated_keeps_annotation, attrs_typed_decides, annotation_decides -- a subclass narrowing an inherited attribute manages the narrow type --, inherited_attr_type, key_attr_type), and lazy bootstrap in ANY order of first use gives every class the table eager bootstrap in definition order gives it (first_use_order_irrelevant, first_use_orders_agree); tied to /repo by families given as class statements (`decl` lines), real classes built fresh per case and used in every order of first use.",
    "level_note": "Trusted: Lean kernel; axioms propext/Classical.choice/Quot.sound only; the hand-written value-level model (shared with C05), the class-family builder, the correspondence harness. Instances supplied by the caller or by callbacks are assumed well typed (they can only be created through the API). KeyedList/KeyedSet attributes and tuple generics (Tuple[V, ...], Tuple[V, W], nested) are not in the Lean model: extra() sends them through every route on the real code and checks with the reference checker.",
    "technique": "Lean 4 inductive-invariant proof over all routes and histories of a hand-written model; differential correspondence against the real API; typing-based reference checker as independent oracle",
}
