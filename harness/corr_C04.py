"""
C04 -- an operation that raises leaves every pre-existing object unchanged.

Correspondence: generated histories with many failing operations (ill-typed
value at an argument position, missing index / key / element, unknown keyword,
unmanaged attribute, callback fault plans) executed on the real `spec_classes`
and on the Lean model `SpecVerif.Heap` through `Drivers/Heap.lean`; compared
after every line: outcome class and the canonical world (content + aliasing of
all live objects).  For operations that invoke user callbacks the generator
adds *fault variants*: the same history with the n-th invocation of callback
kind k raising, for every (k, n) the operation reached.
Oracle (independent of the model): deep content+identity snapshot of every root
(receiver, nested values, arguments, every other instance, class-level
defaults) before the call vs after the exception, for every operation that
raises -- constructor, assignment, deletion, helpers with and without
_inplace=True.
"""
import heap_common as H

PID = "C04"
LEAN_TARGETS = ["SpecVerif.Props.C04"]
AUDIT = [("SpecVerif.Props.C04", "SpecVerif.Props.C04")]
DRIVER = "Drivers/Heap.lean"
REQUIRED_THEOREMS = [
    "SpecVerif.Props.C04.raise_is_noop",
]
RULE = (
    "case = class table (see C01) x history of 4-12 operations generated while executing them, 55% of the helper "
    "calls in place, 28% ill-typed argument positions (wrong scalar, wrong collection, wrong item, wrong key, wrong "
    "class, None, unknown keyword, unmanaged attribute), 30% callback fault plans; plus fault variants: for every "
    "operation that invoked user callbacks, the history cut after it with the n-th invocation of kind k raising, for "
    "every (k, n) reached (transform, attribute transform, preparer, item preparer, __post_copy__); non-trivial = the "
    "line changed the world or raised; distinct = distinct (table, pre-world, line) triples."
)
ASSUMPTIONS = [
    "C04's fault model is the property's own list: bad arguments and exceptions thrown by user callbacks at their "
    "n-th invocation; an exception injected between two writes of an in-place multi-step commit is not part of it "
    "(DESIGN.md section 10 item 10)",
    "user callbacks are pure; default factories do not raise; class-level defaults conform to their annotation",
    "class tables with a class declared do_not_copy=True are run through the correspondence but skipped by the oracle "
    "for helpers without _inplace (in-place by documented design)",
    "bool values are not generated (Python identifies True with 1)",
]
OPEN_STATEMENTS = []
EXHAUSTIVE = {"quick": False, "thorough": False}

PROFILE = {
    "p_frozen": 0.15,
    "p_nested_frozen": 0.1,
    "p_class_dnc": 0.12,
    "p_bare_class": 0.2,
    "p_inplace": 0.55,
    "p_fault": 0.3,
    "p_bad": 0.28,
    "p_raw": 0.05,
    "n_ops": (4, 12),
    "w": {"update": 5, "transform": 4, "set": 3, "del": 2, "eadd": 5, "eupd": 3, "etr": 3, "undeclared": 1, "alias": 1, "rollback_probe": 4, "reset": 2, "nested_probe": 3, "empty_probe": 2},
}


def setup():
    pass


def gen_cases(tier, rng):
    if tier == "search":
        while True:
            c = H.gen_case(rng, PROFILE)
            yield c
            for v in H.fault_variants(c, rng, 3):
                yield v
    n = 170 if tier == "quick" else 3500
    per = 4 if tier == "quick" else None
    for _ in range(n):
        c = H.gen_case(rng, PROFILE)
        yield c
        for v in H.fault_variants(c, rng, per):
            yield v


model_lines = H.model_lines
real_lines = H.real_lines
shrink = H.shrink_case
nontrivial = H.nontrivial_keys
tags = H.op_tags


def _diff(before, after):
    return sorted(k for k in before if before[k] != after.get(k))


def oracle(case):
    """Snapshot before vs after every operation that raises."""
    violations = []
    class_dnc = any(cd.get("dnc") for cd in case["table"]["classes"])

    def on_op(world, dst, toks, run):
        before = H.snapshot_roots(world)
        res, exc = run()
        if exc is None:
            return
        if class_dnc and toks[0] in H.COW_OPS and H.op_inplace(toks) is False:
            return  # do_not_copy=True classes are edited in place by documented design
        after = H.snapshot_roots(world)
        changed = _diff(before, after)
        if changed:
            violations.append(
                f"`{' '.join(toks)}` raised {H.exc_name(exc)} but changed pre-existing object(s) under root(s) {changed}"
            )

    H.replay(case, on_op=on_op)
    return violations


# ---------------------------------------------------------------------------
# extra: failing operations on classes with invalidated_by dependants
# (invalidation is outside the modelled grammar: oracle only, real code)
# ---------------------------------------------------------------------------

_EXTRA_SRC = """
@spec_class
class Sub:
    v: int = 0

@spec_class
class K:
    limit: int
    a: int = 1
    ns: List[int] = Attr(default_factory=lambda: [1, 2])
    b: int = Attr(default=7, invalidated_by=["a", "limit"])
    total: int = Attr(default=0, invalidated_by=["ns"])
    anything: int = Attr(default=3, invalidated_by=["*"])
    sub: Sub = Attr(default_factory=Sub)

    @spec_property(cache=True, invalidated_by=["limit", "a"])
    def summary(self):
        return f"{self.a}"

    @spec_property(cache=True, invalidated_by=["summary"])
    def headline(self):
        return self.summary.upper()

    @spec_property(overridable=True, invalidated_by=["ns"])
    def size(self):
        return len(self.ns)
"""


def _extra_ns():
    from typing import List

    from spec_classes import Attr, spec_class, spec_property

    ns = {"spec_class": spec_class, "Attr": Attr, "spec_property": spec_property, "List": List}
    exec(compile(_EXTRA_SRC, "<heapgen>", "exec", dont_inherit=True), ns)
    return ns


def _boom(_v):
    raise RuntimeError("boom")


def _extra_failing_calls():
    """(label, call) -- every call is expected to raise on the prepared states."""
    return [
        ("del unset limit", lambda o: o.__delattr__("limit")),
        ("reset_limit inplace (unset)", lambda o: o.reset_limit(_inplace=True)),
        ("reset_limit (unset)", lambda o: o.reset_limit()),
        ("del unmanaged", lambda o: o.__delattr__("nope")),
        ("a = 'x'", lambda o: setattr(o, "a", "x")),
        ("ns = [1, 'x']", lambda o: setattr(o, "ns", [1, "x"])),
        ("with_a('x')", lambda o: o.with_a("x")),
        ("with_a('x') inplace", lambda o: o.with_a("x", _inplace=True)),
        ("update(a=5, limit='x') inplace", lambda o: o.update(a=5, limit="x", _inplace=True)),
        ("update(ns=[3], a='x') inplace", lambda o: o.update(ns=[3], a="x", _inplace=True)),
        ("update(limit=4, a='x') inplace", lambda o: o.update(limit=4, a="x", _inplace=True)),
        ("update(a=5, limit='x')", lambda o: o.update(a=5, limit="x")),
        ("transform(a=inc, ns=boom) inplace", lambda o: o.transform(a=lambda v: v + 1, ns=_boom, _inplace=True)),
        ("transform_a(boom) inplace", lambda o: o.transform_a(_boom, _inplace=True)),
        ("with_n('x') inplace", lambda o: o.with_n("x", _inplace=True)),
        ("without_n(99) inplace", lambda o: o.without_n(99, _inplace=True)),
        ("transform_n(0, boom) inplace", lambda o: o.transform_n(0, _boom, _by_index=True, _inplace=True)),
        ("update_sub(v='x') inplace", lambda o: o.update_sub(v="x", _inplace=True)),
        ("update_sub(v=1, w=2)", lambda o: o.update_sub(v=1, w=2)),
    ]


def _extra_states(K):
    """Instances with the dependants unset / cached / overridden."""

    def plain():
        return K()

    def cached():
        o = K(a=4)
        o.headline
        o.size
        return o

    def overridden():
        o = K(a=4, b=70, total=10, anything=9)
        o.summary = "hand written"
        o.size = 99
        return o

    def with_limit():
        o = K(limit=3, a=2)
        o.headline
        return o

    return [("plain", plain), ("cached", cached), ("overridden", overridden), ("limit set", with_limit)]



# ---------------------------------------------------------------------------
# extra (2): failing operations on KeyedList / KeyedSet attributes and on the containers themselves
# (keyed containers are outside the heap model's grammar, see docs/Heap.md; anchored in types/keyed.py;
#  real code + snapshot oracle; the snapshot includes the key index: C04-r2s1)
# ---------------------------------------------------------------------------


def _keyed_ns():
    from spec_classes import spec_class
    from spec_classes.types import KeyedList, KeyedSet

    @spec_class(key="k", bootstrap=True)
    class It:
        k: str
        v: int = 0

    @spec_class(bootstrap=True)
    class Holder:
        items: KeyedList[It, str]
        members: KeyedSet[It, str]

    return It, Holder, KeyedList, KeyedSet


def _keyed_view(kl):
    """What a user sees through the KEY interface of a KeyedList / KeyedSet (ids of the items found)."""
    out = []
    d = kl.__dict__
    if "_list" in d:
        out.append(("keys", tuple(kl.keys())))
        for pos, it in enumerate(list(kl)):
            k = kl.key(it)
            try:
                found = id(kl[k])
            except BaseException as e:  # noqa: BLE001
                found = "raises " + type(e).__name__
            try:
                at = kl.index_for_key(k)
            except BaseException as e:  # noqa: BLE001
                at = "raises " + type(e).__name__
            out.append((pos, repr(k), id(it), found, at, k in kl))
    else:
        for it in list(kl):
            k = kl.key(it)
            try:
                found = id(kl[k])
            except BaseException as e:  # noqa: BLE001
                found = "raises " + type(e).__name__
            out.append((repr(k), id(it), found, k in kl, it in kl))
        out.sort(key=repr)
    return tuple(out)


def _keyed_calls(It, n):
    """(label, fn(holder) -> call result, argument objects) over every position / key of a holder with n items."""
    keys = [chr(ord("a") + i) for i in range(n)]
    out = []

    def add(label, fn, *args):
        out.append((label, fn, list(args)))

    for ip in (True, False):
        t = f" ip={int(ip)}"
        for i in list(range(-n - 1, n + 1)):
            for j, other in enumerate(keys):
                item = It(other, v=5)
                add(f"with_item(It({other!r}), _index={i}){t}", lambda h, item=item, i=i, ip=ip: h.with_item(item, _index=i, _inplace=ip), item)
                add(f"with_item(It({other!r}), _index={i}, _insert=True){t}", lambda h, item=item, i=i, ip=ip: h.with_item(item, _index=i, _insert=True, _inplace=ip), item)
                add(f"update_item({i}, k={other!r}, _by_index=True){t}", lambda h, i=i, other=other, ip=ip: h.update_item(i, k=other, _by_index=True, _inplace=ip))
                add(f"transform_item({i}, ->It({other!r}), _by_index=True){t}", lambda h, i=i, item=item, ip=ip: h.transform_item(i, lambda _v: item, _by_index=True, _inplace=ip), item)
            add(f"with_item(3, _index={i}){t}", lambda h, i=i, ip=ip: h.with_item(3, _index=i, _inplace=ip))
            add(f"update_item({i}, v='x', _by_index=True){t}", lambda h, i=i, ip=ip: h.update_item(i, v="x", _by_index=True, _inplace=ip))
            add(f"transform_item({i}, boom, _by_index=True){t}", lambda h, i=i, ip=ip: h.transform_item(i, _boom, _by_index=True, _inplace=ip))
            add(f"without_item({i}, _by_index=True){t}", lambda h, i=i, ip=ip: h.without_item(i, _by_index=True, _inplace=ip))
        for key in keys + ["zz"]:
            for other in keys:
                item = It(other, v=6)
                add(f"with_item(It({other!r}), _index={key!r}){t}", lambda h, item=item, key=key, ip=ip: h.with_item(item, _index=key, _inplace=ip), item)
                add(f"update_item({key!r}, k={other!r}){t}", lambda h, key=key, other=other, ip=ip: h.update_item(key, k=other, _inplace=ip))
                add(f"transform_item({key!r}, ->It({other!r})){t}", lambda h, key=key, item=item, ip=ip: h.transform_item(key, lambda _v: item, _inplace=ip), item)
                add(f"update_member({key!r}, k={other!r}){t}", lambda h, key=key, other=other, ip=ip: h.update_member(key, k=other, _inplace=ip))
            add(f"update_item({key!r}, v='x'){t}", lambda h, key=key, ip=ip: h.update_item(key, v="x", _inplace=ip))
            add(f"transform_item({key!r}, boom){t}", lambda h, key=key, ip=ip: h.transform_item(key, _boom, _inplace=ip))
            add(f"transform_item({key!r}, v=boom){t}", lambda h, key=key, ip=ip: h.transform_item(key, v=_boom, _inplace=ip))
            add(f"without_item({key!r}){t}", lambda h, key=key, ip=ip: h.without_item(key, _inplace=ip))
            add(f"update_member({key!r}, v='x'){t}", lambda h, key=key, ip=ip: h.update_member(key, v="x", _inplace=ip))
            add(f"transform_member({key!r}, boom){t}", lambda h, key=key, ip=ip: h.transform_member(key, _boom, _inplace=ip))
            add(f"transform_member({key!r}, ->3){t}", lambda h, key=key, ip=ip: h.transform_member(key, lambda _v: 3, _inplace=ip))
            add(f"without_member({key!r}){t}", lambda h, key=key, ip=ip: h.without_member(key, _inplace=ip))
        add(f"with_member(3){t}", lambda h, ip=ip: h.with_member(3, _inplace=ip))
        add(f"with_items([It('q'), It('q')]){t}", lambda h, ip=ip: h.with_items([It("q"), It("q")], _inplace=ip))
        add(f"with_items([It('q'), 3]){t}", lambda h, ip=ip: h.with_items([It("q"), 3], _inplace=ip))
        add(f"with_members([It('q'), 3]){t}", lambda h, ip=ip: h.with_members([It("q"), 3], _inplace=ip))
        add(f"update(v-less items=[It('q')], members=3){t}", lambda h, ip=ip: h.update(items=[It("q")], members=3, _inplace=ip))
    # (operations on the containers themselves -- items[i] = x, extend, |= ... -- are not spec-class API calls: their
    #  atomicity is C13's / C14's statement and is judged there, not here)
    return out


def _keyed_extra():
    It, Holder, KeyedList, KeyedSet = _keyed_ns()
    evaluations, violations, keys = 0, [], []
    for n in range(0, 4):
        def mk(n=n):
            return Holder(items=[It(chr(ord("a") + i), v=i) for i in range(n)], members=[It(chr(ord("a") + i), v=i) for i in range(n)])
        for label, fn, args in _keyed_calls(It, n):
            h = mk()
            before = (H.deep_snapshot(h), _keyed_view(h.items), _keyed_view(h.members), [H.deep_snapshot(a) for a in args])
            try:
                fn(h)
            except BaseException as e:  # noqa: BLE001
                evaluations += 1
                keys.append((n, label.split("(")[0].split(" ")[0], type(e).__name__, label))
                after = (H.deep_snapshot(h), _keyed_view(h.items), _keyed_view(h.members), [H.deep_snapshot(a) for a in args])
                if after != before:
                    what = [w for w, a, b in zip(("receiver (incl. key index)", "key view of items", "key view of members", "arguments"), before, after) if a != b]
                    violations.append(
                        {
                            "case": {"extra": "keyed", "n_items": n, "call": label},
                            "violation": [f"{label} on a holder with {n} item(s) raised {H.exc_name(e)} but changed: {what}"],
                        }
                    )
    return evaluations, violations, keys


# ---------------------------------------------------------------------------
# extra (3): failing element edits whose failure comes from the CONTAINER after the element was computed
# (fixed findings c736c45: a set rejecting the replacement of an element; 33f9c1a: a KeyedList rejecting the new key
#  of a do_not_copy item that was edited in place)
# ---------------------------------------------------------------------------


def _container_reject_extra():
    from typing import Dict, List, Set

    from spec_classes import spec_class
    from spec_classes.types import KeyedList, KeyedSet

    @spec_class(bootstrap=True)
    class Tags:
        tags: Set[tuple]
        names: Set[str]

    @spec_class(key="name", do_not_copy=True, bootstrap=True)
    class Res:  # items that cannot be copied: helpers edit them in place
        name: str
        v: int = 0

    @spec_class(bootstrap=True)
    class Pool:
        items: KeyedList[Res, str]
        members: KeyedSet[Res, str]
        plain: List[Res]
        table: Dict[str, Res]

    evaluations, violations, keys = 0, [], []

    def probe(label, mk, fn):
        nonlocal evaluations
        o = mk()
        before = (H.deep_snapshot(o),) + tuple(_keyed_view(c) for c in (o.__dict__.get("items"), o.__dict__.get("members")) if c is not None)
        try:
            fn(o)
        except BaseException as e:  # noqa: BLE001
            evaluations += 1
            keys.append((label, type(e).__name__))
            after = (H.deep_snapshot(o),) + tuple(_keyed_view(c) for c in (o.__dict__.get("items"), o.__dict__.get("members")) if c is not None)
            if after != before:
                violations.append({"case": {"extra": "container-reject", "call": label}, "violation": [f"{label} raised {H.exc_name(e)} but changed the receiver"]})

    unhashable = [lambda t: (t, []), lambda t: ([],), lambda t: (1, {2: 3})]
    for n in range(1, 4):
        mk = lambda n=n: Tags(tags={(i,) for i in range(n)}, names={str(i) for i in range(n)})  # noqa: E731
        for i in range(n):
            for j, f in enumerate(unhashable):
                for ip in (True, False):
                    probe(f"transform_tag(({i},), ->unhashable#{j}) ip={int(ip)} n={n}", mk, lambda o, i=i, f=f, ip=ip: o.transform_tag((i,), f, _inplace=ip))
                    probe(f"update_tag(({i},), unhashable#{j}) ip={int(ip)} n={n}", mk, lambda o, i=i, f=f, ip=ip: o.update_tag((i,), f((i,)), _inplace=ip))
            for ip in (True, False):
                probe(f"with_tag(unhashable) ip={int(ip)} n={n}", mk, lambda o, ip=ip: o.with_tag((9, []), _inplace=ip))
                probe(f"transform_name({i!r}, ->3) ip={int(ip)} n={n}", mk, lambda o, i=i, ip=ip: o.transform_name(str(i), lambda _v: 3, _inplace=ip))
    for n in range(2, 4):
        names = [chr(97 + i) for i in range(n)]

        def mkp(names=names):
            return Pool(items=[Res(k, v=i) for i, k in enumerate(names)], members=[Res(k, v=i) for i, k in enumerate(names)], plain=[Res(k) for k in names], table={k: Res(k) for k in names})

        for a in names:
            for b in names:
                if a == b:
                    continue
                # in place only: without _inplace an item of a do_not_copy class is edited in place by documented design
                probe(f"update_item({a!r}, v=5, name={b!r}) ip=1 n={n}", mkp, lambda o, a=a, b=b: o.update_item(a, v=5, name=b, _inplace=True))
                probe(f"update_item({a!r}, name={b!r}, v=5) ip=1 n={n}", mkp, lambda o, a=a, b=b: o.update_item(a, name=b, v=5, _inplace=True))
                probe(f"transform_item({a!r}, v=inc, name=->{b!r}) ip=1 n={n}", mkp, lambda o, a=a, b=b: o.transform_item(a, v=lambda v: v + 1, name=lambda _n: b, _inplace=True))
                probe(f"update_item(#{names.index(a)}, v=5, name={b!r}, _by_index) ip=1 n={n}", mkp, lambda o, a=a, b=b: o.update_item(names.index(a), v=5, name=b, _by_index=True, _inplace=True))
            probe(f"update_item({a!r}, v='x') ip=1 n={n}", mkp, lambda o, a=a: o.update_item(a, v="x", _inplace=True))
            probe(f"update_item({a!r}, v=5, name=7) ip=1 n={n}", mkp, lambda o, a=a: o.update_item(a, v=5, name=7, _inplace=True))
            probe(f"update_plain(#0, v=5, name=7) ip=1 n={n}", mkp, lambda o: o.update_plain(0, v=5, name=7, _by_index=True, _inplace=True))
            probe(f"update_table({a!r}, v=5, name=7) ip=1 n={n}", mkp, lambda o, a=a: o.update_table(a, v=5, name=7, _inplace=True))
            probe(f"update_member({a!r}, v=5, name=7) ip=1 n={n}", mkp, lambda o, a=a: o.update_member(a, v=5, name=7, _inplace=True))
    return evaluations, violations, keys


def extra(tier, rng):
    ns = _extra_ns()
    K = ns["K"]
    evaluations, violations, keys = 0, [], []
    for sname, mk in _extra_states(K):
        for label, call in _extra_failing_calls():
            o = mk()
            before = H.deep_snapshot(o)
            try:
                call(o)
            except BaseException as e:  # noqa: BLE001
                evaluations += 1
                keys.append((sname, label))
                if H.deep_snapshot(o) != before:
                    violations.append(
                        {
                            "case": {"extra": "invalidated_by", "state": sname, "call": label},
                            "violation": [f"{label} on a `{sname}` instance raised {H.exc_name(e)} but changed the instance"],
                        }
                    )
    n_inv = evaluations
    ev2, viol2, keys2 = _keyed_extra()
    evaluations += ev2
    violations += viol2
    keys += keys2
    ev3, viol3, keys3 = _container_reject_extra()
    evaluations += ev3
    violations += viol3
    keys += keys3
    return {
        "evaluations": evaluations,
        "nontrivial": keys,
        "violations": violations,
        "disagreements": [],
        "info": {"failing_calls_on_classes_with_invalidated_by": n_inv, "failing_calls_on_keyed_attributes_and_containers": ev2, "element_edits_rejected_by_the_container": ev3},
    }


KNOWN_MATCHERS = {}

MANIFEST_ENTRY = {
    "level_text": "Lean 4 proof, over the heap model with object identities, that every public operation (constructor, assignment, deletion, every helper with and without _inplace=True, multi-keyword update/transform, element helpers, reset) that raises leaves every pre-existing object unchanged, for every class table without do_not_copy=True classes, every heap, every argument (values of the operation) and every callback fault plan: in-place operations validate before their single write to an old object or restore the instance dict on error; tied to /repo on every run by executing generated failing histories (ill-typed positions, missing index/key/element, unknown keyword, each callback raising at each reached invocation) on the real spec_classes and on the model and comparing outcome class, contents and alias pattern of all live objects after every step.",
    "level_note": "Trusted: Lean kernel; axioms propext/Classical.choice/Quot.sound only; the hand-written heap model and the correspondence harness; user callbacks pure, default factories total, defaults conforming. Fault model = arguments and callbacks (not arbitrary-line aborts inside an in-place commit). The theorems are about the model; the per-run correspondence ties them to the code.",
    "technique": "Lean 4 atomicity theorem (validate-before-write / rollback) over a hand-written heap model; differential correspondence incl. exhaustive callback fault variants",
}
