"""
C05 — scalar and top-level helpers compute exactly the documented new state.

Correspondence between the real `spec_classes` helpers (`with_/update_/transform_/reset_<attr>`,
`obj.a = v`, `del obj.a`, `update/transform/reset`) and the Lean Impl model
`SpecVerif.C05` (Drivers/C05.lean), plus the independent oracle: a small
interpreter of the documentation over plain Python containers, and relational
checks executed on the real code (copy run vs in-place run on a clone,
assignment vs `with_`, `update` vs repeated `with_`, keywords vs constructor,
`del` vs `reset_`).
"""
import copy

import sc_values as V
from sc_values import attr_name, decode, show

PID = "C05"
LEAN_TARGETS = ["SpecVerif.Props.C05", "SpecVerif.Model.C05OvProto"]
AUDIT = [("SpecVerif.Props.C05", "SpecVerif.Props.C05")]
DRIVER = "Drivers/C05.lean"
REQUIRED_THEOREMS = [
    "SpecVerif.Props.C05.impl_refines_doc",
    "SpecVerif.Props.C05.inplace_commutes",
    "SpecVerif.Props.C05.setattr_is_with",
    "SpecVerif.Props.C05.update_is_fold_with",
    "SpecVerif.Props.C05.with_keywords_is_construct",
    "SpecVerif.Props.C05.del_is_reset_inplace",
    "SpecVerif.Props.C05.if_false_noop",
    "SpecVerif.Props.C05.unchanged_noop",
    "SpecVerif.Props.C05.missing_noop_partial",
    "SpecVerif.Props.C05.missing_constructs_witness",
    "SpecVerif.Props.C05.write_resets_dependants",
    "SpecVerif.Props.C05.args_memo_never_stale",
    "SpecVerif.Props.C05.ctor_keywords_from_signature",
    "SpecVerif.Props.C05.ov_conservative",
    "SpecVerif.Props.C05.with_keywords_builds_overflow",
    "SpecVerif.Props.C05.overflow_collects_extras",
    "SpecVerif.Props.C05.bootstrap_prep_closed_form",
    "SpecVerif.Props.C05.decorator_preparer_registered",
    "SpecVerif.Props.C05.method_beats_decorator",
    "SpecVerif.Props.C05.untouched_subclass_inherits",
    "SpecVerif.Props.C05.helper_prepares_as_setattr",
    "SpecVerif.Props.C05.helper_prepares_as_setattr_partial",
    "SpecVerif.Props.C05.redefault_keeps_callback",
    "SpecVerif.Props.C05.redefault_keeps_callback_no_method",
    "SpecVerif.Props.C05.redefault_drops_decorator_witness",
    "SpecVerif.Props.C05.helper_owner_spec_witness",
    "SpecVerif.Props.C05.decorator_preparer_applied",
]
RULE = (
    "case = class family (2 hand-written families + seeded random families from the grammar: int/str/bool/float/"
    "Optional/Union/Literal, List/Dict/Set of scalars, nested spec class, keyed spec class, Optional[spec]; no default / "
    "immutable / mutable / default_factory / Attr(...) / dataclasses.field defaults; preparers incl. one reading another "
    "attribute of the instance; item preparers; spec and plain subclasses one and two levels deep) x receiver class x "
    "(also: invalidated_by dependants; preparers inherited by re-defaulting / re-annotating spec subclasses, eager and lazy) x "
    "constructor keywords x a history of 4..14 calls drawn from every scalar/top-level helper x documented call form "
    "(value, keywords, value+keywords, transform, attribute transforms, no argument) x _inplace x _if, with `obj.a = v` "
    "and `del obj.a`; about half of the copy results are adopted as the next receiver, so later calls start from "
    "reachable (not fresh) states. Values mostly conform (7% sentinels MISSING/EMPTY/UNCHANGED, 6% non-conforming). "
    "Nested classes whose constructor takes **kwargs (init_overflow_attr; plain, keyed, with a spec subclass, Optional, "
    "lazily bootstrapped, the receiver's own class) with extra keyword names; directed 'repeat' histories: per "
    "receiver class and nested attribute 4..7 constructions Class(**kw) through keywords / dict of constructor "
    "arguments / assignment / update with DIFFERENT keyword sets, interleaved with constructions for other "
    "attributes and classes; histories of `_get_function_args` calls on fresh constructors of every kind (builtin, "
    "no __init__, lambda/def/class with fixed and **kwargs signatures, spec classes with and without overflow). "
    "Callbacks declared in every spelling (families decl/decllz + decorated random families, eager and lazy): "
    "`_prepare_<a>` / `_prepare_<item>` methods, `@<a>.preparer` / `@<a>.item_preparer` decorators on `Attr(...)` objects "
    "(with default, default_factory, no default, invalidated_by), both at once; inherited untouched by spec and plain "
    "subclasses (also with a differing do_not_copy), by re-defaulting / re-annotating spec subclasses, by spec subclasses "
    "that redeclare the attribute with a new Attr(default=…) / Attr(default_factory=…) / Attr() / field(…) object (annotated "
    "or not, with or without new decorators); methods overridden in spec and plain subclasses with and without a new "
    "declaration; spec subclasses that merely re-default an attribute (callback by method, by decorator, by both), with and without a "
    "`_prepare_` method of their own, also below classes that only override the methods / redeclare / re-annotate; the raw declarations go to the model as `pdecl` lines and are resolved by Decl.bootstrap; directed: every "
    "route x every prepared attribute x every receiver class with values the callback changes, defaults through the "
    "callbacks (constructor, reset_<a>, del, reset()). "
    "A case is non-trivial per call that changed state, returned a new object or raised; distinct = distinct "
    "(family, pre-state, call) triples."
)
ASSUMPTIONS = [
    "preparers, item preparers and transforms are pure and total (fault injection is C04's subject)",
    "a `_transform` given to the top-level `transform` returns a new object (DESIGN.md section 10 item 1)",
    "`transform_<a>`/`update_<a>` store their result through the assignment pipeline, i.e. the preparer of <a> is "
    "applied to it as for `with_<a>` (documented equivalence `a.x = v` == `a.with_x(v, _inplace=True)`)",
    "`reset_<a>` / `del` of an attribute that is unset and has no default may raise AttributeError (plain Python `del`)",
    "sets aimed at list attributes have at most one element (CPython set iteration order is not modelled)",
    "invalidated_by: dependants are plain attributes without preparers whose defaults conform (spec_property caches: C11/C12)",
    "frozen classes, do_not_copy, KeyedList/KeyedSet attributes and init=False are covered by C07/C02/C13/C14/C09",
    "overflow classes (init_overflow_attr): no sentinel among the extra constructor keywords (it would sit inside the "
    "collected dict); collections of overflow-class items are prepared by the overflow-free knot (not generated)",
    "which callback applies is taken from the documentation where it says so (a `_prepare_` method is inherited like any "
    "method; an Attr object carries what its decorators registered); where it does not (both spellings with different "
    "callbacks in sight, a decorator registration on an Attr a subclass declares anew, a method overridden by a class that "
    "does not declare the attribute) only the correspondence with Decl.bootstrap judges",
    "Attr(...) objects appear in spec class bodies only (not in plain classes / mixins); single inheritance",
]
OPEN_STATEMENTS = [
    "MissingNoopFull (MISSING/EMPTY make every scalar helper a no-op returning the receiver) is refuted by "
    "missing_constructs_witness: the code default-constructs the annotation (open finding KF-C05-missing-constructs)",
]
EXHAUSTIVE = {"quick": False, "thorough": False}

FINDING_TAG = "KF-C05-missing-constructs"


def setup():
    V.init()


def _tag_of(v):
    if v.startswith("[") and "]" in v:
        return v[1: v.index("]")]
    return None


def _missing_constructs(case, violation):
    """Matcher of the open finding KF-C05-missing-constructs (D16): every complaint of the oracle about the case is
    about a scalar helper / assignment handed MISSING or EMPTY (or no argument), a transform answering MISSING / EMPTY,
    a transform of an unset attribute, or an EMPTY keyword: the code default-constructs the annotation (or re-runs the
    assignment pipeline on the old value) instead of doing nothing."""
    vs = [v for v in violation if v != "correspondence"]
    return bool(vs) and all(_tag_of(v) == FINDING_TAG for v in vs)


KNOWN_MATCHERS = {FINDING_TAG: _missing_constructs}

# ---------------------------------------------------------------------------
# class families
# ---------------------------------------------------------------------------

INT, STR, BOOL, FLOAT = ["int"], ["str"], ["bool"], ["float"]


def A(name, ty, dk="none", d=None, prep=None, ip=None, inv=None):
    out = {"name": name, "ty": ty, "dk": dk, "d": d, "prep": prep, "ip": ip}
    if inv:
        out["inv"] = list(inv)
    return out


FAMILY_MAIN = {
    "classes": [
        {"id": 1, "kind": "spec", "base": None, "key": None, "attrs": [
            A(0, INT, "value", "i1"), A(1, STR, "value", "s100"), A(2, INT, prep=0)]},
        {"id": 2, "kind": "spec", "base": None, "key": 0, "attrs": [A(0, STR), A(1, INT, "value", "i0")]},
        {"id": 3, "kind": "spec", "base": 1, "key": None, "over": {"0": "i7"}, "attrs": [A(3, INT, "value", "i3")]},
        {"id": 0, "kind": "spec", "base": None, "key": None, "attrs": [
            A(0, INT, "value", "i5"),
            A(1, INT, prep=4),
            A(2, ["spec", 1]),
            A(3, ["list", INT], "value", "L 2 i1 i2"),
            A(4, ["dict", STR, INT], "factory", "D 0"),
            A(5, ["set", INT]),
            A(6, V.opt(INT), "value", "N"),
            A(7, ["union", INT, STR], "attr", "i0"),
            A(8, ["lit", ["s100", "s101"]], "value", "s100"),
            A(9, ["spec", 2]),
            A(10, V.opt(["spec", 1]), "value", "N"),
            A(11, STR, "attr", "s100", prep=3),
            A(12, FLOAT, "field", "f3"),
        ]},
        {"id": 4, "kind": "plain", "base": 0, "over": {"0": "i42", "3": "L 1 i9"}},
        {"id": 5, "kind": "spec", "base": 0, "key": None, "over": {"8": "s101"}, "attrs": [
            A(13, INT, "value", "i1", prep=1), A(14, ["spec", 3])]},
        {"id": 6, "kind": "plain", "base": 5, "over": {"13": "i-2"}},
        {"id": 7, "kind": "plain", "base": 4, "over": {"0": "i0", "7": "s999", "6": "i3"}},   # plain subclass of a plain subclass
    ]
}

# falsy defaults (0, "", False, None, empty containers), a default-less attribute declared first,
# re-defaulting subclasses (plain x2, spec with a differing do_not_copy, spec sub-subclass)
FAMILY_FALSY = {
    "classes": [
        {"id": 1, "kind": "spec", "base": None, "key": None, "attrs": [
            A(0, INT), A(1, INT, "value", "i0"), A(2, STR, "value", "s999")]},
        {"id": 0, "kind": "spec", "base": None, "key": None, "attrs": [
            A(0, INT),                                   # no default, declared first
            A(1, INT, "value", "i0"),
            A(2, STR, "value", "s999"),
            A(3, BOOL, "value", "F"),
            A(4, V.opt(INT), "value", "N"),
            A(5, ["list", INT], "value", "L 0"),
            A(6, ["dict", STR, INT], "factory", "D 0"),
            A(7, ["set", INT], "attrfactory", "S 0"),
            A(8, STR),                                   # no default, in the middle
            A(9, INT, "attr", "i7"),
            A(10, ["spec", 1]),
            A(11, FLOAT, "field", "f0"),
            A(12, ["union", INT, STR], "value", "s100"),
        ]},
        {"id": 2, "kind": "plain", "base": 0, "over": {"1": "i5", "2": "s100", "9": "i0", "5": "L 1 i1"}},
        {"id": 3, "kind": "plain", "base": 2, "over": {"1": "i0", "3": "T", "12": "i0"}},
        {"id": 4, "kind": "spec", "base": 0, "key": None, "dnc": [5, 1], "over": {"1": "i9", "4": "i0"}, "attrs": [
            A(13, INT, "value", "i0")]},
        {"id": 5, "kind": "spec", "base": 4, "key": None, "dnc": [2], "over": {"1": "i0", "9": "i1", "13": "i4"}, "attrs": []},
        {"id": 6, "kind": "plain", "base": 5, "over": {"1": "i3"}},
    ]
}

FAMILY_PREP = {
    "classes": [
        {"id": 1, "kind": "spec", "base": None, "key": None, "attrs": [
            A(0, INT, "value", "i2"), A(1, INT, "value", "i3", prep=4), A(2, STR, "value", "s101", prep=2)]},
        {"id": 0, "kind": "spec", "base": None, "key": None, "attrs": [
            A(0, INT, "value", "i1", prep=0),
            A(1, INT, "value", "i1", prep=4),
            A(2, ["spec", 1], prep=5),
            A(3, ["list", INT], "fieldfactory", "L 1 i7", ip=0),
            A(4, V.opt(INT), prep=7),
            A(5, ["set", INT], "attrfactory", "S 1 i1", ip=1),
            A(6, ["dict", STR, INT], ip=0),
            A(7, INT, prep=6),
            A(8, BOOL, "value", "F"),
        ]},
        {"id": 2, "kind": "spec", "base": 0, "key": None, "attrs": [A(9, INT, "value", "i4", prep=4)]},
        {"id": 3, "kind": "plain", "base": 2, "over": {"0": "i10", "9": "i0"}},
        # spec subclasses that merely re-default / re-annotate attributes whose preparers live on the base class
        {"id": 4, "kind": "spec", "base": 0, "key": None, "over": {"0": "i3", "1": "i2", "3": "L 2 i1 i2", "4": "N"},
         "attrs": []},
        {"id": 5, "kind": "spec", "base": 4, "key": None, "over": {"0": "i5"}, "reann": {"1": "i4", "7": None},
         "attrs": [A(10, INT, "value", "i1")]},
        {"id": 6, "kind": "plain", "base": 5, "over": {"0": "i6"}},
        {"id": 7, "kind": "spec", "base": 2, "key": None, "reann": {"9": "i2", "0": None}, "over": {"5": "S 1 i3"},
         "attrs": []},
    ]
}


def AD(name, ty, dk="attrnone", d=None, prep=None, ip=None, inv=None, dprep=None, dip=None):
    """an attribute whose callbacks are (also) registered with the decorators of its `Attr(...)` object"""
    out = A(name, ty, dk, d, prep, ip, inv)
    out["dprep"], out["dip"] = dprep, dip
    return out


# every way a preparer / item preparer / default / default_factory can be declared: `_prepare_<a>` method, `@<a>.preparer`
# / `@<a>.item_preparer` on an `Attr(...)` object (with default, default_factory, without default), both at once; inherited
# untouched, by re-defaulting / re-annotating / `Attr`-redeclaring spec subclasses and plain subclasses; methods
# overridden in spec and plain subclasses with and without a new declaration of the attribute.
FAMILY_DECL = {
    "decl": True,
    "classes": [
        {"id": 1, "kind": "spec", "base": None, "key": None, "attrs": [
            A(0, INT, "attr", "i2"), AD(1, INT, "attr", "i3", dprep=4), AD(2, STR, "attr", "s101", dprep=2)]},
        {"id": 0, "kind": "spec", "base": None, "key": None, "attrs": [
            AD(0, INT, "attr", "i1", dprep=0),                       # Attr(default=…) + @a0.preparer
            AD(1, INT, "attrnone", None, dprep=4),                   # Attr() + @a1.preparer (reads a0)
            A(2, STR, "attr", "s100", prep=2),                       # Attr(default=…) + _prepare_a2
            AD(3, ["list", INT], "attrfactory", "L 1 i7", dip=0),    # Attr(default_factory=…) + @a3.item_preparer
            AD(4, ["set", INT], "attrfactory", "S 1 i1", dip=1),
            AD(5, ["dict", STR, INT], "attrnone", None, dip=0),
            AD(6, INT, "attr", "i2", prep=1, dprep=0),               # both spellings, different callbacks
            AD(7, V.opt(INT), "attr", "N", dprep=7),
            AD(8, ["spec", 1], "attrnone", None, dprep=5),           # dict-producing preparer, by decorator
            A(9, INT, "value", "i10", inv=[0]),                      # dependant of an attribute prepared by decorator
            AD(10, STR, "attrnone", None, dprep=3),
            AD(11, ["list", INT], "attrfactory", "L 0", ip=1, dip=1),   # both spellings, the same callback
            A(12, INT, "value", "i3", prep=6),                       # plain value + _prepare_a12
            AD(13, ["list", INT], "attr", "L 1 i2", dip=0),          # Attr(default=<mutable>) + @a13.item_preparer
            A(14, ["spec", 1]),
        ]},
        # (do_not_copy differing from the parent: the inherited Attr objects are copied / rebuilt, callbacks included)
        {"id": 2, "kind": "spec", "base": 0, "key": None, "dnc": [0, 3, 12], "attrs": [AD(15, INT, "attr", "i4", dprep=4)]},
        {"id": 3, "kind": "plain", "base": 2, "over": {"0": "i10", "2": "s102", "15": "i0", "3": "L 1 i4"}},
        {"id": 4, "kind": "spec", "base": 0, "key": None, "reann": {"0": "i3", "2": None, "12": "i4"}, "attrs": []},
        {"id": 5, "kind": "spec", "base": 0, "key": None, "attrs": [], "redecl": {
            "0": {"dk": "attr", "d": "i6", "ann": True, "dprep": 1, "dip": None},
            "3": {"dk": "attrfactory", "d": "L 1 i3", "ann": False, "dprep": None, "dip": 1},
            "12": {"dk": "attr", "d": "i5", "ann": False, "dprep": None, "dip": None},
            "10": {"dk": "attr", "d": "s101", "ann": True, "dprep": None, "dip": None},
            "4": {"dk": "attrnone", "d": None, "ann": True, "dprep": None, "dip": 0},
            "7": {"dk": "attr", "d": "i4", "ann": False, "dprep": None, "dip": None},
            "13": {"dk": "attrfactory", "d": "L 1 i5", "ann": False, "dprep": None, "dip": None}}},
        {"id": 6, "kind": "plain", "base": 5, "over": {"0": "i2", "12": "i6"}},
        {"id": 7, "kind": "spec", "base": 0, "key": None, "attrs": [], "pm": {"2": 3, "0": 1}, "ipm": {"3": 1}},
        {"id": 8, "kind": "plain", "base": 0, "pm": {"2": 3, "0": 1, "12": 0}, "ipm": {"4": 0}, "over": {"12": "i1"}},
        {"id": 9, "kind": "spec", "base": 7, "key": None, "attrs": [], "reann": {"2": None, "0": None}},
        {"id": 10, "kind": "spec", "base": 0, "key": None, "dnc": [2, 4], "attrs": [], "over": {"2": "s101", "12": "i0"}},
        {"id": 11, "kind": "spec", "base": 10, "key": None, "attrs": [], "redecl": {
            "2": {"dk": "attrnone", "d": None, "ann": True, "dprep": 3, "dip": None}}},
        {"id": 12, "kind": "plain", "base": 11, "over": {"0": "i0"}},
        # re-defaulting spec subclasses (since /repo a169c24 the inherited helpers prepare as `obj.a = v` does):
        # re-default + own `_prepare_…` (attribute spelled by method, by decorator, both; item preparers)
        {"id": 13, "kind": "spec", "base": 0, "key": None, "attrs": [],
         "over": {"2": "s102", "0": "i4", "12": "i2", "6": "i3", "3": "L 1 i2", "11": "L 1 i5"},
         "pm": {"2": 3, "0": 1, "12": 0, "6": 6}, "ipm": {"3": 1, "11": 0}},
        {"id": 14, "kind": "plain", "base": 13, "over": {"2": "s101", "0": "i1"}, "pm": {"12": 1}},
        # re-default below a class that only overrides the methods: the overrides become effective here
        {"id": 15, "kind": "spec", "base": 7, "key": None, "attrs": [], "over": {"2": "s101", "0": "i5", "3": "L 1 i1"}},
        # re-default of an attribute with both spellings (the method is found again), below a redeclaring class
        {"id": 16, "kind": "spec", "base": 5, "key": None, "attrs": [], "over": {"6": "i0", "12": "i7"}, "pm": {"10": 2}},
        # re-default of attributes whose callbacks were registered by decorator, no method in sight (since /repo 62b86d6
        # the registrations are carried over): scalars, item preparers, dict-producing preparer's neighbour, Optional;
        # plain subclass, a second re-default and a differing do_not_copy below; re-default below the untouched class 2,
        # below the redeclaring class 5 (new decorators), below the re-annotating class 4 (registration dropped there)
        {"id": 17, "kind": "spec", "base": 0, "key": None, "attrs": [],
         "over": {"0": "i4", "1": "i2", "3": "L 1 i2", "4": "S 1 i2", "5": "D 1 s100 i3", "7": "i5", "10": "i7", "13": "L 2 i1 i3",
                  "11": "L 1 i4"}},
        {"id": 18, "kind": "plain", "base": 17, "over": {"0": "i3", "3": "L 1 i6"}},
        {"id": 19, "kind": "spec", "base": 17, "key": None, "dnc": [0, 3], "attrs": [], "over": {"0": "i6", "4": "S 1 i5", "7": "N"}},
        {"id": 20, "kind": "spec", "base": 2, "key": None, "attrs": [], "over": {"15": "i2", "0": "i3", "3": "L 1 i9"}},
        {"id": 21, "kind": "spec", "base": 5, "key": None, "attrs": [], "over": {"0": "i8", "3": "L 1 i8", "4": "S 1 i3", "7": "i1"}},
        {"id": 22, "kind": "spec", "base": 4, "key": None, "attrs": [], "over": {"0": "i9", "1": "i1"}},
    ]
}


def applicable_preps(ad):
    ty = ad["ty"]
    if ty == INT:
        return [0, 1, 6] + ([4] if ad["name"] > 0 else [])
    if ty == STR:
        return [2, 3]
    if ty == V.opt(INT):
        return [7]
    if ty[0] == "spec":
        return [5]
    return []


def applicable_ips(ad):
    return [0, 1] if ad["ty"] in (["list", INT], ["set", INT], ["dict", STR, INT]) else []


def decorate_family(rng, fam):
    """the same family with its callbacks declared in every spelling: about half of the `_prepare_…` methods become
    decorator registrations on `Attr(...)` objects (some get both, some attributes without callback get a decorator);
    subclasses override methods, re-default, re-annotate, or redeclare inherited attributes with new `Attr(...)`
    objects."""
    fam = copy.deepcopy(fam)
    fam.pop("decl", None)          # (set when complete: `effective_attrs` memoises families that carry it)
    for cd in fam["classes"]:
        if cd["kind"] != "spec":
            continue
        for ad in cd.get("attrs", []):
            if ad.get("inv") or ad["dk"] not in ("none", "value", "factory", "attr", "attrfactory"):
                continue
            if cd.get("key") == ad["name"]:
                continue
            for m, d, pool in (("prep", "dprep", applicable_preps(ad)), ("ip", "dip", applicable_ips(ad))):
                if not pool:
                    continue
                r = rng.random()
                if ad.get(m) is not None:
                    if r < 0.5:
                        ad[d], ad[m] = ad[m], None
                    elif r < 0.62:
                        ad[d] = rng.choice(pool)
                elif r < 0.15:
                    ad[d] = rng.choice(pool)
            if ad.get("dprep") is not None or ad.get("dip") is not None:
                ad["dk"] = {"none": "attrnone", "value": "attr", "factory": "attrfactory"}.get(ad["dk"], ad["dk"])
    for cd in fam["classes"]:
        if cd.get("base") is None:
            continue
        eff = [ad for ad in V.effective_attrs(fam, cd["base"]) if not ad.get("ovf") and not ad.get("inv")
               and V.effective_key(fam, cd["base"]) != ad["name"]]
        for ad in rng.sample(eff, min(len(eff), rng.randint(0, 3))):
            sa = str(ad["name"])
            how = rng.choice(["pm", "pm", "redecl", "reann"] if cd["kind"] == "spec" else ["pm"])
            has_spec = any(m[0] == "spec" for m in V.union_members(ad["ty"]))
            if how == "pm":
                if applicable_preps(ad) and rng.random() < 0.7:
                    cd.setdefault("pm", {})[sa] = rng.choice(applicable_preps(ad))
                if applicable_ips(ad) and rng.random() < 0.7:
                    cd.setdefault("ipm", {})[sa] = rng.choice(applicable_ips(ad))
            elif how == "redecl" and not has_spec:
                mutable = ad["ty"][0] in ("list", "set", "dict")
                dk = rng.choice(["attrfactory", "attr", "attrnone", "fieldfactory"] if mutable
                                else ["attr", "attr", "attrnone", "field"])
                rd = {"dk": dk, "d": None if dk == "attrnone" else gen_value(rng, fam, ad["ty"], 0),
                      "ann": rng.random() < 0.5, "dprep": None, "dip": None}
                if dk in ("attr", "attrfactory", "attrnone"):
                    if applicable_preps(ad) and rng.random() < 0.5:
                        rd["dprep"] = rng.choice(applicable_preps(ad))
                    if applicable_ips(ad) and rng.random() < 0.5:
                        rd["dip"] = rng.choice(applicable_ips(ad))
                cd.setdefault("redecl", {})[sa] = rd
                (cd.get("over") or {}).pop(sa, None)
            elif how == "reann" and not has_spec and ad.get("dk") in ("none", "value", "attr", "attrnone"):
                keep = ad.get("dk") in ("none", "value", "attr") and rng.random() < 0.4
                cd.setdefault("reann", {})[sa] = None if keep else gen_value(rng, fam, ad["ty"], 0)
                (cd.get("over") or {}).pop(sa, None)
    fam["decl"] = True
    return fam


def lazy_variant(fam):
    """the same family with lazily bootstrapped spec classes"""
    out = copy.deepcopy(fam)
    for cd in out["classes"]:
        if cd["kind"] == "spec":
            cd["eager"] = False
    return out


# invalidated_by: dependants (no preparers) of attributes a0 / a4, transitively a2 <- a1 <- a0
FAMILY_INV = {
    "classes": [
        {"id": 1, "kind": "spec", "base": None, "key": None, "attrs": [
            A(0, INT, "value", "i1"), A(1, INT, "value", "i7", inv=[0])]},
        {"id": 0, "kind": "spec", "base": None, "key": None, "attrs": [
            A(0, INT, "value", "i1"),
            A(1, INT, "value", "i10", inv=[0]),
            A(2, INT, inv=[1]),
            A(3, STR, "value", "s100", inv=[0, 4]),
            A(4, INT, "value", "i0", prep=1),
            A(5, ["list", INT], "factory", "L 1 i1", inv=[4]),
            A(6, V.opt(INT), "value", "N", inv=[7]),
            A(7, ["spec", 1]),
            A(8, BOOL, "value", "F", inv=[2]),
        ]},
        {"id": 2, "kind": "spec", "base": 0, "key": None, "over": {"0": "i2", "1": "i11"}, "attrs": [
            A(9, INT, "value", "i5", inv=[0, 8])]},
        {"id": 3, "kind": "plain", "base": 2, "over": {"3": "s101", "0": "i0"}},
    ]
}

# nested spec classes whose generated constructor takes **kwargs (`init_overflow_attr`): plain, keyed, with a spec
# subclass, Optional; next to an ordinary nested class, so that keyword constructions of different classes interleave
FAMILY_OVF = {
    "classes": [
        {"id": 1, "kind": "spec", "base": None, "key": None, "ovf": 5, "attrs": [
            A(0, INT, "value", "i1"), A(1, STR, "value", "s100", prep=2)]},
        {"id": 2, "kind": "spec", "base": None, "key": 0, "ovf": 5, "attrs": [A(0, STR), A(1, INT, "value", "i1")]},
        {"id": 3, "kind": "spec", "base": None, "key": None, "attrs": [
            A(0, INT, "value", "i2"), A(1, STR, "value", "s101")]},
        {"id": 4, "kind": "spec", "base": 1, "key": None, "over": {"0": "i7"}, "attrs": [A(2, INT, "value", "i3")]},
        {"id": 0, "kind": "spec", "base": None, "key": None, "attrs": [
            A(0, INT, "value", "i1"),
            A(1, ["spec", 1]),
            A(2, ["spec", 2]),
            A(3, ["spec", 3]),
            A(4, V.opt(["spec", 1]), "value", "N"),
            A(5, ["spec", 1], prep=5),
            A(6, STR, "value", "s100"),
            A(7, ["spec", 4]),
            A(8, ["spec", 1]),
        ]},
        {"id": 5, "kind": "plain", "base": 0, "over": {"0": "i4"}},
        {"id": 6, "kind": "spec", "base": 0, "key": None, "attrs": [A(9, ["spec", 2]), A(10, INT, "value", "i0")]},
    ]
}

# the receiver's own class takes **kwargs (its `update(**kw)` accepts any keyword); a dependant of the overflow attribute
FAMILY_OVFTOP = {
    "classes": [
        {"id": 1, "kind": "spec", "base": None, "key": None, "ovf": 9, "attrs": [A(0, INT, "value", "i1")]},
        {"id": 0, "kind": "spec", "base": None, "key": None, "ovf": 9, "attrs": [
            A(0, INT, "value", "i1"),
            A(1, STR, "value", "s100"),
            A(2, ["spec", 1]),
            A(3, ["list", INT], "value", "L 0"),
            A(4, INT, "value", "i7", inv=[9]),
        ]},
        {"id": 2, "kind": "plain", "base": 0, "over": {"1": "s101"}},
    ]
}

EXTRA_NAMES = [40, 41, 42, 43, 44]           # keywords no class of any family manages ("a40" … "a44")
EXTRA_VALUES = ["i1", "i4", "s100", "s102", "N", "T", "f3", "L 1 i1", "D 1 s100 i1", "L 0"]


# a default that cannot be assigned (its preparer answers a non-conforming value): reset / del must raise
# and leave everything as it was, also in place
FAMILY_BADDEFAULT = {
    "classes": [
        {"id": 0, "kind": "spec", "base": None, "key": None, "attrs": [
            A(0, INT, "value", "i1"), A(1, INT, "value", "i13", prep=6), A(2, INT, "value", "i2"), A(3, STR)]},
        {"id": 1, "kind": "plain", "base": 0, "over": {"2": "i0"}},
    ]
}


def baddefault_cases():
    for cid in (0, 1):
        for fl in ("i", "-", "a", "ia"):
            yield {"family": FAMILY_BADDEFAULT, "fname": "baddef", "cls": cid, "init": [[1, "i1"]], "origin": "directed-bad-default",
                   "ops": [{"k": "with", "fl": "i", "a": 0, "v": "i9", "kw": []}, {"k": "with", "fl": "i", "a": 2, "v": "i9", "kw": []},
                           {"k": "RST", "fl": fl}, {"k": "rst", "fl": fl, "a": 1}, {"k": "del", "a": 1},
                           {"k": "rst", "fl": fl, "a": 0}, {"k": "RST", "fl": fl}, {"k": "set", "a": 1, "v": "i6"},
                           {"k": "UPD", "fl": fl, "v": "M", "kw": [[0, "i3"], [1, "i13"], [2, "i4"]]}]}
        yield {"family": FAMILY_BADDEFAULT, "fname": "baddef", "cls": cid, "init": [], "ops": [], "origin": "directed-bad-default"}


SCALAR_TYPES = [INT, STR, BOOL, FLOAT, V.opt(INT), V.opt(STR), ["union", INT, STR], ["lit", ["s100", "s101"]],
                ["lit", ["i1", "i2", "s100"]]]
COLL_TYPES = [["list", INT], ["list", STR], ["set", INT], ["dict", STR, INT], ["dict", INT, STR], ["set", STR]]


def random_family(rng):
    """a family from the grammar: 1-2 nested classes (one possibly keyed), a top class, subclasses"""
    classes = []
    nested_ids = []
    nid = 1
    for _ in range(rng.randint(1, 2)):
        attrs = []
        keyed = rng.random() < 0.35
        for a in range(rng.randint(2, 4)):
            ty = rng.choice(SCALAR_TYPES[:4] + [V.opt(INT)])
            attrs.append(rand_attr(rng, a, ty, nested_ids, allow_selfprep=(a > 0)))
        key = None
        if keyed:
            key = 0
            attrs[0] = A(0, rng.choice([STR, INT]))
        classes.append({"id": nid, "kind": "spec", "base": None, "key": key, "attrs": attrs})
        if rng.random() < 0.3:
            classes[-1]["ovf"] = 30          # the constructor takes **kwargs
        nested_ids.append(nid)
        nid += 1
    if rng.random() < 0.5:
        base = nested_ids[0]
        classes.append({"id": nid, "kind": "spec", "base": base, "key": None, "over": {},
                        "attrs": [rand_attr(rng, 8, rng.choice(SCALAR_TYPES[:3]), [], allow_selfprep=True)]})
        nested_ids.append(nid)
        nid += 1
    attrs = []
    n = rng.randint(4, 8)
    for a in range(n):
        r = rng.random()
        if r < 0.45:
            ty = rng.choice(SCALAR_TYPES)
        elif r < 0.7:
            ty = rng.choice(COLL_TYPES)
        elif r < 0.9:
            ty = ["spec", rng.choice(nested_ids)]
        else:
            ty = V.opt(["spec", rng.choice(nested_ids)])
        attrs.append(rand_attr(rng, a, ty, nested_ids, allow_selfprep=(a > 0)))
    classes.append({"id": 0, "kind": "spec", "base": None, "key": None, "attrs": attrs})
    if rng.random() < 0.12:
        classes[-1]["ovf"] = 31
    top = 0
    fam = {"classes": classes}
    # subclasses: plain and/or spec, one or two levels
    next_id = nid
    cur = top
    for level in range(rng.randint(0, 2)):
        kind = rng.choice(["plain", "spec"])
        over = {}
        eff = V.effective_attrs(fam, cur)
        for ad in rng.sample(eff, min(len(eff), rng.randint(0, 2))):
            if any(m[0] == "spec" for m in V.union_members(ad["ty"])):
                continue
            over[str(ad["name"])] = gen_value(rng, fam, ad["ty"], depth=0)
        cd = {"id": next_id, "kind": kind, "base": cur, "key": None, "over": over}
        if kind == "spec":
            cd["attrs"] = [rand_attr(rng, 20 + level, rng.choice(SCALAR_TYPES[:4]), [], allow_selfprep=True)]
        classes.append(cd)
        cur = next_id
        next_id += 1
    return fam


def rand_attr(rng, a, ty, nested_ids, allow_selfprep):
    dk, d = "none", None
    fam_stub = {"classes": []}
    has_spec = any(m[0] == "spec" for m in V.union_members(ty))
    if has_spec and ty[0] == "union" and rng.random() < 0.65:
        dk, d = "value", "N"
    elif not has_spec and rng.random() < 0.65:
        mutable = ty[0] in ("list", "set", "dict")
        dk = rng.choice(["value", "factory", "attr", "field"] if not mutable else ["value", "factory", "attrfactory", "fieldfactory"])
        d = gen_value(rng, fam_stub, ty, depth=0)
    prep = ip = None
    r = rng.random()
    if ty == INT and r < 0.35:
        prep = rng.choice([0, 1, 4, 6] if allow_selfprep else [0, 1, 6])
    elif ty == STR and r < 0.35:
        prep = rng.choice([2, 3])
    elif ty == V.opt(INT) and r < 0.3:
        prep = 7
    elif ty[0] == "spec" and r < 0.2:
        prep = 5
    if ty in (["list", INT], ["set", INT], ["dict", STR, INT]) and rng.random() < 0.3:
        ip = rng.choice([0, 1])
    return A(a, ty, dk, d, prep, ip)


# ---------------------------------------------------------------------------
# value pools
# ---------------------------------------------------------------------------

INTS = ["i0", "i1", "i2", "i3", "i-4", "i13", "i6", "i20"]
STRS = ["s100", "s101", "s102", "s999", "s1100"]
FLTS = ["f3", "f5", "f-1", "i2"]
GENERAL = ["N", "T", "i1", "i-4", "f3", "s100", "s102", "L 0", "L 1 i1", "L 1 s100", "S 1 i1", "D 0", "D 1 s100 i1",
           "D 1 i1 s100", "L 1 N"]


def nobool(t):
    """`True == 1` in a set / as a dict key: keep hashed positions free of bools"""
    return {"T": "i1", "F": "i0"}.get(t, t)


def general_for(ty):
    """the general pool minus strings when `ty` is a list/set of strings (a str iterates into characters)"""
    if ty[0] in ("list", "set") and ty[1][0] in ("str", "any", "union", "lit"):
        return [g for g in GENERAL if not g.startswith("s")]
    return GENERAL


def gen_value(rng, fam, ty, depth=1):
    """tokens of a value conforming to `ty`"""
    k = ty[0]
    if k == "int":
        return rng.choice(INTS + (["T"] if rng.random() < 0.05 else []))
    if k == "str":
        return rng.choice(STRS)
    if k == "bool":
        return rng.choice(["T", "F"])
    if k == "float":
        return rng.choice(FLTS)
    if k == "none":
        return "N"
    if k == "any":
        return rng.choice(GENERAL)
    if k == "lit":
        return rng.choice(ty[1])
    if k == "union":
        return gen_value(rng, fam, rng.choice(V.union_members(ty)), depth)
    if k == "list":
        n = rng.choice([0, 1, 2, 2, 3])
        return " ".join(["L", str(n)] + [nobool(gen_value(rng, fam, ty[1], depth)) for _ in range(n)])
    if k == "set":
        xs = sorted({nobool(gen_value(rng, fam, ty[1], depth)) for _ in range(rng.choice([0, 1, 2, 3]))})
        return " ".join(["S", str(len(xs))] + xs)
    if k == "dict":
        d = {}
        for _ in range(rng.choice([0, 1, 2])):
            d[nobool(gen_value(rng, fam, ty[1], depth))] = nobool(gen_value(rng, fam, ty[2], depth))
        return " ".join(["D", str(len(d))] + [f"{a} {b}" for a, b in d.items()])
    if k == "spec":
        return gen_inst(rng, fam, ty[1], depth)
    if k == "valid":
        return rng.choice(VALID_GOOD[ty[1]])
    raise ValueError(ty)


VALID_GOOD = {0: ["i0", "i1", "i3", "i20"], 1: ["i1", "i2", "i10"], 2: ["s100", "s101", "s1100"], 3: ["i0", "i2", "i-4", "i20"]}
VALID_BAD = {0: ["i-4", "i-1"], 1: ["i0", "i-4", "i13", "i20"], 2: ["s999"], 3: ["i1", "i3", "i13"]}


def subclasses_of(fam, cid):
    return [cd["id"] for cd in fam["classes"] if cd["id"] == cid or cid in V.supers(fam, cd["id"])]


def gen_inst(rng, fam, cid, depth=1):
    """raw state of an instance of `cid` (or, sometimes, of a subclass): any subset of conforming attributes"""
    if rng.random() < 0.25:
        cid = rng.choice(subclasses_of(fam, cid))
    fs = []
    for ad in V.effective_attrs(fam, cid):
        if ad["ty"][0] == "spec" or (ad["ty"][0] == "union" and any(m[0] == "spec" for m in V.union_members(ad["ty"]))):
            if depth <= 0 or rng.random() < 0.5:
                if ad["ty"][0] == "union" and (ad.get("d") is not None or rng.random() < 0.5):
                    fs.append(f"{ad['name']} N")
                continue
            fs.append(f"{ad['name']} {gen_value(rng, fam, ad['ty'], depth - 1)}")
        elif ad.get("d") is not None or rng.random() < 0.7:
            # (an attribute with a default is always set on a reachable instance)
            fs.append(f"{ad['name']} {gen_value(rng, fam, ad['ty'], depth)}")
    return " ".join(["I", str(cid), str(len(fs))] + fs)


def gen_dict_for(rng, fam, cid):
    """a dict of constructor keywords of class `cid` (dict-to-spec casting)"""
    eff = [ad for ad in V.effective_attrs(fam, cid) if ad["ty"][0] != "spec"]
    chosen = rng.sample(eff, rng.randint(0, min(2, len(eff))))
    key = V.effective_key(fam, cid)
    if key is not None and all(ad["name"] != key for ad in chosen):
        chosen = [ad for ad in V.effective_attrs(fam, cid) if ad["name"] == key] + chosen
    have = {ad["name"] for ad in chosen}
    items = [f"s{ad['name']} {gen_value(rng, fam, ad['ty'], 0)}" for ad in chosen]
    items += [f"s{n} {v}" for n, v in gen_extras(rng, fam, cid) if n not in have]
    return " ".join(["D", str(len(items))] + items)


def gen_extras(rng, fam, cid, p=0.6):
    """extra constructor keywords (names no class manages; now and then the overflow attribute's own name) for a
    class whose constructor takes **kwargs; [] for the others"""
    o = V.effective_ovf(fam, cid)
    if o is None or rng.random() >= p:
        return []
    names = rng.sample(EXTRA_NAMES, rng.randint(1, 2))
    if rng.random() < 0.1:
        names.append(o)
    return [[n, rng.choice(EXTRA_VALUES)] for n in names]


def spec_member(ty):
    ms = [m for m in V.union_members(ty) if m[0] == "spec"]
    return ms[0][1] if len(ms) == 1 else None


def gen_arg(rng, fam, ad, sentinel_p=0.07, bad_p=0.06):
    """a value for attribute `ad`: mostly conforming (in one of the accepted input forms)"""
    r = rng.random()
    if r < sentinel_p:
        return rng.choice(["M", "M", "E", "U", "U"])
    ty = ad["ty"]
    if r < sentinel_p + bad_p:
        return rng.choice(general_for(ty))
    sm = spec_member(ty)
    if sm is not None and rng.random() < 0.3:
        return gen_dict_for(rng, fam, sm)
    if ty[0] == "list" and rng.random() < 0.12:
        x = nobool(gen_value(rng, fam, ty[1], 0))
        return rng.choice([f"S 1 {x}", "S 0", "N"])
    if ty[0] == "set" and rng.random() < 0.2:
        xs = [nobool(gen_value(rng, fam, ty[1], 0)) for _ in range(rng.randint(0, 3))]
        return rng.choice([" ".join(["L", str(len(xs))] + xs), "N"])
    if ad.get("prep") == 3 and rng.random() < 0.5:
        return rng.choice(["i0", "i1", "i5", "i699", "i700", "i-1"])
    if ad.get("prep") == 5 and rng.random() < 0.5:
        return rng.choice(INTS)
    if ad.get("prep") == 7 and rng.random() < 0.4:
        return "N"
    return gen_value(rng, fam, ty, 1)


def gen_kw(rng, fam, cid, lo=1, hi=3, sentinel_p=0.05):
    eff = V.effective_attrs(fam, cid)
    ovf = V.effective_ovf(fam, cid) is not None
    chosen = rng.sample(eff, min(len(eff), rng.randint(0 if ovf and lo > 0 else lo, hi)))
    rng.shuffle(chosen)
    # (a sentinel handed to the constructor under the overflow attribute's own name would end up INSIDE the
    #  collected dict: sentinels inside collections are outside the model and the documentation)
    kw = [[ad["name"], gen_arg(rng, fam, ad, sentinel_p=0.0 if ad.get("ovf") else sentinel_p)] for ad in chosen]
    if ovf:
        have = {a for a, _ in kw}
        kw += [x for x in gen_extras(rng, fam, cid, p=1.0 if not kw else 0.6) if x[0] not in have]
        rng.shuffle(kw)
    return kw


TRS_INT = ["inc", "dbl", "neg", "idt", "cst i3", "cst i13"]
TRS_STR = ["up", "idt", "cst s101"]


def gen_tr(rng, fam, ad):
    ty = ad["ty"]
    r = rng.random()
    if r < 0.05:
        return rng.choice(["cst M", "cst U", "cst E"])
    if r < 0.1:
        return "cst " + rng.choice(general_for(ty))
    k = ty[0]
    if k in ("int", "float", "bool"):
        return rng.choice(TRS_INT if k == "int" else ["inc", "idt"])
    if k == "str":
        return rng.choice(TRS_STR)
    if k in ("list", "set"):
        return rng.choice(["app " + nobool(gen_value(rng, fam, ty[1], 0)), "idt", "cst " + gen_value(rng, fam, ty, 0)])
    if k == "union" or k == "lit":
        return rng.choice(["inc", "up", "idt", "cst " + gen_value(rng, fam, ty, 0)])
    return rng.choice(["idt", "cst " + gen_value(rng, fam, ty, 1)])


def gen_kt(rng, fam, cid, lo=1, hi=2):
    eff = V.effective_attrs(fam, cid)
    chosen = rng.sample(eff, min(len(eff), rng.randint(lo, hi)))
    kt = [[ad["name"], gen_tr(rng, fam, ad)] for ad in chosen]
    if V.effective_ovf(fam, cid) is not None and rng.random() < 0.3:
        # a keyword the class does not manage: its "current value" is MISSING; an answer other than MISSING is
        # stored as a plain instance attribute
        kt.append([rng.choice(EXTRA_NAMES), rng.choice(["idt", "idt", "cst i3", "cst M"])])
    return kt


def gen_flags(rng):
    fl = ""
    if rng.random() < 0.45:
        fl += "i"
    if rng.random() < 0.1:
        fl += "n"
    if rng.random() < 0.55:
        fl += "a"
    return fl or "-"


def gen_op(rng, fam, cid):
    eff = V.effective_attrs(fam, cid)
    ad = rng.choice(eff)
    nested = [x for x in eff if x["ty"][0] == "spec"]
    if nested and rng.random() < 0.3:
        ad = rng.choice(nested)  # keyword forms exist only for spec-typed attributes
    a = ad["name"]
    kwc = ad["ty"][1] if ad["ty"][0] == "spec" else None
    fl = gen_flags(rng)
    kind = rng.choice(["with", "with", "with", "upd", "upd", "tra", "tra", "rst", "set", "set", "del",
                       "UPD", "UPD", "TRA", "TRA", "RST"])
    if kind in ("with", "upd"):
        form = rng.choice(["v", "v", "kw", "vkw", "none"]) if kwc is not None else rng.choice(["v", "v", "v", "none"])
        v, kw = "M", []
        if form in ("v", "vkw"):
            v = gen_arg(rng, fam, ad)
        if form in ("kw", "vkw"):
            kw = gen_kw(rng, fam, kwc, 1, 3)
        if kwc is None and rng.random() < 0.02:
            kw = [[0, "i1"]]  # keywords on an attribute that takes none
        return {"k": kind, "fl": fl, "a": a, "v": v, "kw": kw}
    if kind == "tra":
        form = rng.choice(["f", "f", "kt", "fkt", "none"]) if kwc is not None else "f"
        f, kt = None, []
        if form == "f":
            f = gen_tr(rng, fam, ad)
        if form == "fkt":
            # (a sentinel is a class object: `setattr(EMPTY, …)` would decorate the library's singleton)
            f = rng.choice(["idt", "cst " + gen_value(rng, fam, ad["ty"], 1)])
        if form in ("kt", "fkt"):
            kt = gen_kt(rng, fam, kwc)
        return {"k": "tra", "fl": fl, "a": a, "f": f, "kt": kt}
    if kind == "rst":
        return {"k": "rst", "fl": fl, "a": a}
    if kind == "set":
        return {"k": "set", "a": a, "v": gen_arg(rng, fam, ad)}
    if kind == "del":
        return {"k": "del", "a": a}
    if kind == "UPD":
        form = rng.choice(["kw", "kw", "kw", "v", "vkw", "none"])
        v, kw = "M", []
        if form in ("v", "vkw"):
            v = rng.choice([gen_inst(rng, fam, cid, 1), gen_inst(rng, fam, cid, 1), "U", "M", "E", "i5", "N"])
        if form in ("kw", "vkw"):
            kw = gen_kw(rng, fam, cid, 1, 4)
        if rng.random() < 0.02:
            kw = kw + [[77, "i1"]]
        return {"k": "UPD", "fl": fl, "v": v, "kw": kw}
    if kind == "TRA":
        form = rng.choice(["kt", "kt", "kt", "f", "fkt", "none"])
        f, kt = None, []
        if form in ("f", "fkt"):
            f = "cst " + rng.choice([gen_inst(rng, fam, cid, 1), gen_inst(rng, fam, cid, 1), "i5"])
        if form in ("kt", "fkt"):
            kt = gen_kt(rng, fam, cid, 1, 3)
        return {"k": "TRA", "fl": fl, "f": f, "kt": kt}
    return {"k": "RST", "fl": fl}


def top_classes(fam):
    """classes used as receivers: class 0 and everything derived from it"""
    return subclasses_of(fam, 0)


def gen_case(rng, fam, fname, nops):
    cid = rng.choice(top_classes(fam))
    eff = V.effective_attrs(fam, cid)
    init = []
    for ad in rng.sample(eff, rng.randint(0, min(4, len(eff)))):
        init.append([ad["name"], gen_arg(rng, fam, ad, sentinel_p=0.0 if ad.get("ovf") else 0.02, bad_p=0.01)])
    init += [x for x in gen_extras(rng, fam, cid, p=0.5) if x[0] not in {a for a, _ in init}]
    ops = [gen_op(rng, fam, cid) for _ in range(nops)]
    return {"family": fam, "fname": fname, "cls": cid, "init": init, "ops": ops}


FALSY = {"int": ["i0"], "str": ["s999"], "bool": ["F"], "float": ["f0", "i0"], "none": ["N"]}


def falsy_value(rng, fam, ty):
    """a falsy conforming value where the annotation has one (0, "", False, None, empty container)"""
    k = ty[0]
    if k in FALSY:
        return rng.choice(FALSY[k])
    if k == "union":
        for m in V.union_members(ty):
            if m[0] in FALSY:
                return rng.choice(FALSY[m[0]])
    if k == "list":
        return "L 0"
    if k == "set":
        return "S 0"
    if k == "dict":
        return "D 0"
    return gen_value(rng, fam, ty, 0)


def directed_cases(rng, fam, fname):
    """
    (1) reset_<a> / del / reset restore the default of the RECEIVER's class: for every class (plain and
        spec subclasses, one and two levels) and every attribute: set a non-default value, reset it, by copy
        and in place, through reset_<a>, del and reset().
    (2) reset() when default-less attributes declared earlier are unset (after reset_<a> / del / an earlier
        reset) while later attributes hold non-default values.
    (3) falsy values (0, "", False, None, empty containers) as arguments and as defaults.
    """
    for cid in top_classes(fam):
        eff = V.effective_attrs(fam, cid)
        ops_copy, ops_inpl, ops_del = [], [], []
        for ad in eff:
            if ad["ty"][0] == "spec":
                continue
            a = ad["name"]
            v = gen_value(rng, fam, ad["ty"], 0)
            ops_copy += [{"k": "with", "fl": "a", "a": a, "v": v, "kw": []}, {"k": "rst", "fl": "a", "a": a}]
            ops_inpl += [{"k": "with", "fl": "i", "a": a, "v": v, "kw": []}, {"k": "rst", "fl": "i", "a": a}]
            ops_del += [{"k": "set", "a": a, "v": gen_value(rng, fam, ad["ty"], 0)}, {"k": "del", "a": a}]
        for ops in (ops_copy, ops_inpl, ops_del):
            for i in range(0, len(ops), 12):
                yield {"family": fam, "fname": fname, "cls": cid, "init": [], "ops": ops[i:i + 12], "origin": "directed-reset"}
        # (2) unset the default-less attributes in every way, give the others non-default values, reset()
        nodef = [ad for ad in eff if ad.get("d") is None and ad["ty"][0] != "spec"]
        others = [ad for ad in eff if ad.get("d") is not None and ad["ty"][0] != "spec"]
        for how in ("never-set", "rst", "del", "RST"):
            for fl in ("a", "i"):
                ops = []
                if how != "never-set":
                    for ad in nodef:
                        ops.append({"k": "set", "a": ad["name"], "v": gen_value(rng, fam, ad["ty"], 0)})
                    if how == "rst":
                        ops += [{"k": "rst", "fl": fl, "a": ad["name"]} for ad in nodef]
                    elif how == "del":
                        ops += [{"k": "del", "a": ad["name"]} for ad in nodef]
                    else:
                        ops.append({"k": "RST", "fl": fl})
                for ad in others:
                    ops.append({"k": "with", "fl": fl, "a": ad["name"], "v": gen_value(rng, fam, ad["ty"], 0), "kw": []})
                ops.append({"k": "RST", "fl": fl})
                ops.append({"k": "RST", "fl": fl})
                yield {"family": fam, "fname": fname, "cls": cid, "init": [], "ops": ops, "origin": "directed-reset-all"}
        # (3) falsy arguments through every whole-attribute route
        ops = []
        for ad in eff:
            if ad["ty"][0] == "spec":
                continue
            a, v = ad["name"], falsy_value(rng, fam, ad["ty"])
            route = rng.choice(["with", "set", "upd", "UPD", "tra"])
            fl = rng.choice(["a", "i", "-"])
            if route in ("with", "upd"):
                ops.append({"k": route, "fl": fl, "a": a, "v": v, "kw": []})
            elif route == "set":
                ops.append({"k": "set", "a": a, "v": v})
            elif route == "UPD":
                ops.append({"k": "UPD", "fl": fl, "v": "M", "kw": [[a, v]]})
            else:
                ops.append({"k": "tra", "fl": fl, "a": a, "f": "cst " + v, "kt": []})
        for i in range(0, len(ops), 12):
            yield {"family": fam, "fname": fname, "cls": cid,
                   "init": [[ad["name"], falsy_value(rng, fam, ad["ty"])] for ad in eff[:3] if ad["ty"][0] != "spec"],
                   "ops": ops[i:i + 12], "origin": "directed-falsy"}


def inv_cases(rng, fam, fname):
    """
    Writes of a value EQUAL to the stored one must still put the dependants (`invalidated_by`) back at their
    defaults: move the dependants off their defaults, then write the invalidating attribute through every route
    (equal value, identity transform, reset while already at the default), by copy and in place.
    """
    for cid in top_classes(fam):
        eff = V.effective_attrs(fam, cid)
        deps = [ad for ad in eff if ad.get("inv")]
        srcs = sorted({a for ad in deps for a in ad["inv"]})
        for src in srcs:
            sad = attr_desc(fam, cid, src)
            if sad is None or sad["ty"][0] == "spec":
                continue
            v = gen_value(rng, fam, sad["ty"], 0)
            for route in ("with", "set", "upd", "UPD", "tra", "TRA", "rst", "del", "RST1"):
                for fl in ("-", "i"):
                    ops = [{"k": "set", "a": src, "v": v}]
                    if route in ("rst", "del", "RST1"):
                        ops = [{"k": "rst", "fl": "i", "a": src}] if sad.get("d") is not None else ops
                    for ad in deps:                       # off their defaults (in dependency order: sources first)
                        if ad["ty"][0] != "spec":
                            ops.append({"k": "with", "fl": "i", "a": ad["name"], "v": gen_value(rng, fam, ad["ty"], 0), "kw": []})
                    deps_rev = list(reversed(deps))
                    for ad in deps_rev:
                        if ad["ty"][0] != "spec":
                            ops.append({"k": "with", "fl": "i", "a": ad["name"], "v": gen_value(rng, fam, ad["ty"], 0), "kw": []})
                    if route in ("with", "upd"):
                        ops.append({"k": route, "fl": fl, "a": src, "v": v, "kw": []})
                    elif route == "set":
                        ops.append({"k": "set", "a": src, "v": v})
                    elif route == "UPD":
                        ops.append({"k": "UPD", "fl": fl, "v": "M", "kw": [[src, v]]})
                    elif route == "tra":
                        ops.append({"k": "tra", "fl": fl, "a": src, "f": "idt", "kt": []})
                    elif route == "TRA":
                        ops.append({"k": "TRA", "fl": fl, "f": None, "kt": [[src, "idt"]]})
                    elif route == "rst":
                        ops.append({"k": "rst", "fl": fl, "a": src})
                    elif route == "del":
                        ops.append({"k": "del", "a": src})
                    else:
                        ops.append({"k": "rst", "fl": fl, "a": src})
                    yield {"family": fam, "fname": fname, "cls": cid, "init": [], "ops": ops, "origin": "directed-invalidation"}


def prep_inherit_cases(rng, fam, fname, flags=("-", "i", "a"), only=None):
    """
    Preparers / item preparers declared on a base class must still apply in spec subclasses that re-default or
    re-annotate the attribute (and in their plain subclasses): every route, with values the preparer changes.
    """
    for cid in top_classes(fam):
        if only is not None and cid not in only:
            continue
        eff = [ad for ad in V.effective_attrs(fam, cid) if (ad.get("prep") is not None or ad.get("ip") is not None)
               and ad["ty"][0] != "spec"]
        for fl in (flags or (rng.choice(("-", "i", "a")),)):
            ops = []
            for ad in eff:
                a = ad["name"]
                v = gen_arg(rng, fam, ad, sentinel_p=0.0, bad_p=0.0)
                ops += [{"k": "with", "fl": fl, "a": a, "v": v, "kw": []},
                        {"k": "set", "a": a, "v": gen_arg(rng, fam, ad, sentinel_p=0.0, bad_p=0.0)},
                        {"k": "upd", "fl": fl, "a": a, "v": gen_arg(rng, fam, ad, sentinel_p=0.0, bad_p=0.0), "kw": []},
                        {"k": "tra", "fl": fl, "a": a, "f": rng.choice(["idt", "inc", "cst " + gen_value(rng, fam, ad["ty"], 0)]), "kt": []},
                        {"k": "UPD", "fl": fl, "v": "M", "kw": [[a, gen_arg(rng, fam, ad, sentinel_p=0.0, bad_p=0.0)]]},
                        {"k": "TRA", "fl": fl, "f": None, "kt": [[a, rng.choice(["idt", "inc"])]]},
                        {"k": "rst", "fl": fl, "a": a}, {"k": "set", "a": a, "v": gen_value(rng, fam, ad["ty"], 0)},
                        {"k": "del", "a": a}]
            for i in range(0, len(ops), 12):
                init = [[ad["name"], gen_arg(rng, fam, ad, sentinel_p=0.0, bad_p=0.0)] for ad in eff[:3]]
                yield {"family": fam, "fname": fname, "cls": cid, "init": init if i else [], "ops": ops[i:i + 12],
                       "origin": "directed-inherited-preparer"}


def decl_default_cases(rng, fam, fname, flags=("-", "i"), only=None):
    """
    Defaults run through the callbacks as well: for every receiver class of a family with declared callbacks, construct
    it (defaults of every kind through preparer / item preparer of every spelling), with keywords for the prepared
    attributes, and put every prepared attribute back at its default (reset_<a>, del, reset()), by copy and in place.
    """
    for cid in top_classes(fam):
        if only is not None and cid not in only:
            continue
        eff = [ad for ad in V.effective_attrs(fam, cid) if ad["ty"][0] != "spec"
               and any(L["deco"] is not None or L["method"] is not None
                       for w in ("p", "i") for L in V.decl_chain(fam, cid, ad["name"], w))]
        for fl in (flags or (rng.choice(("-", "i")),)):
            ops = []
            for ad in eff:
                a = ad["name"]
                ops += [{"k": "set", "a": a, "v": gen_arg(rng, fam, ad, sentinel_p=0.0, bad_p=0.0)},
                        rng.choice([{"k": "rst", "fl": fl, "a": a}, {"k": "del", "a": a}])]
            ops.append({"k": "RST", "fl": fl})
            for i in range(0, len(ops), 14):
                init = [[ad["name"], gen_arg(rng, fam, ad, sentinel_p=0.0, bad_p=0.0)]
                        for ad in rng.sample(eff, min(len(eff), 3))]
                yield {"family": fam, "fname": fname, "cls": cid, "init": init if i or fl == "i" else [],
                       "ops": ops[i:i + 14], "origin": "directed-declared-default"}


def ctor_kw(rng, fam, c, avoid=None):
    """conforming constructor keywords of class `c` (no sentinels; the key mostly present; extra keywords when the
    constructor takes **kwargs), with a name set different from `avoid`"""
    eff = V.effective_attrs(fam, c)
    key = V.effective_key(fam, c)
    kw = []
    for _ in range(6):
        chosen = rng.sample(eff, rng.randint(0, min(3, len(eff))))
        if key is not None and rng.random() < 0.85 and all(ad["name"] != key for ad in chosen):
            chosen.append(attr_desc(fam, c, key))
        kw = [[ad["name"], gen_value(rng, fam, ad["ty"], 0)] for ad in chosen
              if not any(m[0] == "spec" for m in V.union_members(ad["ty"]))]
        have = {a for a, _ in kw}
        kw += [x for x in gen_extras(rng, fam, c, p=0.85) if x[0] not in have]
        rng.shuffle(kw)
        if kw and (avoid is None or {a for a, _ in kw} != avoid):
            break
    return kw


def kw_as_dict(kw):
    return " ".join(["D", str(len(kw))] + [f"s{a} {v}" for a, v in kw])


def build_op(rng, ad, kw):
    """one call that makes the library build `Class(**kw)` for attribute `ad`, through a random route"""
    a = ad["name"]
    routes = ["with-dict", "set-dict", "UPD-dict", "upd-dict"]
    if ad["ty"][0] == "spec":
        routes += ["with-kw", "with-kw", "with-kw", "upd-kw", "upd-kw", "with-E-kw"]
    r = rng.choice(routes)
    fl = rng.choice(["-", "-", "-", "i", "a"])
    if r == "with-kw":
        return {"k": "with", "fl": fl, "a": a, "v": "M", "kw": kw}
    if r == "with-E-kw":
        return {"k": "with", "fl": fl, "a": a, "v": "E", "kw": kw}
    if r == "upd-kw":
        return {"k": "upd", "fl": fl, "a": a, "v": "M", "kw": kw}      # constructs while unset, merges afterwards
    if r == "with-dict":
        return {"k": "with", "fl": fl, "a": a, "v": kw_as_dict(kw), "kw": []}
    if r == "upd-dict":
        return {"k": "upd", "fl": fl, "a": a, "v": kw_as_dict(kw), "kw": []}
    if r == "set-dict":
        return {"k": "set", "a": a, "v": kw_as_dict(kw)}
    return {"k": "UPD", "fl": fl, "v": "M", "kw": [[a, kw_as_dict(kw)]]}


def memo_cases(rng, fam, fname, rounds=1):
    """
    Nothing learnt while building one nested value may leak into the next: for every receiver class and every
    attribute holding a nested spec class, a history of 4..7 constructions `Class(**kw)` through the helpers
    (keywords, dict of constructor arguments, assignment, update) in which successive calls use DIFFERENT keyword
    sets (disjoint, overlapping, subsets, extra keywords for **kwargs constructors), interleaved with constructions
    for other attributes of the same and of other classes, by copy, in place and on adopted results.
    """
    for cid in top_classes(fam):
        eff = V.effective_attrs(fam, cid)
        nested = [ad for ad in eff if spec_member(ad["ty"]) is not None and ad.get("prep") is None]
        for ad in nested:
            for _ in range(rounds):
                ops, last = [], {}
                for _ in range(rng.randint(4, 7)):
                    tgt = ad if rng.random() < 0.65 else rng.choice(nested)
                    c = spec_member(tgt["ty"])
                    kw = ctor_kw(rng, fam, c, avoid=last.get(c))
                    if not kw:
                        continue
                    last[c] = {a for a, _ in kw}
                    ops.append(build_op(rng, tgt, kw))
                yield {"family": fam, "fname": fname, "cls": cid, "init": [], "ops": ops, "origin": "directed-repeat"}


# --- `_get_function_args` and its per-function memo, on constructors of every kind ---------------------------

ARG_SHAPES = ["builtin-int", "builtin-dict", "object", "lambda-fixed", "def-fixed", "class-fixed", "lambda-varkw",
              "def-varkw", "class-varkw", "spec", "spec-ovf", "spec-ovf", "class-varkw", "lambda-varkw"]
SELF = 9000


def args_case(rng):
    fns = []
    for i in range(rng.randint(2, 4)):
        shape = rng.choice(ARG_SHAPES)
        ps = sorted(rng.sample(range(0, 7), rng.randint(0, 3)))
        if shape.startswith("spec") and not ps:
            ps = [0]
        if shape == "object" or shape.startswith("builtin"):
            ps = []
        fns.append({"id": i, "shape": shape, "ps": ps})
    calls = []
    f = rng.choice(fns)
    for _ in range(rng.randint(4, 10)):
        if rng.random() < 0.4:
            f = rng.choice(fns)
        names = sorted(rng.sample(list(range(0, 7)) + EXTRA_NAMES, rng.randint(0, 3)))
        calls.append([f["id"], names])
    return {"kind": "args", "fname": "args", "fns": fns, "calls": calls, "origin": "args-memo"}


def args_sig(fd):
    """what the documentation of Python's call syntax says about the constructor (written from the shape)"""
    shape, ps = fd["shape"], fd["ps"]
    if shape.startswith("builtin"):
        return "builtin"
    if shape == "object":
        return "object"
    ps = ([SELF] if shape.startswith(("class", "spec")) else []) + list(ps)
    kind = "varkw" if shape.endswith(("varkw", "ovf")) else "fixed"
    return " ".join([kind, str(len(ps))] + [str(x) for x in ps])


def args_fn(fd):
    """a FRESH constructor of the described shape (its memo starts empty, as the model's does)"""
    shape, ps = fd["shape"], [attr_name(p) for p in fd["ps"]]
    if shape == "builtin-int":
        return int
    if shape == "builtin-dict":
        return dict
    if shape == "object":
        return type("NoInit", (), {})
    if shape.startswith("spec"):
        fam = {"classes": [{"id": 1, "kind": "spec", "base": None, "key": None,
                            "attrs": [A(p, INT, "value", "i0") for p in fd["ps"]]}]}
        if shape == "spec-ovf":
            fam["classes"][0]["ovf"] = 30
        return V.build_family(fam, fresh=True)[1]
    tail = ["**kw"] if shape.endswith("varkw") else []
    if shape.startswith("lambda"):
        return eval("lambda " + ", ".join([f"{p}=0" for p in ps] + tail) + ": None")
    if shape.startswith("def"):
        ns = {}
        exec("def made(" + ", ".join([f"{p}=0" for p in ps] + tail) + "):\n    return None", ns)
        return ns["made"]
    init = eval("lambda " + ", ".join(["self"] + [f"{p}=0" for p in ps] + tail) + ": None")
    return type("WithInit", (), {"__init__": init})


def args_name_id(name):
    if name == "self":
        return SELF
    if name[:1] == "a" and name[1:].isdigit():
        return int(name[1:])
    return 9999


def args_run(case):
    """the history on the real `_get_function_args`; -> (functions, answers as sorted id lists)"""
    from spec_classes.utils.mutation import _get_function_args

    fns = {fd["id"]: args_fn(fd) for fd in case["fns"]}
    out = []
    for f, names in case["calls"]:
        got = _get_function_args(fns[f], {attr_name(n): 0 for n in names})
        out.append(sorted({args_name_id(x) for x in got}))
    return fns, out


def args_accepts(fd, fn, name):
    """does calling the constructor with keyword `name` work? (Python's own answer, by calling it)"""
    if name in fd["ps"]:
        return True
    try:
        fn(**{attr_name(name): 0})
        return True
    except TypeError:
        return False


def args_oracle(case):
    viol = []
    fns, answers = args_run(case)
    by_id = {fd["id"]: fd for fd in case["fns"]}
    for i, ((f, names), ans) in enumerate(zip(case["calls"], answers)):
        fd = by_id[f]
        if fd["shape"].startswith("builtin"):
            if ans:
                viol.append(f"call#{i}: keywords {ans} would be passed to the builtin {fd['shape']}")
            continue
        for n in names:
            acc = args_accepts(fd, fns[f], n)
            if acc != (n in ans):
                viol.append(f"call#{i} ({fd['shape']} {fd['ps']}, keywords {names}): keyword a{n} is "
                            f"{'accepted' if acc else 'rejected'} by the constructor but the lookup answers {ans}")
    return viol


def gen_cases(tier, rng):
    nfam = {"quick": 5, "thorough": 40, "search": 12}[tier]
    fams = [("main", FAMILY_MAIN), ("prep", FAMILY_PREP), ("falsy", FAMILY_FALSY), ("inv", FAMILY_INV),
            ("lazy", lazy_variant(FAMILY_PREP))] + [(f"rnd{i}", random_family(rng)) for i in range(nfam)]
    ovfs = [("ovf", FAMILY_OVF), ("ovflazy", lazy_variant(FAMILY_OVF)), ("ovftop", FAMILY_OVFTOP)]
    # callbacks declared in every spelling (decorators on Attr objects, methods, overridden / redeclared in subclasses)
    ndecl = {"quick": 3, "thorough": 20, "search": 8}[tier]
    decls = [("decl", FAMILY_DECL), ("decllz", lazy_variant(FAMILY_DECL))] + [
        (f"dcl{i}", decorate_family(rng, random_family(rng))) for i in range(ndecl)]
    decls += [(f"dlz{i}", lazy_variant(fam)) for i, (_, fam) in enumerate(decls[2:4])]
    if tier == "search":
        fams = fams + ovfs + decls + decls[:2]
        while True:
            r = rng.random()
            fname, fam = rng.choice(fams)
            if r < 0.04:
                yield args_case(rng)
            elif r < 0.14:
                yield from memo_cases(rng, fam, fname)
            else:
                yield gen_case(rng, fam, fname, rng.randint(1, 8))
        return
    # constructions repeated with different keyword sets (per-function / per-class memos must not go stale)
    for fname, fam in ovfs + fams[:5] + (fams[5:7] if tier == "quick" else fams[5:]):
        yield from memo_cases(rng, fam, fname, rounds=2 if fam is FAMILY_OVF or tier != "quick" else 1)
    for _ in range(60 if tier == "quick" else 1500):
        yield args_case(rng)
    for fname, fam in ovfs:
        yield from directed_cases(rng, fam, fname)
    # directed: defaults of the receiver's own class, reset after unset attributes, falsy values
    for fname, fam in fams[:5] + (fams[5:7] if tier == "quick" else fams[5:]):
        yield from directed_cases(rng, fam, fname)
    yield from baddefault_cases()
    for fname, fam in fams[:5] + (fams[5:] if tier != "quick" else []):
        yield from inv_cases(rng, fam, fname)
    yield from prep_inherit_cases(rng, FAMILY_PREP, "prep")
    yield from prep_inherit_cases(rng, fams[4][1], "lazy")
    for fname, fam in decls:
        # (quick: one flag combination per receiver class and run, and half of the receiver classes of the two big
        #  hand-written families; the seeds / the thorough tier cover the others)
        tops = top_classes(fam)
        only = set(rng.sample(tops, (len(tops) + 1) // 2)) if tier == "quick" and len(tops) > 8 else None
        yield from prep_inherit_cases(rng, fam, fname, flags=None if tier == "quick" else ("-", "i", "a"), only=only)
        yield from decl_default_cases(rng, fam, fname, flags=None if tier == "quick" else ("-", "i"), only=only)
    n = 1000 if tier == "quick" else 22000
    for i in range(n):
        fname, fam = fams[i % len(fams)] if rng.random() < 0.7 else rng.choice(fams[:5])
        r = rng.random()
        if r < 0.15:
            fname, fam = rng.choice(ovfs)
        elif r < 0.33:
            fname, fam = rng.choice(decls)
        yield gen_case(rng, fam, fname, rng.randint(4, 14))


# ---------------------------------------------------------------------------
# protocol lines
# ---------------------------------------------------------------------------


def kw_tokens(kw):
    return " ".join([str(len(kw))] + [f"{a} {v}" for a, v in kw])


def op_line(op):
    k = op["k"]
    fl = op.get("fl", "-")
    if k in ("with", "upd"):
        return f"{k} {fl} {op['a']} {op['v']} {kw_tokens(op['kw'])}"
    if k == "tra":
        return f"tra {fl} {op['a']} {op['f'] or '_'} {kw_tokens(op['kt'])}"
    if k == "rst":
        return f"rst {fl} {op['a']}"
    if k == "set":
        return f"set {op['a']} {op['v']}"
    if k == "del":
        return f"del {op['a']}"
    if k == "UPD":
        return f"UPD {fl} {op['v']} {kw_tokens(op['kw'])}"
    if k == "TRA":
        return f"TRA {fl} {op['f'] or '_'} {kw_tokens(op['kt'])}"
    if k == "RST":
        return f"RST {fl}"
    raise ValueError(op)


def is_args(case):
    return case.get("kind") == "args"


def n_header(case):
    """protocol lines before the `new` line: reset, the class table, the overflow declarations"""
    return len(header_lines(case["family"]))


_HEADERS = {}


def header_lines(fam):
    """reset, the class table, the raw declarations of the callbacks (resolved by the model itself), the overflow
    declarations; memoised per family object"""
    hit = _HEADERS.get(id(fam))
    if hit is None or hit[0] is not fam:
        if len(_HEADERS) > 4000:
            _HEADERS.clear()
        hit = (fam, ["reset"] + V.class_lines(fam) + V.pdecl_lines(fam) + V.ovf_lines(fam))
        _HEADERS[id(fam)] = hit
    return hit[1]


def model_lines(case):
    if is_args(case):
        return (["reset"] + [f"sig {fd['id']} {args_sig(fd)}" for fd in case["fns"]]
                + [f"args {f} {len(names)} " + " ".join(str(n) for n in names) for f, names in case["calls"]])
    fam = case["family"]
    return (header_lines(fam) + [f"new {case['cls']} {kw_tokens(case['init'])}"]
            + [op_line(op) for op in case["ops"]])


def real_kwargs(kw, classes):
    return {attr_name(a): decode(v, classes) for a, v in kw}


def real_kt(kt, classes):
    return {attr_name(a): V.transform_fn(t, classes) for a, t in kt}


def call_real(classes, fam, recv, op, inplace=None):
    """perform one call on the real object; returns what the call returned"""
    k = op["k"]
    fl = op.get("fl", "-")
    flags = {}
    inp = ("i" in fl) if inplace is None else inplace
    if inp:
        flags["_inplace"] = True
    if "n" in fl:
        flags["_if"] = False
    if k in ("with", "upd"):
        name = attr_name(op["a"])
        meth = getattr(recv, ("with_" if k == "with" else "update_") + name)
        args = [decode(op["v"], classes)]
        if op["v"] == "M" and (k == "with" or _kw_class(fam, recv, op["a"]) is not None):
            args = []  # the documented "no argument" form
        return meth(*args, **flags, **real_kwargs(op["kw"], classes))
    if k == "tra":
        name = attr_name(op["a"])
        meth = getattr(recv, "transform_" + name)
        f = V.transform_fn(op["f"], classes)
        args = [f]
        if f is None and _kw_class(fam, recv, op["a"]) is not None:
            args = []
        return meth(*args, **flags, **real_kt(op["kt"], classes))
    if k == "rst":
        return getattr(recv, "reset_" + attr_name(op["a"]))(**flags)
    if k == "set":
        setattr(recv, attr_name(op["a"]), decode(op["v"], classes))
        return recv
    if k == "del":
        delattr(recv, attr_name(op["a"]))
        return recv
    if k == "UPD":
        args = [] if op["v"] == "M" else [decode(op["v"], classes)]
        return recv.update(*args, **flags, **real_kwargs(op["kw"], classes))
    if k == "TRA":
        f = V.transform_fn(op["f"], classes)
        args = [] if f is None else [f]
        return recv.transform(*args, **flags, **real_kt(op["kt"], classes))
    if k == "RST":
        return recv.reset(**flags)
    raise ValueError(op)


def _kw_class(fam, recv, a):
    for ad in V.effective_attrs(fam, type(recv).__verif_id__):
        if ad["name"] == a:
            return ad["ty"][1] if ad["ty"][0] == "spec" else None
    return None


def construct_real(classes, case):
    cls = classes[case["cls"]]
    return cls(**real_kwargs(case["init"], classes))


def real_lines(case):
    if is_args(case):
        _, answers = args_run(case)
        return ["ok"] * (1 + len(case["fns"])) + [" ".join(["args"] + [str(x) for x in ans]) for ans in answers]
    fam = case["family"]
    classes = V.build_family(fam)
    out = ["ok"] * n_header(case)
    try:
        recv = construct_real(classes, case)
        out.append("ok ;; " + show(recv))
    except Exception as e:
        recv = None
        out.append(f"err {V.err_name(e)} ;; N")
    for op in case["ops"]:
        if recv is None:
            out.append("err AttributeError ;; N")
            continue
        try:
            ret = call_real(classes, fam, recv, op)
            line = ("self" if ret is recv else "new " + show(ret)) + " ;; " + show(recv)
            if "a" in op.get("fl", "") and ret is not recv and V.is_spec_instance(ret):
                recv = ret
        except Exception as e:
            line = f"err {V.err_name(e)} ;; " + show(recv)
        out.append(line)
    return out


# ---------------------------------------------------------------------------
# the independent oracle: an interpreter of the documentation over plain containers
# ---------------------------------------------------------------------------


class PInst:
    """plain snapshot of a spec-class instance: class id + {attribute id: plain value}"""

    __slots__ = ("cid", "f")

    def __init__(self, cid, f):
        self.cid, self.f = cid, f

    def __eq__(self, other):
        return isinstance(other, PInst) and self.cid == other.cid and self.f == other.f

    def __hash__(self):
        return hash(self.cid)


def is_sentinel(v):
    return v is V.S("MISSING") or v is V.S("EMPTY") or v is V.S("UNCHANGED")


def snap(v):
    if isinstance(v, list):
        return [snap(x) for x in v]
    if isinstance(v, (set, frozenset)):
        return {snap(x) for x in v}
    if isinstance(v, dict):
        return {snap(k): snap(x) for k, x in v.items()}
    if V.is_spec_instance(v):
        cls = type(v)
        f = {}
        for a in V.field_ids(v):
            x = v.__dict__.get(attr_name(a), V.S("MISSING"))
            if x is not V.S("MISSING"):
                f[a] = snap(x)
        return PInst(cls.__verif_id__, f)
    return v


def rebuild(p, classes):
    """plain -> real, instances injected raw"""
    if isinstance(p, list):
        return [rebuild(x, classes) for x in p]
    if isinstance(p, set):
        return {rebuild(x, classes) for x in p}
    if isinstance(p, dict):
        return {rebuild(k, classes): rebuild(x, classes) for k, x in p.items()}
    if isinstance(p, PInst):
        cls = classes[p.cid]
        o = cls.__new__(cls)
        for a, x in p.f.items():
            o.__dict__[attr_name(a)] = rebuild(x, classes)
        return o
    return p


def pshow(p):
    if isinstance(p, list):
        return "[" + ",".join(pshow(x) for x in p) + "]"
    if isinstance(p, set):
        return "{" + ",".join(sorted(pshow(x) for x in p)) + "}"
    if isinstance(p, dict):
        return "{" + ",".join(f"{pshow(k)}:{pshow(x)}" for k, x in p.items()) + "}"
    if isinstance(p, PInst):
        return f"C{p.cid}(" + ",".join(f"{a}={pshow(p.f[a])}" for a in sorted(p.f)) + ")"
    return show(p)


def pcopy(p):
    return copy.deepcopy(p)


class DocError(Exception):
    """the documentation says the call is rejected (TypeError / ValueError)"""


class Undoc(Exception):
    """the call is outside what the documentation (and the property) describe"""


class _NS:
    """what a preparer sees of the instance: attribute reads (instance value, else the class-body default)"""

    def __init__(self, fam, inst):
        for ad in V.effective_attrs(fam, inst.cid):
            v = doc_getattr(fam, inst, ad["name"])
            if v is not V.S("MISSING"):
                setattr(self, attr_name(ad["name"]), v)


def doc_getattr(fam, inst, a):
    """`obj.a` as Python reads it: the instance's value, else the default written in the class body"""
    if a in inst.f:
        return inst.f[a]
    ad = attr_desc(fam, inst.cid, a)
    if ad is not None and ad.get("d") is not None and ad.get("dk") in ("value", "attr", "field"):
        return snap(decode(ad["d"], V.build_family(fam)))
    return V.S("MISSING")


def p_conforms(fam, ty, v):
    """reference conformance on plain values (written from the typing documentation)"""
    k = ty[0]
    if k == "any":
        return True
    if k == "int":
        return isinstance(v, int)
    if k == "str":
        return isinstance(v, str)
    if k == "bool":
        return isinstance(v, bool)
    if k == "float":
        return isinstance(v, (int, float))
    if k == "none":
        return v is None
    if k == "lit":
        return (not isinstance(v, (list, set, dict, PInst))) and not is_sentinel(v) and any(
            v == decode(c) for c in ty[1])
    if k == "union":
        return p_conforms(fam, ty[1], v) or p_conforms(fam, ty[2], v)
    if k == "list":
        return isinstance(v, list) and all(p_conforms(fam, ty[1], x) for x in v)
    if k == "set":
        return isinstance(v, set) and all(p_conforms(fam, ty[1], x) for x in v)
    if k == "dict":
        return isinstance(v, dict) and all(p_conforms(fam, ty[1], a) and p_conforms(fam, ty[2], b) for a, b in v.items())
    if k == "spec":
        return isinstance(v, PInst) and (v.cid == ty[1] or ty[1] in V.supers(fam, v.cid))
    if k == "valid":
        return (not isinstance(v, (list, set, dict, PInst))) and not is_sentinel(v) and p_conforms(fam, ty[2], v) \
            and bool(V.VALID_PRED[ty[1]](v))
    raise ValueError(ty)


def attr_desc(fam, cid, a):
    for ad in V.effective_attrs(fam, cid):
        if ad["name"] == a:
            return ad
    return None


def doc_default(fam, cid, a):
    ad = attr_desc(fam, cid, a)
    if ad.get("d") is None:
        return V.S("MISSING")
    return snap(decode(ad["d"], V.build_family(fam)))


def doc_prepared(fam, inst, ad, v):
    """the value `with_<a>(v)` stores: preparer, dict -> nested spec, collection normalisation"""
    if ad.get("prep_undoc"):
        raise Undoc("which preparer applies to this class is not documented")
    if ad.get("prep") is not None:
        v = V.PREPARERS[ad["prep"]](_NS(fam, inst), v)
    ty = ad["ty"]
    sm = spec_member(ty)
    if isinstance(v, dict) and not p_conforms(fam, ty, {}):
        if sm is None:
            raise Undoc("dict for a non-spec attribute")
        kw = {}
        for k, x in v.items():
            if not isinstance(k, str) or not (k.startswith("a") and k[1:].isdigit()):
                raise DocError("bad keyword")
            kw[int(k[1:])] = x
        v = doc_construct(fam, sm, list(kw.items()))
    if ty[0] in ("list", "set", "dict"):
        if v is None:
            v = {"list": [], "set": set(), "dict": {}}[ty[0]]
        if is_sentinel(v):
            return v
        if ad.get("ip_undoc"):
            raise Undoc("which item preparer applies to this class is not documented")
        ip = V.PREPARERS[ad["ip"]] if ad.get("ip") is not None else None
        if ty[0] == "dict":
            if not isinstance(v, dict):
                raise DocError("not a mapping")
            v = {k: (ip(_NS(fam, inst), x) if ip else x) for k, x in v.items()}
        else:
            if not isinstance(v, (list, set)):
                raise Undoc("collection from another iterable")
            if isinstance(v, set) and ty[0] == "list" and len(v) > 1:
                raise Undoc("set iteration order")
            items = [(ip(_NS(fam, inst), x) if ip else x) for x in v]
            if any(is_sentinel(x) for x in items):
                raise Undoc("sentinel inside a collection")
            v = list(items) if ty[0] == "list" else set(items)
    return v


def doc_invalidate(fam, inst, a):
    """`invalidated_by`: every attribute declared invalidated_by=[a] is back at its default, and so on for its dependants"""
    for ad in V.effective_attrs(fam, inst.cid):
        if a in (ad.get("inv") or []) and ad["name"] != a:
            d = doc_default(fam, inst.cid, ad["name"])
            inst = PInst(inst.cid, dict(inst.f))
            if d is V.S("MISSING"):
                inst.f.pop(ad["name"], None)
            else:
                inst.f[ad["name"]] = d
            inst = doc_invalidate(fam, inst, ad["name"])
    return inst


def doc_assign(fam, inst, a, v, invalidate=True):
    """obj.a = v  ==  obj[a := prepared v], type checked; the dependants of `a` go back to their defaults"""
    ad = attr_desc(fam, inst.cid, a)
    if ad is None:
        raise Undoc("unmanaged attribute")
    pv = doc_prepared(fam, inst, ad, v)
    if is_sentinel(pv):
        return inst
    if not p_conforms(fam, ad["ty"], pv):
        raise DocError("non-conforming")
    out = PInst(inst.cid, dict(inst.f))
    out.f[a] = pv
    return doc_invalidate(fam, out, a) if invalidate else out


def doc_construct(fam, cid, kw):
    """a freshly built instance: keyword value or class default for every attribute, in declaration order"""
    eff = V.effective_attrs(fam, cid)
    names = [ad["name"] for ad in eff]
    ovf = V.effective_ovf(fam, cid)
    # init_overflow_attr: "any extra keyword arguments passed to the constructor will be collected as a dictionary
    # and set as an attribute of this name" (the attribute is not a constructor argument itself)
    extra = {attr_name(a): v for a, v in kw if ovf is not None and (a not in names or a == ovf)}
    kwd = {a: v for a, v in kw if attr_name(a) not in extra}
    for a in kwd:
        if a not in names:
            raise DocError("unexpected keyword")
    key = V.effective_key(fam, cid)
    if key is not None and key not in kwd and attr_desc(fam, cid, key).get("d") is None:
        raise DocError("missing key")
    inst = PInst(cid, {})
    by_name = {ad["name"]: ad for ad in eff}
    for name in V.init_order(fam, cid):   # parents' constructors run first (InitMethod's doc-string)
        ad = by_name[name]
        v = kwd.get(ad["name"], V.S("MISSING"))
        if v is V.S("MISSING"):
            v = doc_default(fam, cid, ad["name"])
        if v is not V.S("MISSING"):
            if is_sentinel(v):
                raise Undoc("sentinel keyword in a constructor")
            inst = doc_assign(fam, inst, ad["name"], v, invalidate=False)   # nothing to invalidate while constructing
    if ovf is not None:
        if any(is_sentinel(v) for v in extra.values()):
            raise Undoc("sentinel keyword in a constructor")
        inst = doc_assign(fam, inst, ovf, extra, invalidate=False)
    return inst


def doc_merge(fam, base, kw, sent_tags):
    """merge keywords into a nested value: successive assignments (sentinel keywords are skipped)"""
    if not isinstance(base, PInst):
        raise Undoc("keywords on a non-spec value")
    for a, v in kw:
        if is_sentinel(v):
            if v is not V.S("MISSING"):
                sent_tags.append("kw-sentinel")
            continue
        base = doc_assign(fam, base, a, v)
    return base


def doc_apply(fam, classes, pre, op):
    """
    What the documentation says about one call from the receiver state `pre`.
    Returns ("ok", receiver state after, "self"|"new"|"any", state of the returned object, sentinel?) ;
    raises DocError (rejected) or Undoc (not described).
    """
    k = op["k"]
    fl = op.get("fl", "-")
    inplace = "i" in fl or k in ("set", "del")
    dec = lambda t: snap(decode(t, classes))  # noqa: E731
    sent = []

    def done(new):
        if inplace:
            return ("ok", new, "self", new, sent)
        return ("ok", pre, "new", new, sent)

    noop = ("ok", pre, "self", pre, sent)
    if k in ("with", "upd", "tra", "rst", "set", "del"):
        ad = attr_desc(fam, pre.cid, op["a"])
        a = op["a"]
        kwc = ad["ty"][1] if ad["ty"][0] == "spec" else None
    if k in ("with", "upd", "tra"):
        names = [x[0] for x in (op["kw"] if k != "tra" else op["kt"])]
        # (a class that collects extra constructor keywords accepts any keyword; one that is merged into an existing
        #  value instead of being passed to the constructor is "unmanaged attribute" below)
        if names and (kwc is None or (V.effective_ovf(fam, kwc) is None
                                      and any(attr_desc(fam, kwc, n) is None for n in names))):
            raise Undoc("keywords not accepted")
    if k in ("UPD", "TRA"):
        names = [x[0] for x in (op["kw"] if k == "UPD" else op["kt"])]
        if any(attr_desc(fam, pre.cid, n) is None for n in names):
            raise Undoc("keywords not accepted")
    if "n" in fl and k not in ("set", "del"):
        return noop
    if k in ("with", "set"):
        v = dec(op["v"])
        kw = [(n, dec(x)) for n, x in op.get("kw", [])]
        if is_sentinel(v) and (not kw or v is V.S("UNCHANGED")):
            sent.append("value-sentinel")
            return noop
        if kw:
            if is_sentinel(v):
                if any(x is V.S("EMPTY") or x is V.S("UNCHANGED") for _, x in kw):
                    raise Undoc("sentinel keyword in a constructor")
                new = doc_construct(fam, kwc, [(n, x) for n, x in kw if x is not V.S("MISSING")])
            else:
                if isinstance(v, dict):
                    raise Undoc("a dict of constructor arguments together with keywords")
                if v is None:
                    raise DocError("attrs on None")
                new = doc_merge(fam, v, kw, sent)
            return done(doc_assign(fam, pre, a, new))
        return done(doc_assign(fam, pre, a, v))
    if k == "upd":
        v = dec(op["v"])
        kw = [(n, dec(x)) for n, x in op["kw"]]
        if v is V.S("UNCHANGED") and kw:
            raise Undoc("UNCHANGED together with keywords")
        if is_sentinel(v) and not kw:
            sent.append("value-sentinel")
            return noop
        if is_sentinel(v):
            base = doc_getattr(fam, pre, a)
            if base is V.S("MISSING"):
                if any(x is V.S("EMPTY") or x is V.S("UNCHANGED") for _, x in kw):
                    raise Undoc("sentinel keyword in a constructor")
                new = doc_construct(fam, kwc, [(n, x) for n, x in kw if x is not V.S("MISSING")])
            else:
                new = doc_merge(fam, base, kw, sent)
        else:
            if kw and isinstance(v, dict):
                raise Undoc("a dict of constructor arguments together with keywords")
            if kw and v is None:
                raise DocError("attrs on None")
            new = doc_merge(fam, v, kw, sent) if kw else v
        return done(doc_assign(fam, pre, a, new))
    if k == "tra":
        f = V.transform_fn(op["f"], classes)
        kt = [(n, V.transform_fn(t, classes)) for n, t in op["kt"]]
        old = doc_getattr(fam, pre, a)
        if old is V.S("MISSING"):
            if kwc is None or (f is not None):
                sent.append("transform-of-unset")
                if f is None:
                    return noop
                new = snap(f(V.S("MISSING")))
                if is_sentinel(new):
                    return noop
                raise Undoc("transform of an unset attribute")
            old = doc_construct(fam, kwc, [])
        new = old
        if f is not None:
            new = snap(f(rebuild(old, classes)))
            if is_sentinel(new):
                sent.append("transform-returns-sentinel")
                return noop
        for n, g in kt:
            if not isinstance(new, PInst):
                raise Undoc("attribute transforms on a non-spec value")
            tv = snap(g(rebuild(doc_getattr(fam, new, n), classes)))
            if is_sentinel(tv):
                if tv is not V.S("MISSING"):
                    sent.append("kw-sentinel")
                continue
            new = doc_assign(fam, new, n, tv)
        res = doc_assign(fam, pre, a, new)
        if f is None and not kt:
            # nothing to apply: the state is what the assignment pipeline gives; which object is returned is not prescribed
            return ("ok", res if inplace else pre, "self" if inplace else "any", res, sent)
        return done(res)
    if k in ("rst", "del"):
        d = doc_default(fam, pre.cid, a)
        if d is V.S("MISSING"):
            if a not in pre.f:
                return ("ok-or-attributeerror", pre, "self" if inplace else "any", pre, sent)
            new = PInst(pre.cid, dict(pre.f))
            del new.f[a]
            new = doc_invalidate(fam, new, a)
        else:
            new = doc_assign(fam, pre, a, d)  # the default a new instance would get (prepared, checked)
        return done(new)
    if k == "UPD":
        v = dec(op["v"])
        kw = [(n, dec(x)) for n, x in op["kw"]]
        if v is V.S("UNCHANGED"):
            return noop
        if is_sentinel(v):
            if not kw:
                return noop
            new = doc_merge(fam, pre, kw, sent)
            if all(is_sentinel(x) for _, x in kw):
                return ("ok", pre if not inplace else new, "self" if inplace else "any", new, sent)
            return done(new)
        if kw and v is None:
            raise DocError("attrs on None")
        new = doc_merge(fam, v, kw, sent) if kw else v
        return ("ok", pre, "any", new, sent)
    if k == "TRA":
        f = V.transform_fn(op["f"], classes)
        kt = [(n, V.transform_fn(t, classes)) for n, t in op["kt"]]
        if f is None and not kt:
            return noop
        new = pre if f is None else snap(f(rebuild(pre, classes)))
        allskip = True
        for n, g in kt:
            if not isinstance(new, PInst):
                raise Undoc("attribute transforms on a non-spec value")
            tv = snap(g(rebuild(doc_getattr(fam, new, n), classes)))
            if is_sentinel(tv):
                if tv is not V.S("MISSING"):
                    sent.append("kw-sentinel")
                continue
            allskip = False
            new = doc_assign(fam, new, n, tv)
        if f is not None:
            return ("ok", pre, "any", new, sent)
        if allskip:
            return ("ok", pre if not inplace else new, "self" if inplace else "any", new, sent)
        return done(new)
    if k == "RST":
        new = PInst(pre.cid, dict(pre.f))
        for ad2 in V.effective_attrs(fam, pre.cid):
            d = doc_default(fam, pre.cid, ad2["name"])
            if d is V.S("MISSING"):
                if ad2["name"] in new.f:
                    new = PInst(new.cid, dict(new.f))
                    del new.f[ad2["name"]]
                    new = doc_invalidate(fam, new, ad2["name"])
            else:
                new = doc_assign(fam, new, ad2["name"], d)
        return done(new)
    raise ValueError(op)


def classify_sentinel(op, sent):
    """A deviation on a sentinel call belongs to the open finding when MISSING / EMPTY is involved; UNCHANGED
    must be a no-op (repaired in /repo 18d1613), so a deviation there is a new violation."""
    if "transform-of-unset" in sent:
        return FINDING_TAG      # the unset attribute is default-constructed (or cannot be) before the transform runs
    if op.get("v") == "U" or op.get("f") == "cst U":
        return None
    if sent == ["kw-sentinel"]:
        vals = [v for _, v in op.get("kw", [])] + [(t or "") for _, t in op.get("kt", [])]
        if not any(v == "E" or v == "cst E" for v in vals):
            return None
    return FINDING_TAG


def run_real(classes, fam, pre, op, inplace=None):
    """rebuild the receiver from the snapshot, run the call; -> (receiver, returned | None, error name | None)"""
    recv = rebuild(pre, classes)
    try:
        ret = call_real(classes, fam, recv, op, inplace=inplace)
        return recv, ret, None
    except Exception as e:
        return recv, None, V.err_name(e)


def relational(classes, fam, pre, op):
    """relations between code paths, checked on the real code from clones of the same state"""
    out = []
    k = op["k"]
    fl = op.get("fl", "-")
    if k in ("with", "upd", "tra", "rst", "RST") or (k == "UPD" and op["v"] in ("M", "E")) or (k == "TRA" and not op["f"]):
        ra, reta, ea = run_real(classes, fam, pre, op, inplace=False)
        rb, retb, eb = run_real(classes, fam, pre, op, inplace=True)
        if ea != eb:
            out.append(f"copy run {'raised ' + ea if ea else 'succeeded'} but in-place run {'raised ' + eb if eb else 'succeeded'}")
        elif ea is None:
            if retb is not rb:
                out.append("in-place run did not return the receiver")
            if show(reta) != show(rb):
                out.append(f"copy run returned {show(reta)} but in-place run left the receiver as {show(rb)}")
            if pshow(snap(ra)) != pshow(pre):
                out.append(f"copy run changed the receiver to {show(ra)}")
        else:
            if pshow(snap(rb)) != pshow(pre):
                out.append(f"in-place run raised {eb} and left the receiver as {show(rb)}")
    if k == "set":
        ra, _, ea = run_real(classes, fam, pre, op)
        rb, retb, eb = run_real(classes, fam, pre, {"k": "with", "fl": "i", "a": op["a"], "v": op["v"], "kw": []})
        if ea != eb or show(ra) != show(rb) or (eb is None and retb is not rb):
            out.append(f"obj.a{op['a']} = v gives {ea or show(ra)} but with_a{op['a']}(v, _inplace=True) gives {eb or show(rb)}")
    if k == "del":
        ra, _, ea = run_real(classes, fam, pre, op)
        rb, retb, eb = run_real(classes, fam, pre, {"k": "rst", "fl": "i", "a": op["a"]})
        if ea != eb or show(ra) != show(rb):
            out.append(f"del obj.a{op['a']} gives {ea or show(ra)} but reset_a{op['a']}(_inplace=True) gives {eb or show(rb)}")
    if (k == "UPD" and op["v"] in ("M", "E") and op["kw"] and "n" not in fl
            and all(attr_desc(fam, pre.cid, a) is not None for a, _ in op["kw"])):
        ra, reta, ea = run_real(classes, fam, pre, op, inplace=False)
        cur = rebuild(pre, classes)
        eb = None
        try:
            for a, v in op["kw"]:
                cur = call_real(classes, fam, cur, {"k": "with", "fl": "-", "a": a, "v": v, "kw": []})
        except Exception as e:
            eb = V.err_name(e)
        if not any(v in ("M", "E", "U") for _, v in op["kw"]):
            if ea != eb or (ea is None and show(reta) != show(cur)):
                out.append(f"update(**kw) gives {ea or show(reta)} but the chain of with_<a> gives {eb or show(cur)}")
    if k == "with" and op["kw"] and op["v"] == "M" and "n" not in fl:
        kwc = _kw_class(fam, rebuild(pre, classes), op["a"])
        if kwc is not None and not any(v in ("M", "E", "U") for _, v in op["kw"]):
            ra, reta, ea = run_real(classes, fam, pre, op, inplace=False)
            eb = None
            retb = None
            try:
                nested = classes[kwc](**real_kwargs(op["kw"], classes))
                recvb = rebuild(pre, classes)
                retb = call_real(classes, fam, recvb, {"k": "with", "fl": "-", "a": op["a"], "v": "M", "kw": []}) if False else getattr(
                    recvb, "with_" + attr_name(op["a"]))(nested)
            except Exception as e:
                eb = V.err_name(e)
            if (ea is None) != (eb is None) or (ea is None and show(reta) != show(retb)):
                out.append(f"with_a(**kw) gives {ea or show(reta)} but with_a(Class(**kw)) gives {eb or show(retb)}")
    return out


def oracle(case):
    if is_args(case):
        return args_oracle(case)
    fam = case["family"]
    classes = V.build_family(fam)
    viol = []

    def report(tag, msg):
        viol.append(msg if tag is None else f"[{tag}] {msg}")

    # construction
    try:
        recv = construct_real(classes, case)
        err = None
    except Exception as e:
        recv, err = None, V.err_name(e)
    try:
        init = [(a, snap(decode(v, classes))) for a, v in case["init"]]
        if any(is_sentinel(v) and v is not V.S("MISSING") for _, v in init):
            raise Undoc("sentinel keyword in a constructor")
        exp = doc_construct(fam, case["cls"], [(a, v) for a, v in init if v is not V.S("MISSING")])
        if err is not None:
            viol.append(f"constructor raised {err}; the documentation gives {pshow(exp)}")
        elif pshow(snap(recv)) != pshow(exp):
            viol.append(f"constructor gave {show(recv)}; the documentation gives {pshow(exp)}")
    except (DocError, Undoc):
        pass
    if recv is None:
        return viol
    for n, op in enumerate(case["ops"]):
        pre = snap(recv)
        pre_s = pshow(pre)
        try:
            exp = doc_apply(fam, classes, pre, op)
        except DocError:
            exp = ("reject",)
        except Undoc:
            exp = ("undoc",)
        try:
            ret = call_real(classes, fam, recv, op)
            err = None
        except Exception as e:
            ret, err = None, V.err_name(e)
        post_s = show(recv)
        label = f"op#{n} {op_line(op)} from {pre_s}"
        if exp[0] in ("ok", "ok-or-attributeerror"):
            _, erecv, eret, eres, sent = exp
            tag = classify_sentinel(op, sent) if sent else None
            if err is not None:
                if not (exp[0] == "ok-or-attributeerror" and err == "AttributeError"):
                    report(tag, f"{label}: raised {err}; the documentation gives {pshow(eres)}")
                if post_s != pre_s:
                    report(tag, f"{label}: raised {err} and left the receiver as {post_s}")
            else:
                if post_s != pshow(erecv):
                    report(tag, f"{label}: receiver is {post_s} afterwards; the documentation gives {pshow(erecv)}")
                if show(ret) != pshow(eres):
                    report(tag, f"{label}: result is {show(ret)}; the documentation gives {pshow(eres)}")
                if eret == "self" and ret is not recv:
                    report(tag, f"{label}: the call should return the receiver itself")
        elif exp[0] == "reject":
            if err is None and False:
                viol.append(f"{label}: accepted")
        for r in relational(classes, fam, pre, op):
            viol.append(f"{label}: {r}")
        if err is None and "a" in op.get("fl", "") and ret is not recv and V.is_spec_instance(ret):
            recv = ret
        if len(viol) > 6:
            break
    return viol


# ---------------------------------------------------------------------------
# bookkeeping
# ---------------------------------------------------------------------------


def nontrivial(case, real):
    if is_args(case):
        shapes = {fd["id"]: fd["shape"] for fd in case["fns"]}
        n0 = 1 + len(case["fns"])
        return [("args", shapes[f], tuple(names), real[n0 + i]) for i, (f, names) in enumerate(case["calls"])
                if n0 + i < len(real)]
    keys = []
    base = n_header(case)
    for i, op in enumerate(case["ops"]):
        j = base + 1 + i
        if j >= len(real):
            break
        pre = real[j - 1].split(" ;; ", 1)[-1]
        head, post = real[j].split(" ;; ", 1)
        if head != "self" or pre != post:
            keys.append((case["fname"], pre, op_line(op)))
    return keys


def tags(case, real):
    if is_args(case):
        shapes = {fd["id"]: fd["shape"] for fd in case["fns"]}
        t = ["family:args", "origin:args-memo"]
        seen = set()
        for f, names in case["calls"]:
            t.append(f"args:{shapes[f]}:{'repeat' if f in seen else 'first'}")
            seen.add(f)
        return t
    t = [f"family:{case['fname'][:6]}", f"class:{'sub' if case['cls'] != 0 else 'top'}",
         f"origin:{case.get('origin', 'random')}"]
    base = n_header(case)
    t.append("ctor:" + real[base].split(" ")[0])
    for i, op in enumerate(case["ops"]):
        j = base + 1 + i
        if j >= len(real):
            break
        head = real[j].split(" ;; ")[0].split(" ")
        fl = op.get("fl", "-")
        form = ""
        if op["k"] in ("with", "upd", "UPD"):
            form = ("v" if op["v"] not in ("M",) else "") + ("kw" if op["kw"] else "")
            if op["v"] in ("M", "E", "U") and not op["kw"]:
                form = "sentinel"
        elif op["k"] in ("tra", "TRA"):
            form = ("f" if op["f"] else "") + ("kt" if op["kt"] else "")
        t.append(f"op:{op['k']}:{form or '-'}")
        if any(a in EXTRA_NAMES for a, _ in (op.get("kw") or []) + (op.get("kt") or [])):
            t.append(f"extra-keywords:{op['k']}:{'v' if op.get('v', 'M') != 'M' or op.get('f') else 'kw-only'}")
        t.append(f"flags:{'inplace' if 'i' in fl else 'copy'}:{'if=False' if 'n' in fl else 'if=True'}")
        t.append("out:" + (head[0] if head[0] != "err" else "err:" + head[1]))
    return t


def shrink(case, at=None):
    if is_args(case):
        calls = case["calls"]
        n0 = 1 + len(case["fns"])
        if at is not None and at >= n0:
            yield {**case, "calls": calls[: at - n0 + 1]}
        for i in range(len(calls)):
            yield {**case, "calls": calls[:i] + calls[i + 1:]}
        return
    ops = case["ops"]
    base = n_header(case) + 1
    if at is not None and at >= base:
        yield {**case, "ops": ops[: at - base + 1]}
    for i in range(len(ops)):
        yield {**case, "ops": ops[:i] + ops[i + 1:]}
    if case["init"]:
        yield {**case, "init": []}


MANIFEST_ENTRY = {
    "level_text": "Lean 4 proof that the Impl model of the scalar and top-level helpers (mutate_value's eight steps, prepare_attr_value, mutate_attr, the generated __init__/__setattr__/__delattr__, with_/update_/transform_/reset_<attr>, update/transform/reset, for any class table, any pure preparers/transforms, any fuel) refines a direct transcription of the documentation (Spec.Doc.apply), that the in-place run leaves on the receiver exactly the state the copy run returns and returns the receiver, that obj.a = v is with_a(v, _inplace=True), update(**kw) is the fold of with_<a>, with_a(**kw) stores the freshly constructed nested instance, del is reset_<a>(_inplace=True), and that _if=False and UNCHANGED are no-ops returning the receiver; MISSING is a no-op only under the negation of the finding's matcher (missing_noop_partial) and a decided witness refutes the full statement. The model is tied to /repo on every run by executing the same call histories (every helper x call form x _inplace x _if, from reachable states, over hand-written and random class families) on the real classes and on the model and comparing returned object, exception class and receiver state after every call; an independent interpreter of the documentation over plain containers and relational checks on the real code judge every case. Constructors that take **kwargs (init_overflow_attr) and the per-function memo of _get_function_args are modelled in Model/C05Ov.lean: the memo never changes an answer over any call history (args_memo_never_stale), the constructor keywords are a function of the signature and of the keywords of the call (ctor_keywords_from_signature), with_a(**kw) stores the value built from every keyword of that call (with_keywords_builds_overflow), the overflow attribute holds exactly the extra keywords in call order (overflow_collects_extras), and the overflow-aware model coincides with the original one on class tables without overflow classes (ov_conservative); tied to /repo by histories of repeated keyword constructions with different keyword sets and by histories of _get_function_args calls on fresh constructors. Where the class-table entry of a preparer / item preparer comes from is modelled in Model/C05Decl.lean (bootstrap / build_attr_spec / Attr.from_attr_value for one attribute over any class hierarchy: _prepare_ methods, decorator registrations on Attr objects, re-defaulting / re-annotating / redeclaring spec subclasses, plain subclasses): closed form for every hierarchy (bootstrap_prep_closed_form), a decorator-registered callback is the entry and the helpers' callback wherever no method is in sight (decorator_preparer_registered, end to end decorator_preparer_applied), the nearest method beats the decorator (method_beats_decorator), untouched subclasses inherit (untouched_subclass_inherits), the generated helpers prepare with the entry of the instance's class as assignment does (helper_prepares_as_setattr, the full statement since /repo a169c24; helper_owner_spec_witness is the legacy counter-model of the closure-based helpers), a merely re-defaulting spec subclass has the method found by name and otherwise its parent's callback, decorator registrations included (redefault_keeps_callback, the full statement since /repo 62b86d6; redefault_drops_decorator_witness is the legacy counter-model on bootstrapLegacy); tied to /repo by handing the raw declarations of every family to the model (pdecl lines), which computes the entries itself.",
    "level_note": "Trusted: Lean kernel; axioms propext/Classical.choice/Quot.sound only; the hand-written value-level model (no object identities beyond 'the receiver itself is returned'), the class-family builder and the correspondence harness. Preparers/transforms pure and total. transform_/update_ store through the assignment pipeline (preparer re-applied). Open finding KF-C05-missing-constructs: MISSING/EMPTY default-construct the annotation instead of being a no-op.",
    "technique": "Lean 4 refinement + algebraic-law proofs over a hand-written model; differential correspondence against the real helpers; documentation interpreter as independent oracle",
}
