"""
C06 — element helpers (with_/update_/transform_/without_<singular>) of list / dict /
set / KeyedList / KeyedSet attributes: correspondence between the real helpers generated
by `spec_classes` (imported from /repo) and the Lean Impl model `SpecVerif.C06`
(Drivers/C06.lean), plus the independent plain-container oracle (a Python
list / dict / set edited as the property text says).

A case is  {"attr": <attribute>, "holder": <class variant>, "steps": [...]}  where a step is
  ["new", null]            fresh instance, attribute never assigned (it shows MISSING, or the class default / the
                           content its spec_property computes: `default_tokens`)
  ["new", [tok, ...]]      fresh instance constructed with that content (dict: "k=v")
  ["with", item, index, insert, kwK, kwA, if, inplace]
  ["update", voi, new, byidx, kwK, kwA, if, inplace]
  ["transform", voi, fn, byidx, fnK, fnA, if, inplace]
  ["without", voi, byidx, if, inplace]
Tokens:  _ (MISSING / not passed) | i<int> | s<letters> | o0:<b>:<a> (Sp) | o1:<key>:<a> (KS) | o2:<key>:<a> (KI);
a token may carry an identity label `@<label>`: the same labelled token twice after a `new` is the SAME object twice
(shared elements; the very object of the container handed back as an argument);
byidx in {_, t, f}; fn names index the transform pool (`FN`), shared with the Lean driver.
Holders: H / HD / HS / HP keep the attribute in the instance `__dict__`; "<store>.<shape>" keep it behind a property,
spec_property or Alias declared in the owning class or in a subclass of it (`holder_cls`).
"""
import itertools

PID = "C06"
LEAN_TARGETS = ["SpecVerif.Props.C06"]
AUDIT = [("SpecVerif.Props.C06", "SpecVerif.Props.C06")]
DRIVER = "Drivers/C06.lean"
REQUIRED_THEOREMS = [
    "SpecVerif.Props.C06." + n
    for n in (
        "with_append", "with_replace_idx", "with_insert", "by_index_default", "update_by_index", "update_by_value",
        "transform_by_index", "transform_by_value", "first_equal", "without_by_index", "without_by_value",
        "dict_assign", "dict_update", "dict_transform", "dict_delete", "dict_others_untouched",
        "set_add", "set_replace", "set_transform", "set_remove", "set_others_untouched",
        "others_untouched", "others_untouched_positions", "missing_target", "missing_target_classes",
        "creates_when_missing", "creates_singleton", "key_promoted", "keywords_build_or_update",
        "klist_refines_list", "klist_by_key", "keysAgree_of_coh", "kset_add", "kset_by_key",
        "legacy_D7_violates", "legacy_without_missing_violates",
        "alias_item_never_edits", "alias_deepcopy", "alias_list_refines", "alias_dict_refines", "alias_others_untouched",
        "store_irrelevant", "store_read_write", "private_item_violates", "lift_own_dict_violates",
    )
]
RULE = (
    "cases = attribute (List[int], List[str], Dict[str,int], Set[int], Set[str], List[Sp], Dict[str,Sp], "
    "KeyedList[KS,str], KeyedSet[KS,str], Dict[str,KS], List[KS], List[int]+item preparer, and the same four keyed shapes for an "
    "int-keyed spec class KI) x holder class variant x "
    "container (never assigned | every content over a 3-element pool incl. falsy 0/'' and repeats, length<=N) x one helper call "
    "(every helper x addressing mode: _index in [-len-1,len+1] (+keys for KeyedList) x _insert, _by_index in {True,False,default}, "
    "key, value present/absent, falsy bare keys 0/'' with and without keywords, wrong-typed item/key, keywords, transform pool); "
    "N = 2 (+ sampled 3) quick, N = 4 thorough (every content x every call, nothing sampled); then seeded streams: two-step "
    "same-key edits of keyed containers followed by re-addressing by key, and sequences of <=4 consecutive helper calls "
    "(+-_inplace, +-_if, a malformed quarter); KeyedList/KeyedSet states are compared with their key view (items()); "
    "holders: the four plain ones and 6 stores (property, spec_property with setter, overridable spec_property computing a "
    "default content, cached spec_property, Alias, pass-through Alias) x 5 places of the descriptor (declaring class, plain / spec "
    "subclass, spec subclass of a plain subclass, plain subclass of a spec subclass), rotated over the chunks of 40 probes; "
    "never-assigned = MISSING or the class default / computed content of the holder; "
    "shared objects: every content of a List/Dict attribute of spec-class elements in which equal elements are ONE object "
    "(all groupings up to length 3, three per longer content; quick: 2 per content) x the keyword / keyword-transform probes + the very object handed back as argument "
    "+ a sample of the rest; sequences share objects between content and arguments half of the time; "
    "besides the container the tie compares: receiver's container unchanged by a copying call, no argument object edited; "
    "a probe is non-trivial when the call changed the container or raised; "
    "distinct = distinct (attribute, store kind, pre-content, call) tuples"
)
# thorough enumerates its whole single-call scope (see RULE); the sequences of edits are seeded samples
EXHAUSTIVE = {"quick": False, "thorough": True}
ASSUMPTIONS = [
    "element equality is structural (ints, strs, spec-class instances compared field by field); no bools, floats, NaN",
    "transforms / item preparers are pure total functions (pool: id, inc, zero, bad (wrong type), rekey, const; abs as item preparer)",
    "an ill-typed new element or key is outside C06 (C03): the oracle does not judge such calls, the model tie still compares them",
    "KeyedList additionally enforces unique keys (C13): the oracle expects an exception when the plain edit would duplicate a key",
    "copy-on-write is C01/C02: results are read off the returned instance; the tie (not the oracle) also flags a receiver whose container changed under a copying call and an argument object that was edited",
    "callbacks never edit the object they are handed (the model gives a callback's result an identity of its own)",
]
TRUSTED_EXTRA = [
    "Model/C13.lean KeyedList model (tied separately by the C13 run) reused as the sequence container of KeyedList attributes",
    "Model/C06H.lean: heap of objects / deep copy with memo / mutate_value's copy decisions / getattr-setattr of an instance (hand-written, tied by the runs: plain-list and dict attributes run on it)",
]
OPEN_STATEMENTS = []

ATTRS = ["ints", "strs", "dmap", "iset", "sset", "specs", "smap", "kspecs", "ksets", "kmap", "klist2", "pints",
         "kispecs", "kilist", "kimap", "kisets"]
FAMILY = {
    "ints": "list", "strs": "list", "specs": "list", "klist2": "list", "pints": "list", "kspecs": "klist",
    "dmap": "dict", "smap": "dict", "kmap": "dict", "iset": "set", "sset": "set", "ksets": "kset",
}
ITEM = {
    "ints": "int", "strs": "str", "specs": "spec", "klist2": "kspec", "pints": "int", "kspecs": "kspec",
    "dmap": "int", "smap": "spec", "kmap": "kspec", "iset": "int", "sset": "str", "ksets": "kspec",
}
BASE_HOLDERS = ["H", "HD", "HS", "HP", "HR"]
# Holders whose attributes are NOT plain `__dict__` entries: "<store>.<shape>".
#   store: how the class of the instance resolves the attribute name
#     prop    builtin property, getter/setter on the backing slot `_b_<attr>`
#     sprop   spec_property with an explicit setter (same backing slot)
#     over    overridable spec_property, not cached: the getter computes the default content on every read
#     cached  spec_property(cache=True): the computed default content is stored on first read
#     alias   Alias(<backing slot>): reads the override (or the target), writes a local override
#     aliasp  Alias(<backing slot>, passthrough=True): reads and writes the target
#   shape: where the descriptor lives relative to the spec class that declares (and owns the helpers of) the attribute
#     same       in the declaring class itself (the Attr is masked)
#     plainsub   undecorated subclass of H          specsub   @spec_class subclass of H
#     deep       @spec_class subclass of an undecorated subclass of H
#     deepplain  undecorated subclass of a @spec_class subclass of H
STORES = ["prop", "sprop", "over", "cached", "alias", "aliasp"]
SHAPES = ["same", "plainsub", "specsub", "deep", "deepplain"]
MASKED_HOLDERS = [f"{st}.{sh}" for st in STORES for sh in SHAPES]
HOLDERS = BASE_HOLDERS + MASKED_HOLDERS
# what `getattr` shows on an instance whose attribute was never assigned: None = MISSING, else this content
HD_DEFAULT = {"ints": ["i1"], "strs": ["sa"], "dmap": ["sa=i1"], "iset": ["i1"], "sset": ["sa"], "pints": ["i1"]}
COMPUTED_DEFAULT = {
    "ints": ["i1", "i0"], "strs": ["sa", "s"], "dmap": ["sa=i1", "s=i0"], "iset": ["i1", "i0"], "sset": ["sa", "s"],
    "specs": ["o0::0", "o0:a:1"], "smap": ["sa=o0::0", "s=o0:a:1"], "kspecs": ["o1:a:0", "o1::1"], "ksets": ["o1:a:0", "o1::1"],
    "kmap": ["sa=o1::0", "s=o1:a:1"], "klist2": ["o1::0", "o1:a:1"], "pints": ["i1", "i0"],
    "kispecs": ["o2:1:0", "o2:0:1"], "kilist": ["o2:0:0", "o2:1:1"], "kimap": ["sa=o2:0:0", "s=o2:1:1"], "kisets": ["o2:1:0", "o2:0:1"],
}


def default_tokens(holder, attr):
    """Content of the attribute on a bare instance of the holder (None: the attribute is MISSING)."""
    if holder in ("HD", "HR"):
        return HD_DEFAULT.get(attr, [])
    if holder.split(".")[0] in ("over", "cached"):
        return COMPUTED_DEFAULT[attr]
    return None


def store_of(holder):
    """store kind of the Lean `Inst` model"""
    st = holder.split(".")[0]
    return {"prop": "slot", "sprop": "slot", "alias": "slot", "aliasp": "slot", "over": "computed", "cached": "cached"}.get(st, "dict")
# int-keyed spec-class elements (falsy bare key 0)
FAMILY.update(kispecs="klist", kilist="list", kimap="dict", kisets="kset")
ITEM.update(kispecs="ikspec", kilist="ikspec", kimap="ikspec", kisets="ikspec")

_cls = {}
_MISSING = None
_singular = {}


def setup():
    global _MISSING
    from typing import Dict, List, Set

    from spec_classes import MISSING, spec_class
    from spec_classes.types import KeyedList, KeyedSet

    _MISSING = MISSING

    @spec_class
    class Sp:
        a: int = 0
        b: str = ""

    @spec_class(key="key")
    class KS:
        key: str
        a: int = 0

    @spec_class(key="key")
    class KI:
        key: int
        a: int = 0

    @spec_class(bootstrap=True)
    class H:
        ints: List[int]
        strs: List[str]
        dmap: Dict[str, int]
        iset: Set[int]
        sset: Set[str]
        specs: List[Sp]
        smap: Dict[str, Sp]
        kspecs: KeyedList[KS, str]
        ksets: KeyedSet[KS, str]
        kmap: Dict[str, KS]
        klist2: List[KS]
        pints: List[int]
        kispecs: KeyedList[KI, int]
        kilist: List[KI]
        kimap: Dict[str, KI]
        kisets: KeyedSet[KI, int]

        def _prepare_pint(self, x):
            return abs(x) if isinstance(x, int) and not isinstance(x, bool) else x

    @spec_class
    class HD:  # lazily bootstrapped, mutable defaults
        ints: List[int] = [1]
        strs: List[str] = ["a"]
        dmap: Dict[str, int] = {"a": 1}
        iset: Set[int] = {1}
        sset: Set[str] = {"a"}
        specs: List[Sp] = []
        smap: Dict[str, Sp] = {}
        kspecs: KeyedList[KS, str] = KeyedList[KS, str]()
        ksets: KeyedSet[KS, str] = KeyedSet[KS, str]()
        kmap: Dict[str, KS] = {}
        klist2: List[KS] = []
        pints: List[int] = [1]
        kispecs: KeyedList[KI, int] = KeyedList[KI, int]()
        kilist: List[KI] = []
        kimap: Dict[str, KI] = {}
        kisets: KeyedSet[KI, int] = KeyedSet[KI, int]()

        def _prepare_pint(self, x):
            return abs(x) if isinstance(x, int) and not isinstance(x, bool) else x

    @spec_class
    class HS(H):  # spec subclass
        extra: int = 0

    class HP(H):  # plain subclass
        pass

    # spec subclass that declares every attribute again, with the (mutable) defaults of HD: the helpers it inherits
    # were generated for H's declarations, the instance is described by its own
    HR = spec_class(type("HR", (H,), {"__annotations__": dict(H.__annotations__), **{a: HD.__dict__[a] for a in ATTRS if a in HD.__dict__}}))

    _cls.clear()
    _cls.update(Sp=Sp, KS=KS, KI=KI, H=H, HD=HD, HS=HS, HP=HP, HR=HR)
    for a in ATTRS:
        _singular[a] = H.__spec_class__.attrs[a].item_name


def _descriptor(store, name):
    from spec_classes import spec_property
    from spec_classes.types import Alias

    back = "_b_" + name
    if store in ("prop", "sprop"):

        def fget(self):
            return getattr(self, back)  # AttributeError while never assigned -> the attribute is MISSING

        def fset(self, v):
            setattr(self, back, v)

        return property(fget, fset) if store == "prop" else spec_property(fget, fset)
    if store in ("over", "cached"):

        def compute(self):
            return content_of(name, COMPUTED_DEFAULT[name])  # a new container of new elements on every call

        return spec_property(compute, cache=(store == "cached"))
    if store == "alias":
        return Alias(back)
    if store == "aliasp":
        return Alias(back, passthrough=True)
    raise ValueError(store)


def holder_cls(name):
    """The holder class `name` (built on first use; `_cls` is emptied by setup())."""
    if name in _cls:
        return _cls[name]
    from spec_classes import spec_class

    store, shape = name.split(".")
    H = _cls["H"]
    ns = {a: _descriptor(store, a) for a in ATTRS}
    cname = f"X_{store}_{shape}"
    if shape == "same":
        ns["__annotations__"] = dict(H.__annotations__)
        ns["_prepare_pint"] = H.__dict__["_prepare_pint"]
        cls = spec_class(bootstrap=True)(type(cname, (), ns))
    elif shape == "plainsub":
        cls = type(cname, (H,), ns)
    elif shape == "specsub":
        cls = spec_class(type(cname, (H,), ns))
    elif shape == "deep":
        cls = spec_class(type(cname, (type(cname + "_mid", (H,), {}),), ns))
    elif shape == "deepplain":
        mid = spec_class(type(cname + "_mid", (H,), {"__annotations__": {"extra": int}, "extra": 0}))
        cls = type(cname, (mid,), ns)
    else:
        raise ValueError(name)
    _cls[name] = cls
    return cls


# ---------------------------------------------------------------------------
# tokens <-> real values
# ---------------------------------------------------------------------------


_labelled = {}  # identity label -> object (emptied at every `new` step): `o0:b:1@3` twice is the SAME object twice


def unlabel(tok):
    return tok.split("@")[0]


def val(tok):
    if "@" in tok:
        if tok not in _labelled:
            _labelled[tok] = val(unlabel(tok))
        return _labelled[tok]
    if tok == "_":
        return _MISSING
    if tok[0] == "i":
        return int(tok[1:])
    if tok[0] == "s":
        return tok[1:]
    if tok[0] == "o":
        kd, k, a = tok[1:].split(":")
        if kd == "2":
            return _cls["KI"](key=int(k), a=int(a))
        return _cls["KS"](key=k, a=int(a)) if kd == "1" else _cls["Sp"](a=int(a), b=k)
    raise ValueError(tok)


def tok(v):
    if isinstance(v, bool):
        return f"?{v!r}"
    if isinstance(v, int):
        return f"i{v}"
    if isinstance(v, str):
        return "s" + v
    if isinstance(v, _cls["KS"]):
        return f"o1:{v.key}:{v.a}"
    if isinstance(v, _cls["KI"]):
        return f"o2:{v.key}:{v.a}"
    if isinstance(v, _cls["Sp"]):
        return f"o0:{v.b}:{v.a}"
    return f"?{type(v).__name__}"


def _fn_inc(v):
    if isinstance(v, int):
        return v + 1
    if isinstance(v, str):
        return v + "x"
    return v.with_a(v.a + 1)


def _fn_zero(v):
    if isinstance(v, int):
        return 0
    if isinstance(v, str):
        return ""
    return v.with_a(0)


def _fn_bad(v):
    if isinstance(v, int):
        return "bad"
    return 7


def _fn_rekey(v):
    if isinstance(v, _cls["KI"]):
        return v.with_key(v.key + 1)
    if isinstance(v, _cls["KS"]):
        return v.with_key(v.key + "x")
    if isinstance(v, _cls["Sp"]):
        return v.with_b(v.b + "x")
    return v


def fn(name):
    if name == "_":
        return _MISSING
    if name.startswith("const:"):
        c = name[6:]
        return lambda v: val(c)
    return {"id": lambda v: v, "inc": _fn_inc, "zero": _fn_zero, "bad": _fn_bad, "rekey": _fn_rekey}[name]


FNK = {"up": lambda s: s + 1 if isinstance(s, int) else s + "x", "empty": lambda s: 0 if isinstance(s, int) else ""}
FNA = {"inc": lambda a: a + 1, "zero": lambda a: 0}


def kname(attr):
    return "key" if ITEM[attr] in ("kspec", "ikspec") else "b"


def kwval(t):
    """keyword value of `key=` / `b=`: str (`s…`) or int (`i…`)"""
    return int(t[1:]) if t[0] == "i" else t[1:]


def show_state(attr, obj):
    if obj is None:
        return "no-instance"
    v = getattr(obj, attr, _MISSING)
    if v is _MISSING:
        return "missing"
    fam = FAMILY[attr]
    if fam == "list":
        return "[" + ",".join(tok(x) for x in v) + "]"
    if fam == "klist":  # list view + key view (items(), insertion order)
        return "[" + ",".join(tok(x) for x in v) + "] dict {" + ",".join(f"{tok(k)}={tok(x)}" for k, x in v.items()) + "}"
    if fam == "dict":
        return "{" + ",".join(f"{tok(k)}={tok(x)}" for k, x in v.items()) + "}"
    if fam == "kset":  # key view, sorted
        return "{" + ",".join(sorted(f"{tok(k)}={tok(x)}" for k, x in v.items())) + "}"
    return "{" + ",".join(sorted(tok(x) for x in v)) + "}"


ERRS = ("IndexError", "KeyError", "ValueError", "TypeError", "AttributeError", "FrozenInstanceError", "RuntimeError")


def err_name(e):
    for klass in type(e).__mro__:
        if klass.__name__ in ERRS:
            return klass.__name__
    return type(e).__name__


# ---------------------------------------------------------------------------
# the real side
# ---------------------------------------------------------------------------


def content_of(attr, toks):
    fam = FAMILY[attr]
    if fam == "dict":
        out = {}
        for t in toks:
            k, v = t.split("=")
            out[val(k)] = val(v)
        return out
    items = [val(t) for t in toks]
    if fam == "set":
        return set(items)
    return items  # list / KeyedList / KeyedSet are built by prepare() from a list


def new_obj(case, init):
    H = holder_cls(case.get("holder", "H"))
    if init is None:
        return H()
    return H(**{case["attr"]: content_of(case["attr"], init)})


def call_real(attr, obj, step, args=None):
    """Performs one helper call on `obj`; returns the resulting instance. `args` collects (token, object) of the
    element / address objects handed to the call."""

    def rv(t):  # (records what was handed over)
        v = val(t)
        if args is not None and t != "_":
            args.append((t, v))
        return v

    name = step[0]
    fam = FAMILY[attr]
    sing = _singular[attr]
    m = getattr(obj, f"{name}_{sing}")
    kw = {}
    if name == "with":
        _, item, index, insert, kwk, kwa, if_, inplace = step
        if kwk != "_":
            kw[kname(attr)] = kwval(kwk)
        if kwa != "_":
            kw["a"] = int(kwa[1:])
        kw["_inplace"] = bool(inplace)
        kw["_if"] = bool(if_)
        if fam in ("list", "klist"):
            if index != "_":
                kw["_index"] = rv(index)
            if insert:
                kw["_insert"] = True
            return m(rv(item), **kw)
        if fam == "dict":
            return m(rv(index), rv(item), **kw)
        return m(rv(item), **kw)
    if name == "update":
        _, voi, new, bi, kwk, kwa, if_, inplace = step
        if kwk != "_":
            kw[kname(attr)] = kwval(kwk)
        if kwa != "_":
            kw["a"] = int(kwa[1:])
        kw["_inplace"] = bool(inplace)
        kw["_if"] = bool(if_)
        if fam in ("list", "klist") and bi != "_":
            kw["_by_index"] = bi == "t"
        return m(rv(voi), rv(new), **kw)
    if name == "transform":
        _, voi, f, bi, fk, fa, if_, inplace = step
        if fk != "_":
            kw[kname(attr)] = FNK[fk]
        if fa != "_":
            kw["a"] = FNA[fa]
        kw["_inplace"] = bool(inplace)
        kw["_if"] = bool(if_)
        if fam in ("list", "klist") and bi != "_":
            kw["_by_index"] = bi == "t"
        return m(rv(voi), fn(f), **kw)
    if name == "without":
        _, voi, bi, if_, inplace = step
        kw["_inplace"] = bool(inplace)
        kw["_if"] = bool(if_)
        if fam in ("list", "klist") and bi != "_":
            kw["_by_index"] = bi == "t"
        return m(rv(voi), **kw)
    raise ValueError(step)


_memo = [None, None, None]


def run_real(case):
    """[(step, pre_state, err or None, post_state)] — one entry per step."""
    if _memo[0] is case:
        return _memo[1]
    attr = case["attr"]
    out = []

    def fresh():
        try:
            return holder_cls(case.get("holder", "H"))()
        except Exception:  # noqa: BLE001  (a broken library may fail to build even the bare instance)
            return None

    _labelled.clear()
    obj = fresh()
    _memo[2] = show_state(attr, obj)
    post = _memo[2]
    for step in case["steps"]:
        pre = post  # (what the attribute showed after the previous step)
        err = None
        side = ""
        try:
            if step[0] == "new":
                _labelled.clear()
                obj = fresh()  # a failed construction leaves a fresh instance
                obj = new_obj(case, step[1])
            else:
                args = []
                receiver = obj
                try:
                    obj = call_real(attr, obj, step, args)
                finally:
                    # what the model takes for granted (it is a function of the container's content): a copying call
                    # leaves the receiver's container as it was, no call edits an object that was handed to it
                    if not step[-1] and obj is not receiver and show_state(attr, receiver) != pre:
                        side += " ;; receiver-changed " + show_state(attr, receiver)
                    changed = [t for t, v in args if tok(v) != unlabel(t)]
                    if changed:
                        side += " ;; argument-changed " + ",".join(changed)
        except Exception as e:  # noqa: BLE001
            err = err_name(e)
        post = show_state(attr, obj)
        out.append((step, pre, err, post, side))
    _memo[0], _memo[1] = case, out
    return out


def real_lines(case):
    steps = run_real(case)
    out = ["ok ;; " + _memo[2]]
    for step, pre, err, post, side in steps:
        out.append(("ok" if err is None else "err " + err) + " ;; " + post + side)
    return out


def model_lines(case):
    attr = case["attr"]
    holder = case.get("holder", "H")
    # `attr <name> <store> <content of a bare instance>`: a new instance of the holder (Lean: `Inst`)
    dflt = default_tokens(holder, attr)
    bare = " ".join([f"attr {attr} {store_of(holder)}"] + (["missing"] if dflt is None else ["default"] + dflt))
    out = [bare]
    for step in case["steps"]:
        if step[0] == "new":
            out.append(bare if step[1] is None else " ".join(["init"] + list(step[1])))
        elif step[0] == "with":
            _, item, index, insert, kwk, kwa, if_, ip = step
            out.append(f"with {item} {index} {int(insert)} {kwk} {kwa} {int(if_)} {int(ip)}")
        elif step[0] == "update":
            _, voi, new, bi, kwk, kwa, if_, ip = step
            out.append(f"update {voi} {new} {bi} {kwk} {kwa} {int(if_)} {int(ip)}")
        elif step[0] == "transform":
            _, voi, f, bi, fk, fa, if_, ip = step
            out.append(f"transform {voi} {f} {bi} {fk} {fa} {int(if_)} {int(ip)}")
        elif step[0] == "without":
            _, voi, bi, if_, ip = step
            out.append(f"without {voi} {bi} {int(if_)} {int(ip)}")
        else:
            raise ValueError(step)
    return out


# ---------------------------------------------------------------------------
# independent oracle: the same edit on a plain list / dict / set (property text)
#
# Plain values: int, str, ("o", keyed, k, a) for a spec-class element.
# ---------------------------------------------------------------------------

MISS = {"IndexError", "KeyError", "ValueError"}  # "A missing target raises IndexError, KeyError or ValueError"


class Unjudged(Exception):
    """The call is outside what C06 states (ill-typed element/key, malformed addressing)."""


class Expect(Exception):
    def __init__(self, classes, why):
        self.classes, self.why = set(classes), why


def pv(t):
    t = unlabel(t)  # the plain container holds values; which of them are one object is not its business
    if t[0] == "i":
        return int(t[1:])
    if t[0] == "s":
        return t[1:]
    kd, k, a = t[1:].split(":")
    if kd == "2":
        return ("o", 2, int(k), int(a))
    return ("o", kd == "1", k, int(a))


def pt(v):
    if isinstance(v, int):
        return f"i{v}"
    if isinstance(v, str):
        return "s" + v
    return f"o{int(v[1])}:{v[2]}:{v[3]}"


def parse_state(attr, s):
    """Plain container from the canonical state string of the real object."""
    fam = FAMILY[attr]
    if s == "missing":
        return None
    if fam == "klist":
        s = s.split(" dict ")[0]
    body = s[1:-1]
    toks = body.split(",") if body else []
    if fam in ("list", "klist"):
        return [pv(t) for t in toks]
    if fam == "dict":
        return {pv(t.split("=")[0]): pv(t.split("=")[1]) for t in toks}
    if fam == "set":
        return {pv(t) for t in toks}
    return {key_of(pv(t.split("=")[1])): pv(t.split("=")[1]) for t in toks}  # kset: key -> item


def key_view_problem(attr, s):
    """KeyedList / KeyedSet: the key view (items()) must be the scan of the elements."""
    fam = FAMILY[attr]
    if s == "missing" or fam not in ("klist", "kset"):
        return None
    if fam == "klist":
        lst, dct = s.split(" dict ")
        items = [pv(t) for t in (lst[1:-1].split(",") if lst[1:-1] else [])]
        pairs = [(pv(t.split("=")[0]), pv(t.split("=")[1])) for t in (dct[1:-1].split(",") if dct[1:-1] else [])]
        if sorted(map(repr, pairs)) != sorted(repr((key_of(x), x)) for x in items):
            return f"key view {dct} is not the scan of the list {lst}"
        return None
    pairs = [(pv(t.split("=")[0]), pv(t.split("=")[1])) for t in (s[1:-1].split(",") if s[1:-1] else [])]
    bad = [p for p in pairs if key_of(p[1]) != p[0]]
    return f"keyed set holds items under a wrong key: {bad}" if bad else None


def is_elem(attr, v):
    ty = ITEM[attr]
    if ty == "int":
        return isinstance(v, int)
    if ty == "str":
        return isinstance(v, str)
    return isinstance(v, tuple) and v[1] is {"spec": False, "kspec": True, "ikspec": 2}[ty]


def promote(attr, v):
    """a bare key is promoted to a keyed element"""
    if ITEM[attr] == "kspec" and isinstance(v, str):
        return ("o", True, v, 0)
    if ITEM[attr] == "ikspec" and isinstance(v, int):
        return ("o", 2, v, 0)
    return v


def with_kw(v, k, a):
    if k is None and a is None:
        return v
    if not isinstance(v, tuple):
        raise Unjudged("keywords on a scalar element")
    return ("o", v[1], v[2] if k is None else k, v[3] if a is None else a)


def build(attr, k, a):
    ty = ITEM[attr]
    if ty == "int":
        return with_kw(0, k, a)
    if ty == "str":
        return with_kw("", k, a)
    if ty in ("kspec", "ikspec"):
        if k is None:
            raise Unjudged("keyed element built without its key")
        return ("o", True if ty == "kspec" else 2, k, 0 if a is None else a)
    return ("o", False, "" if k is None else k, 0 if a is None else a)


def ofn(name, v):
    if name == "id":
        return v
    if name == "inc":
        return v + 1 if isinstance(v, int) else v + "x" if isinstance(v, str) else (v[0], v[1], v[2], v[3] + 1)
    if name == "zero":
        return 0 if isinstance(v, int) else "" if isinstance(v, str) else (v[0], v[1], v[2], 0)
    if name == "bad":
        return "bad" if isinstance(v, int) else 7
    if name == "rekey":
        return (v[0], v[1], v[2] + (1 if isinstance(v[2], int) else "x"), v[3]) if isinstance(v, tuple) else v
    if name.startswith("const:"):
        return pv(name[6:])
    raise ValueError(name)


def key_of(v):
    return v[2] if isinstance(v, tuple) and v[1] else v


def new_element(attr, step, old):
    """The element the call stores, from the property text / docs."""
    name = step[0]
    if name in ("with", "update"):
        given = step[1] if name == "with" else step[2]
        k = None if step[4] == "_" else kwval(step[4])
        a = None if step[5] == "_" else int(step[5][1:])
        if given != "_":
            v = promote(attr, pv(given))
            if attr == "pints" and isinstance(v, int):
                v = abs(v)
            return with_kw(v, k, a)
        if name == "with" or old is None:
            return build(attr, k, a)  # keywords build ...
        return with_kw(old, k, a)  # ... or update the element
    # transform
    v = old if step[2] == "_" else ofn(step[2], old)
    fk, fa = step[4], step[5]
    if fk != "_" or fa != "_":
        if not isinstance(v, tuple):
            raise Unjudged("keyword transforms on a scalar element")
        k2 = v[2] if fk == "_" else FNK[fk](v[2])
        a2 = v[3] if fa == "_" else (v[3] + 1 if fa == "inc" else 0)
        v = ("o", v[1], k2, a2)
    return v


def by_index(attr, bi, v):
    if bi == "t":
        return True
    if bi == "f":
        return False
    return not is_elem(attr, v)  # "defaults to True if not of the same type as that contained in the sequence"


def resolve_pos(attr, ref, v):
    """position addressed by index/key `v` in the plain list"""
    if isinstance(v, int):
        if not -len(ref) <= v < len(ref):
            raise Expect(MISS, f"index {v} out of range")
        return v % len(ref)
    if FAMILY[attr] == "klist":
        for i, x in enumerate(ref):
            if key_of(x) == v:
                return i
        raise Expect(MISS, f"no element with key {v!r}")
    raise Expect({"TypeError"}, "a plain list cannot be indexed by a non-integer")


def checked(attr, v):
    if not is_elem(attr, v):
        raise Unjudged("ill-typed element (C03)")
    return v


def expected(attr, ref, step):
    """Applies the plain container operation to `ref` (a copy); returns the new plain container."""
    fam = FAMILY[attr]
    name = step[0]
    if fam in ("list", "klist"):
        ref = list(ref)
        if name == "with":
            index, insert = step[2], step[3]
            if index == "_":
                ref.append(checked(attr, new_element(attr, step, None)))
            else:
                i = pv(index)
                if insert:
                    if not isinstance(i, int):
                        raise Unjudged("insert before a key")
                    ref.insert(i, checked(attr, new_element(attr, step, None)))
                else:
                    p = resolve_pos(attr, ref, i)
                    ref[p] = checked(attr, new_element(attr, step, ref[p]))
        else:
            v = pv(step[1])
            bi = step[3] if name != "without" else step[2]
            if by_index(attr, bi, v):
                p = resolve_pos(attr, ref, v)
            else:
                if v not in ref:
                    raise Expect(MISS, f"value {v!r} not in the list")
                p = ref.index(v)  # first of equal values
            if name == "without":
                del ref[p]
            else:
                ref[p] = checked(attr, new_element(attr, step, ref[p]))
        if fam == "klist":
            keys = [key_of(x) for x in ref]
            if len(set(keys)) != len(keys):
                raise Expect({"ValueError"}, "the edit would duplicate a key of the KeyedList (C13)")
        return ref
    if fam == "dict":
        ref = dict(ref)
        k = pv(step[2]) if name == "with" else pv(step[1])
        if name != "with" and k not in ref:
            raise Expect(MISS, f"key {k!r} not in the dict")
        if name == "without":
            del ref[k]
            return ref
        if not isinstance(k, str):
            raise Unjudged("ill-typed key (C03)")
        ref[k] = checked(attr, new_element(attr, step, ref.get(k)))
        return ref
    if fam == "set":
        ref = set(ref)
        if name == "with":
            ref.add(checked(attr, new_element(attr, step, None)))
            return ref
        v = pv(step[1])
        if v not in ref:
            raise Expect(MISS, f"{v!r} not in the set")
        ref.remove(v)
        if name != "without":
            ref.add(checked(attr, new_element(attr, step, v)))
        return ref
    # kset: a set of items identified by key
    ref = dict(ref)
    if name == "with":
        x = checked(attr, new_element(attr, step, None))
        ref[key_of(x)] = x
        return ref
    v = pv(step[1])
    k = key_of(v)
    if k not in ref:
        raise Expect(MISS, f"no item with key {k!r} in the keyed set")
    old = ref.pop(k)
    if name != "without":
        x = checked(attr, new_element(attr, step, old))
        ref[key_of(x)] = x
    return ref


def same(attr, ref, got):
    if FAMILY[attr] == "dict":
        return list(ref.items()) == list(got.items())  # content and order
    return ref == got


def empty(attr):
    return {"list": [], "klist": [], "dict": {}, "set": set(), "kset": {}}[FAMILY[attr]]


def oracle(case):
    attr = case["attr"]
    viol = []
    for n, (step, pre, err, post, _side) in enumerate(run_real(case)):
        if step[0] == "new":
            if err is not None or post == "no-instance":
                viol.append(f"step#{n} {step}: constructing the instance raised {err}")
                break
            continue
        if pre == "no-instance":
            break
        before = parse_state(attr, pre)
        after = parse_state(attr, post)
        if not step[-2]:  # _if=False: a no-op
            if err or pre != post:
                viol.append(f"step#{n} {step}: _if=False changed {pre} -> {post} / raised {err}")
            continue
        kv = key_view_problem(attr, post)
        if kv:
            viol.append(f"step#{n} {step} on {pre}: {kv}")
        ref = empty(attr) if before is None else before  # "creating the container when it is missing"
        try:
            want = expected(attr, ref, step)
        except Unjudged:
            continue
        except Expect as ex:
            if err is None:
                viol.append(f"step#{n} {step} on {pre}: succeeded with {post}; plain container: {ex.why}, expected {'/'.join(sorted(ex.classes))}")
            elif err not in ex.classes:
                viol.append(f"step#{n} {step} on {pre}: raised {err}; plain container: {ex.why}, expected {'/'.join(sorted(ex.classes))}")
            continue
        if err is not None:
            viol.append(f"step#{n} {step} on {pre}: raised {err}; the plain operation succeeds with {want}")
        elif after is None or not same(attr, want, after):
            viol.append(f"step#{n} {step} on {pre}: container is {post}; the plain operation gives {want}")
        if len(viol) > 5:
            break
    return viol


# ---------------------------------------------------------------------------
# generation
# ---------------------------------------------------------------------------

POOL = {  # content elements: falsy first
    "ints": ["i0", "i1", "i-1"],
    "pints": ["i0", "i1", "i2"],
    "strs": ["s", "sa", "sb"],
    "specs": ["o0::0", "o0::1", "o0:a:0"],
    "klist2": ["o1::0", "o1:a:0", "o1:a:1"],
    "kspecs": ["o1::0", "o1:a:0", "o1:b:1"],
    "iset": ["i0", "i1", "i2"],
    "sset": ["s", "sa", "sb"],
    "ksets": ["o1::0", "o1:a:0", "o1:b:1"],
}
POOL.update(kispecs=["o2:0:0", "o2:1:0", "o2:2:1"], kilist=["o2:0:0", "o2:1:0", "o2:1:1"], kisets=["o2:0:0", "o2:1:0", "o2:2:1"])
DKEYS = ["s", "sa", "sb"]
DVALS = {"dmap": ["i0", "i1"], "smap": ["o0::0", "o0:a:1"], "kmap": ["o1::0", "o1:a:1"], "kimap": ["o2:0:0", "o2:1:1"]}
NEWITEMS = {  # items handed to with_/update_ (valid incl. falsy, then ill-typed)
    "ints": (["i0", "i5"], ["sa"]),
    "pints": (["i0", "i-5"], ["sa"]),
    "strs": (["s", "sq"], ["i0"]),
    "specs": (["o0::0", "o0:q:5"], ["i0", "sa", "o1:a:0"]),
    "klist2": (["o1::0", "o1:q:5", "sq", "s"], ["i0", "o0:a:0"]),
    "kspecs": (["o1::5", "o1:q:5", "sq", "sa", "s"], ["i0", "o0:a:0"]),
    "iset": (["i0", "i5"], ["sa"]),
    "sset": (["s", "sq"], ["i0"]),
    "ksets": (["o1::5", "o1:q:5", "sq", "sa", "s"], ["i0", "o0:a:0"]),
    "dmap": (["i0", "i5"], ["sa"]),
    "smap": (["o0::0", "o0:q:5"], ["i0", "sa"]),
    "kmap": (["o1::0", "sq", "s"], ["i0"]),
}
NEWITEMS.update(
    kispecs=(["o2:0:5", "o2:7:5", "i7", "i1", "i0"], ["sa", "o1:a:0"]),
    kilist=(["o2:0:0", "o2:7:5", "i7", "i0"], ["sa", "o0:a:0"]),
    kisets=(["o2:0:5", "o2:7:5", "i7", "i1", "i0"], ["sa", "o1:a:0"]),
    kimap=(["o2:0:0", "i7", "i0"], ["sa"]),
)
ABSENT = {
    "ints": ["i7"], "pints": ["i7"], "strs": ["sz"], "specs": ["o0:z:9"], "klist2": ["o1:z:9"],
    "kspecs": ["o1:z:9", "o1:a:7"], "iset": ["i7"], "sset": ["sz"], "ksets": ["sz", "o1:z:9"],
}
ABSENT.update(kispecs=["o2:9:9", "o2:1:7"], kilist=["o2:9:9"], kisets=["i9", "o2:9:9"])
FNS = {
    "ikspec": ["inc", "zero", "id", "bad", "rekey", "_", "const:o2:7:3"],
    "int": ["inc", "zero", "id", "bad", "const:i0"],
    "str": ["inc", "zero", "id", "bad", "const:s"],
    "spec": ["inc", "zero", "id", "bad", "rekey", "_"],
    "kspec": ["inc", "zero", "id", "bad", "rekey", "_", "const:o1:q:3"],
}


def is_spec(attr):
    return ITEM[attr] in ("spec", "kspec", "ikspec")


def kw_variants(attr):
    """keyword sets (key/b, a) for spec-class elements, incl. falsy values"""
    if ITEM[attr] == "ikspec":
        return [("i5", "_"), ("_", "i7"), ("i0", "i0")]
    return [("sk", "_"), ("_", "i7"), ("s", "i0")]


def key_tokens(attr):
    return ["i0", "i1", "i9"] if ITEM[attr] == "ikspec" else ["s", "sa", "sz"]


def contents(attr, maxlen):
    """All initial contents up to `maxlen` (None = never assigned first)."""
    fam = FAMILY[attr]
    out = [None, []]
    if fam == "list":
        for n in range(1, maxlen + 1):
            out += [list(c) for c in itertools.product(POOL[attr], repeat=n)]
    elif fam == "klist":
        for n in range(1, maxlen + 1):
            for c in itertools.permutations(POOL[attr], n):
                out.append(list(c))
    elif fam in ("set", "kset"):
        for n in range(1, min(maxlen, 3) + 1):
            for c in itertools.combinations(POOL[attr], n):
                out.append(list(c))
    else:
        for n in range(1, min(maxlen, 3) + 1):
            for ks in itertools.permutations(DKEYS, n):
                for vs in itertools.product(DVALS[attr], repeat=n):
                    out.append([f"{k}={v}" for k, v in zip(ks, vs)])
    return out


def elems_of(attr, init):
    if not init:
        return []
    if FAMILY[attr] == "dict":
        return [t.split("=")[0] for t in init]
    return list(dict.fromkeys(unlabel(t) for t in init))


ALIASABLE = ["specs", "smap", "klist2", "kmap", "kilist", "kimap"]  # list / dict attributes of spec-class elements


def _partitions(n):
    """restricted growth strings of length n (= all ways to split n positions into groups)"""
    out = [[0]]
    for _ in range(n - 1):
        out = [p + [g] for p in out for g in range(max(p) + 2)]
    return out


def alias_variants(attr, init):
    """Every way to make EQUAL elements of the content one and the same object (at least two positions shared):
    token `t` -> `t@<group>`. Plain containers only: a KeyedList / KeyedSet cannot hold an object twice."""
    if attr not in ALIASABLE or not init:
        return []
    vals = [t.split("=")[-1] for t in init]
    groups = {}
    for i, v in enumerate(vals):
        groups.setdefault(v, []).append(i)
    groups = [g for g in groups.values() if len(g) > 1]
    if not groups:
        return []
    out = []
    choices = [[p for p in _partitions(len(g))] for g in groups]
    for combo in itertools.product(*choices):
        if all(len(set(p)) == len(p) for p in combo):
            continue  # nothing shared
        toks = list(init)
        for gi, (g, p) in enumerate(zip(groups, combo)):
            for pos, lab in zip(g, p):
                if p.count(lab) > 1:
                    toks[pos] = f"{init[pos]}@{gi}{lab}"
        out.append(toks)
    return out


def aliased_ops(attr, init, rng):
    """The probes of an aliased content: every call that edits an element through keywords / keyword transforms (the
    calls that could reach a shared object), calls handing over the very object that is in the container, and a
    sample of the rest."""
    ops = single_ops(attr, unl(init))
    keep = [op for op in ops if op[0] != "without" and (op[4] != "_" or op[5] != "_")]
    rest = [op for op in ops if op not in keep]
    keep += rng.sample(rest, min(len(rest), max(20, len(rest) // 8)))
    if FAMILY[attr] == "list":
        for t in dict.fromkeys(init):
            if "@" in t:
                kk, ka = kw_variants(attr)[1]
                keep.append(["update", t, "_", "_", kk, ka, 1, 0])
                keep.append(["update", t, "_", "f", "_", "i7", 1, 0])
                keep.append(["transform", t, "_", "_", "_", "inc", 1, 0])
                keep.append(["with", t, "_", 0, "_", "i7", 1, 0])
                keep.append(["with", t, "i0", 0, "_", "i7", 1, 0])
                keep.append(["without", t, "_", 1, 0])
    else:
        k0 = init[0].split("=")[0]
        for t in dict.fromkeys(x.split("=")[1] for x in init):
            if "@" in t:
                keep.append(["with", t, k0, 0, "_", "i7", 1, 0])
                keep.append(["with", t, "sz", 0, "_", "i7", 1, 0])
                keep.append(["update", k0, t, "_", "_", "i7", 1, 0])
    return keep


def unl(init):
    return None if init is None else [unlabel(t) for t in init]


def single_ops(attr, init):
    """Every helper x addressing mode x argument class on this content (inplace/if fixed: 0/1)."""
    fam = FAMILY[attr]
    n = len(init or [])
    good, bad = NEWITEMS[attr]
    spec = is_spec(attr)
    kws = [("_", "_")] + (kw_variants(attr) if spec else [])
    fkws = [("_", "_")] + ([("up", "_"), ("_", "inc"), ("empty", "zero")] if spec else [])
    ops = []
    if fam in ("list", "klist"):
        idx = [f"i{i}" for i in range(-n - 1, n + 2)]
        if fam == "klist":
            idx += ["s", "sa", "sz"]
        for item in good + bad + ["_"]:
            for kk, ka in (kws if item in ("_", good[0], good[-1]) else kws[:1]):
                ops.append(["with", item, "_", 0, kk, ka, 1, 0])
        for item in good[:2] + bad[:1] + ["_"]:
            for i in idx:
                for ins in (0, 1):
                    for kk, ka in (kws[:2] if item == "_" else kws[:1]):
                        ops.append(["with", item, i, ins, kk, ka, 1, 0])
        vois = idx + elems_of(attr, init) + ABSENT[attr] + (["sa"] if fam == "list" and ITEM[attr] != "str" else [])
        vois = list(dict.fromkeys(vois))
        for v in vois:
            for bi in ("_", "t", "f"):
                for new in list(dict.fromkeys([good[1], good[-1], "_", bad[0]])):
                    for kk, ka in (kws if new == "_" else kws[:1]):
                        ops.append(["update", v, new, bi, kk, ka, 1, 0])
                for f in FNS[ITEM[attr]]:
                    for fk, fa in (fkws if f == "_" else fkws[:1]):
                        ops.append(["transform", v, f, bi, fk, fa, 1, 0])
                ops.append(["without", v, bi, 1, 0])
    elif fam == "dict":
        keys = DKEYS + ["sz", "i5"]
        for k in keys:
            for value in good + bad + (["_"] if spec else []):
                for kk, ka in (kws if value in ("_", good[0], good[-1]) else kws[:1]):
                    ops.append(["with", value, k, 0, kk, ka, 1, 0])
            for new in list(dict.fromkeys([good[1], good[-1], "_", bad[0]])):
                for kk, ka in (kws if new == "_" else kws[:1]):
                    ops.append(["update", k, new, "_", kk, ka, 1, 0])
            for f in FNS[ITEM[attr]]:
                for fk, fa in (fkws if f == "_" else fkws[:1]):
                    ops.append(["transform", k, f, "_", fk, fa, 1, 0])
            ops.append(["without", k, "_", 1, 0])
    else:
        for item in good + bad + (["_"] if spec else []):
            for kk, ka in (kws if item in ("_", good[0], good[-1]) else kws[:1]):
                ops.append(["with", item, "_", 0, kk, ka, 1, 0])
        vois = list(dict.fromkeys(POOL[attr] + ABSENT[attr] + (key_tokens(attr)[:2] if fam == "kset" else [])))
        for v in vois:
            for new in list(dict.fromkeys([good[1], good[0], good[-1], "_", bad[0]])):
                for kk, ka in (kws if new == "_" else kws[:1]):
                    ops.append(["update", v, new, "_", kk, ka, 1, 0])
            for f in FNS[ITEM[attr]]:
                for fk, fa in (fkws if f == "_" else fkws[:1]):
                    ops.append(["transform", v, f, "_", fk, fa, 1, 0])
            ops.append(["without", v, "_", 1, 0])
    return ops


def random_op(attr, rng, n, malformed=False):
    """One helper call for a sequence of edits (mostly valid; `malformed` widens the argument pools)."""
    fam = FAMILY[attr]
    good, bad = NEWITEMS[attr]
    spec = is_spec(attr)
    items = good + (bad + ["_"] if malformed else [])
    if fam == "dict":
        pool = DKEYS + (["sz", "i5"] if malformed else ["sz"])
    else:
        pool = POOL[attr] + good + ABSENT[attr]
    inplace = int(rng.random() < 0.4)
    if_ = int(rng.random() >= 0.05)
    kk, ka = ("_", "_")
    if spec and rng.random() < 0.4:
        kk, ka = rng.choice(kw_variants(attr) + [(key_tokens(attr)[1], "i0"), (key_tokens(attr)[0], "_")])
    kind = rng.choice(["with", "with", "update", "transform", "without"])
    idx = lambda: f"i{rng.randint(-n - 1, n + 1)}"  # noqa: E731
    bi = lambda: rng.choice(["_", "_", "t", "f"])  # noqa: E731
    if fam in ("list", "klist"):
        addr = lambda: rng.choice([idx(), rng.choice(pool)] + (["sa", "sb", "s"] if fam == "klist" and ITEM[attr] == "kspec" else []))  # noqa: E731
        if kind == "with":
            index = rng.choice(["_", "_", idx()] + (["sa"] if fam == "klist" and ITEM[attr] == "kspec" else []))
            item = rng.choice(items + (["_"] if spec and kk != "_" else []))
            return ["with", item, index, int(index != "_" and rng.random() < 0.5), kk, ka, if_, inplace]
        if kind == "update":
            new = rng.choice(items + (["_"] if spec else []))
            return ["update", addr(), new, bi(), kk, ka, if_, inplace]
        if kind == "transform":
            f = rng.choice(FNS[ITEM[attr]] if malformed else [x for x in FNS[ITEM[attr]] if x != "bad"])
            fk, fa = ("_", "_")
            if spec and f != "bad" and rng.random() < 0.4:  # (a callback applied to MISSING is the pool's business)
                fk, fa = rng.choice([("up", "_"), ("_", "inc"), ("empty", "zero")])
            return ["transform", addr(), f, bi(), fk, fa, if_, inplace]
        return ["without", addr(), bi(), if_, inplace]
    if fam == "dict":
        k = rng.choice(pool)
        if kind == "with":
            return ["with", rng.choice(items + (["_"] if spec else [])), k, 0, kk, ka, if_, inplace]
        if kind == "update":
            return ["update", k, rng.choice(items + (["_"] if spec else [])), "_", kk, ka, if_, inplace]
        if kind == "transform":
            f = rng.choice(FNS[ITEM[attr]] if malformed else [x for x in FNS[ITEM[attr]] if x != "bad"])
            fk, fa = ("_", "_")
            if spec and f != "bad" and rng.random() < 0.4:  # (a callback applied to MISSING is the pool's business)
                fk, fa = rng.choice([("up", "_"), ("_", "inc"), ("empty", "zero")])
            return ["transform", k, f, "_", fk, fa, if_, inplace]
        return ["without", k, "_", if_, inplace]
    v = rng.choice(pool + (key_tokens(attr) if fam == "kset" else []))
    if kind == "with":
        return ["with", rng.choice(items + (["_"] if spec and kk not in ("_",) else [])), "_", 0, kk, ka, if_, inplace]
    if kind == "update":
        return ["update", v, rng.choice(items + (["_"] if spec else [])), "_", kk, ka, if_, inplace]
    if kind == "transform":
        f = rng.choice(FNS[ITEM[attr]] if malformed else [x for x in FNS[ITEM[attr]] if x != "bad"])
        fk, fa = ("_", "_")
        if spec and f != "bad" and rng.random() < 0.4:
            fk, fa = rng.choice([("up", "_"), ("_", "inc"), ("empty", "zero")])
        return ["transform", v, f, "_", fk, fa, if_, inplace]
    return ["without", v, "_", if_, inplace]


def _no_key_keyword_on_foreign_object(attr, op):
    """The model names the key-like keyword after the ELEMENT class's attribute (`b` of Sp, `k` of KS / KI). On an
    instance of ANOTHER spec class (an ill-typed element, rejected afterwards in any case) that name is an unmanaged
    attribute which the real code sets without a type check (ValueError later) where the model type-checks it
    (TypeError now). Both classes of error are what C03 allows; the combination is left out (docs/C06.md, not modelled)."""
    good, bad = NEWITEMS[attr]
    pos = {"with": 1, "update": 2}.get(op[0])
    if pos is not None and op[pos] in bad and isinstance(op[pos], str) and op[pos].startswith("o") and op[4] != "_":
        op = list(op)
        op[4] = "_"
    return op


def holder_for(attr, holder):
    """Reading through a spec_property getter re-prepares the stored container (`spec_property.__get__` ->
    `prepare_attr_value` -> `_prepare_items`: `c[i] = c[i]` for every position), which renumbers the key index of a
    KeyedList to list order on every read: content-neutral, but the tie compares that order (docs/C06.md, not
    modelled). KeyedList attributes use the builtin property instead."""
    if FAMILY[attr] == "klist" and holder.startswith("sprop."):
        return "prop." + holder.split(".")[1]
    return holder


def pick_holder(rng, attr):
    """a third of the cases on the four plain holders, the rest on the descriptor-backed ones"""
    return rng.choice(BASE_HOLDERS) if rng.random() < 0.34 else holder_for(attr, rng.choice(MASKED_HOLDERS))


def share_objects(attr, steps, rng):
    """Aliasing by history: equal element tokens of the case become ONE object (content and arguments alike), so that
    e.g. two in-place `with_<s>(x)` calls store the same object twice."""
    if attr not in ALIASABLE:
        return steps
    lab = lambda t: t + "@s" if isinstance(t, str) and t.startswith("o") and "@" not in t and rng.random() < 0.8 else t  # noqa: E731
    out = []
    for st in steps:
        st = list(st)
        if st[0] == "new":
            if st[1]:
                st[1] = [(x.split("=")[0] + "=" + lab(x.split("=")[1])) if "=" in x else lab(x) for x in st[1]]
        elif st[0] in ("with", "update"):
            st[1], st[2] = lab(st[1]), lab(st[2])
        else:
            st[1] = lab(st[1])
        out.append(st)
    return out


def random_sequence(attr, rng, maxlen=4, malformed=False):
    cs = contents(attr, 3)
    init = rng.choice(cs)
    holder = pick_holder(rng, attr)
    n = len(init or default_tokens(holder, attr) or [])
    steps = [["new", init]]
    for _ in range(rng.randint(1, maxlen)):
        steps.append(_no_key_keyword_on_foreign_object(attr, random_op(attr, rng, n + 2, malformed)))
    if attr in ALIASABLE and rng.random() < 0.5:
        steps = share_objects(attr, steps, rng)
    return {"attr": attr, "holder": holder, "steps": steps}


def keyed_two_step(attr, rng):
    """A same-key edit of an element followed by addressing it by key again (stale key index?)."""
    fam = FAMILY[attr]
    init = rng.choice([c for c in contents(attr, 3) if c])
    if fam == "dict":
        key = rng.choice(init).split("=")[0]
        elem = rng.choice(init).split("=")[1]
    else:
        elem = rng.choice(init)
        key = ("i" if ITEM[attr] == "ikspec" else "s") + elem.split(":")[1]
    n = len(init)
    pos = f"i{rng.randint(-n, n - 1)}"
    ik = ITEM[attr] == "ikspec"
    ekey = elem.split(":")[1]
    same_key_new = f"o{2 if ik else 1}:{ekey}:{rng.choice([0, 8, 9])}"
    rename = "i5" if ik else "sk"
    if ik and fam == "klist":
        key = pos  # an int addresses a position of a KeyedList (DESIGN 10.4); the key view is still compared
    ip = lambda: int(rng.random() < 0.5)  # noqa: E731
    if fam == "klist":
        first = rng.choice([
            ["update", key, "_", "_", "_", rng.choice(["i0", "i8"]), 1, ip()],
            ["update", key, same_key_new, "_", "_", "_", 1, ip()],
            ["update", pos, "_", "_", "_", "i8", 1, ip()],
            ["with", same_key_new, key, 0, "_", "_", 1, ip()],
            ["with", "_", key, 0, ("i" if ik else "s") + ekey, "i8", 1, ip()],
            ["transform", key, rng.choice(["inc", "zero", "_"]), "_", "_", "inc", 1, ip()],
            ["transform", pos, "inc", "_", "_", "_", 1, ip()],
        ])
        second = rng.choice([
            ["update", key, "_", "_", "_", "i3", 1, ip()],
            ["transform", key, "inc", "_", "_", "_", 1, ip()],
            ["transform", key, "_", "_", "up", "_", 1, ip()],
            ["without", key, "_", 1, ip()],
            ["with", ("i" if ik else "s") + ekey, "_", 0, "_", "_", 1, ip()],  # same key again: must raise
            ["with", same_key_new, "_", 0, "_", "_", 1, ip()],  # same key again: must raise
            ["with", same_key_new, key, 0, "_", "_", 1, ip()],
            ["update", key, "_", "_", rename, "_", 1, ip()],      # rename through the key view
        ])
    elif fam == "kset":
        first = rng.choice([
            ["update", key, "_", "_", "_", "i8", 1, ip()],
            ["update", key, same_key_new, "_", "_", "_", 1, ip()],
            ["with", same_key_new, "_", 0, "_", "_", 1, ip()],
            ["transform", key, "inc", "_", "_", "_", 1, ip()],
            ["transform", elem, "_", "_", "_", "inc", 1, ip()],
        ])
        second = rng.choice([
            ["update", key, "_", "_", "_", "i3", 1, ip()],
            ["transform", key, "inc", "_", "_", "_", 1, ip()],
            ["without", key, "_", 1, ip()],
            ["without", same_key_new, "_", 1, ip()],
            ["with", key, "_", 0, "_", "_", 1, ip()],
            ["update", key, "_", "_", rename, "_", 1, ip()],
        ])
    else:  # kmap / klist2: keyed elements in plain containers
        addr = key if fam == "dict" else pos
        first = rng.choice([
            ["update", addr, "_", "_", "_", "i8", 1, ip()],
            ["update", addr, same_key_new, "_", "_", "_", 1, ip()],
            ["transform", addr, "inc", "_", "_", "_", 1, ip()],
        ])
        second = rng.choice([
            ["update", addr, "_", "_", "_", "i3", 1, ip()],
            ["transform", addr, "_", "_", "up", "inc", 1, ip()],
            ["without", addr, "_", 1, ip()],
            ["with", "i0" if ik else "s", addr, 0, "_", "_", 1, ip()],
        ])
    third = random_op(attr, rng, n + 1)
    return {"attr": attr, "holder": pick_holder(rng, attr), "steps": [["new", init], first, second, third],
            "origin": "keyed-two-step"}


def gen_cases(tier, rng):
    if tier == "search":
        while True:
            if rng.random() < 0.2:
                yield keyed_two_step(rng.choice(["kspecs", "ksets", "kmap", "klist2", "kispecs", "kisets", "kimap", "kilist"]), rng)
                continue
            attr = rng.choice(ATTRS)
            c = random_sequence(attr, rng, 4, malformed=rng.random() < 0.3)
            c["origin"] = "search"
            yield c
        return
    # quick: every content of length <= 2 x every probe, plus a sample of length-3 contents with a third of
    # the probes; thorough: every content of length <= 4 (lists; keyed lists/sets/dicts: <= 3, their pools
    # have three keys) x every probe, nothing sampled. The int-keyed shapes repeat the str-keyed ones (they are there
    # for the falsy bare key 0): quick samples their length-2 contents.
    # Contents in which equal elements are ONE object (`alias_variants`) follow with the probes of `aliased_ops`.
    # Holders: every chunk of 40 probes runs on the next holder of a shuffled rotation (every descriptor-backed holder
    # once, a plain one after every second of them).
    full = 2 if tier == "quick" else 4
    nseq = 1500 if tier == "quick" else 40000
    for attr in ATTRS:
        rot = []
        for i, h in enumerate(rng.sample(MASKED_HOLDERS, len(MASKED_HOLDERS))):
            rot.append(h)
            if i % 2:
                rot.append(BASE_HOLDERS[(i // 2) % len(BASE_HOLDERS)])
        turn = itertools.cycle(rot)
        cs = contents(attr, full)
        sampled = []
        if tier == "quick":
            more = [c for c in contents(attr, 3) if c is not None and len(c) == 3]
            sampled = rng.sample(more, min(5, len(more)))
            if ITEM[attr] == "ikspec" or attr in ("pints", "klist2"):  # (pints repeats ints but for the item preparer, klist2 = specs + the key promotion of kspecs / kmap)
                two = [c for c in cs if c is not None and len(c) == 2]
                drop = rng.sample(two, len(two) - max(2, len(two) // 3))
                cs = [c for c in cs if c not in drop]
                sampled = sampled[:3]
        plan = []
        for init in cs + sampled:
            ops = single_ops(attr, init)
            if init in sampled:
                ops = rng.sample(ops, max(30, len(ops) // 3))
            plan.append((init, ops, "exhaustive-single"))
        for init in cs + sampled:
            variants = alias_variants(attr, init)
            if tier == "quick" and len(variants) > 2:
                variants = rng.sample(variants, 2)
            elif init and len(init) >= 4 and len(variants) > 3:
                variants = rng.sample(variants, 3)  # thorough: all groupings up to length 3, three per longer content
            for av in variants:
                plan.append((av, aliased_ops(attr, av, rng), "exhaustive-aliased"))
        for init, ops, origin in plan:
            for lo in range(0, len(ops), 40):
                steps = []
                for op in ops[lo : lo + 40]:
                    op = list(op)
                    op[-1] = int(rng.random() < 0.3)  # _inplace
                    steps.append(["new", init])
                    steps.append(op)
                yield {"attr": attr, "holder": holder_for(attr, next(turn)), "steps": steps, "origin": origin}
    for i in range(nseq // 3):
        yield keyed_two_step(["kspecs", "ksets", "kispecs", "kmap", "klist2", "kisets", "kspecs", "kimap", "kilist"][i % 9], rng)
    for i in range(nseq):
        attr = ATTRS[i % len(ATTRS)]
        c = random_sequence(attr, rng, 4, malformed=(i % 4 == 3))
        c["origin"] = "sequence-malformed" if i % 4 == 3 else "sequence"
        yield c


def shrink(case, at=None):
    steps = case["steps"]
    if at is not None and 1 <= at <= len(steps):
        # keep the probe that disagrees together with the `new` before it
        j = at - 1
        k = j
        while k > 0 and steps[k][0] != "new":
            k -= 1
        yield {**case, "steps": steps[k : j + 1]}
    for i in range(len(steps)):
        if steps[i][0] != "new":
            yield {**case, "steps": steps[:i] + steps[i + 1 :]}


def nontrivial(case, real):
    keys = []
    for (step, pre, err, post, _side) in run_real(case):
        if step[0] == "new":
            continue
        if err is not None or pre != post:
            keys.append((case["attr"], store_of(case.get("holder", "H")), pre, tuple(step[:-1])))
    return keys


def pre_missing(holder, attr):
    return default_tokens(holder, attr) is None


def tags(case, real):
    attr = case["attr"]
    holder = case.get("holder", "H")
    t = [f"attr:{attr}", f"holder:{holder}", f"origin:{case.get('origin', 'corpus')}"]
    if "." in holder:
        t += [f"store:{holder.split('.')[0]}", f"shape:{holder.split('.')[1]}"]
    for (step, pre, err, post, _side) in run_real(case):
        if step[0] == "new":
            t.append("container:" + (("missing" if pre_missing(holder, attr) else "default") if step[1] is None else f"len{len(step[1])}"))
            if step[1] and any("@" in x for x in step[1]):
                t.append("content:shared-objects")
            continue
        name = step[0]
        t.append(f"op:{name}")
        if any(isinstance(x, str) and "@" in x for x in step[1:3]):
            t.append("argument:shared-object")
        if err:
            t.append(f"err:{err}")
        if FAMILY[attr] in ("list", "klist"):
            if name == "with":
                t.append("addr:append" if step[2] == "_" else ("addr:insert" if step[3] else "addr:replace-index"))
            else:
                bi = step[3] if name != "without" else step[2]
                t.append(f"by_index:{bi}")
        if step[-1]:
            t.append("inplace")
        if not step[-2]:
            t.append("if:false")
        if pre == "missing":
            t.append(f"on-missing:{name}")
    return t


MANIFEST_ENTRY = {
    "level_text": "Lean 4 proof that the Impl model of the element helpers (CollectionAttrMutator.prepare_item/_mutate_collection, the _extractor/_inserter/add_item/transform_item/remove_item of the sequence, mapping and set mutators, the element level of mutate_value, and the generated with_/update_/transform_/without_<singular> helpers) refines the plain Python container operation for arbitrary contents and arguments: append / replace at a normalised index / clamped insert / first-of-equal-values / delete by value, index or key / dict assign and delete keeping insertion order / set add, replace, remove; every call is a single-position edit leaving all other elements and their order untouched; IndexError, KeyError or ValueError is raised exactly when the plain operation misses; a missing container is created first; a bare key (str or int, also '' and 0) is promoted to a keyed element; keywords build or update the element; KeyedList/KeyedSet attributes go through the same theorems with key addressing equal to a linear scan; the pre-fix behaviours (falsy set element, without_ on a missing container) are kept as legacy counter-models with decided witnesses. Below the content abstraction: for list and dict attributes whose elements are objects with identity (any sharing of one object between positions / keys, deep copy with memo, _inplace or not) the helper on references refines the helper on contents and mutate_value never edits an object that existed before the call (counter-model: editing the items of the freshly copied container in place changes every position that shares the object); and for every way an instance keeps the attribute (own __dict__, property/alias with a backing slot, computed or cached spec_property) the helper lifted with getattr and stored with setattr is the helper on what the attribute shows (counter-model: lifting from __dict__ unless the declaring class masks the attribute). The model is tied to /repo on every run by executing every helper x addressing mode on every small container content (and seeded sequences of consecutive edits) on the real generated helpers and on the model, comparing exception class and resulting container (for KeyedList/KeyedSet also the key view) after each call, and by an independent plain list/dict/set oracle written from the property text.",
    "level_note": "Trusted: Lean kernel; axioms propext/Classical.choice/Quot.sound only; the hand-written model (Model/C06.lean, reusing Model/C13.lean for KeyedList) and the correspondence harness (16 attribute types x 34 holder class variants, contents with shared element objects); transforms and item preparers pure; element equality structural. The theorems are about the model; the per-run correspondence is what ties them to the code. Ill-typed elements/keys (C03) and copy-on-write (C01/C02) are compared by the tie but not judged by the C06 oracle.",
    "technique": "Lean 4 refinement proof (Impl helpers -> plain container operations) over a hand-written model; differential correspondence against the real generated helpers; plain-container oracle",
}
