"""
C07 -- frozen instances are immutable yet still evolvable by copy.

Correspondence: class tables whose main class is declared frozen=True (the
nested class sometimes too; plain and spec subclasses inherit / repeat it);
histories of constructor calls, every copy-on-write helper (also on results of
earlier helpers: second-generation evolution), deepcopy, and -- as probes --
assignment, deletion and every helper with _inplace=True on frozen instances;
executed on the real `spec_classes` and on the Lean model `SpecVerif.Heap`
through `Drivers/Heap.lean`, comparing outcome class and canonical world
(content + aliasing + the presence of the initialisation marker in an instance
dict) after every line.
Oracle (independent of the model), written from the property text:
 (a) a reference to every frozen instance is kept and deep-snapshotted after
     every operation: it never changes;
 (b) assignment / deletion / _inplace=True helpers on a frozen instance raise
     (FrozenInstanceError whenever the same call succeeds on the non-frozen
     twin) and change nothing;
 (c) copy-on-write helpers return a distinct instance and, line by line,
     exactly what the same history yields on the *twin* table (every frozen
     flag cleared) with the in-place probes left out;
 (d) no instance dict keeps the `__spec_class_initializing__` marker.
`extra`: the same twin differential on hand-written frozen classes with
`invalidated_by` dependants (attribute and cached spec_property), which are
outside the modelled grammar.
"""
import copy as _copy

import heap_common as H
import heap_shapes as HS
import mutate_value_tie as MT

PID = "C07"
LEAN_TARGETS = ["SpecVerif.Props.C07Twin", "SpecVerif.Props.MutateValue"]  # (C07Twin imports SpecVerif.Props.C07)
AUDIT = [("SpecVerif.Props.C07", "SpecVerif.Props.C07Twin"), ("SpecVerif.Props.MutateValue", "SpecVerif.Props.MutateValue")]
DRIVER = "Drivers/Heap.lean"
REQUIRED_THEOREMS = [
    "SpecVerif.Props.C07.frozen_never_changes",
    "SpecVerif.Props.C07.frozen_inplace_rejected",
    "SpecVerif.Props.C07.frozen_inplace_no_effect",
    "SpecVerif.Props.C07.frozen_cow_distinct",
    "SpecVerif.Props.C07.frozen_cow_equals_twin",
    # which object `mutate_value` edits, for every combination of arguments and hook behaviours (Model/MutateValue.lean)
    "SpecVerif.Props.MutateValue.cow_never_edits_receiver_or_argument",
    "SpecVerif.Props.MutateValue.cow_never_edits_prepared",
    "SpecVerif.Props.MutateValue.cow_edits_only_fresh_Full",
    "SpecVerif.Props.MutateValue.cow_never_edits_transformed",
    "SpecVerif.Props.MutateValue.cow_edits_only_fresh_partial",
    "SpecVerif.Props.MutateValue.frozen_inplace_edits_nothing",
]
RULE = (
    "case = class table whose main class is frozen=True (nested class frozen in 30%, plain subclass inheriting it, spec "
    "subclass repeating it; otherwise as in C01) x history of 5-13 operations generated while executing them: "
    "constructor, every copy-on-write helper on originals and on results of earlier helpers, deepcopy, and in-place "
    "probes (assignment, del, _inplace=True helpers, unmanaged attributes, default-less attributes) on frozen "
    "instances; 12% ill-typed positions, 12% callback fault plans; the oracle re-runs every history on the twin table "
    "(frozen cleared); non-trivial = the line changed the world or raised; distinct = distinct (table, pre-world, "
    "line) triples. extra = 6 hand-written frozen classes with invalidated_by dependants x 9 helper calls vs twin; "
    "extra (2) = frozen class families outside the heap grammar vs their twins (harness/heap_shapes.py; same source "
    "template, `frozen=True` the only difference): 33 value kinds (keyed containers, tuples / named tuples / frozensets "
    "holding mutables, plain objects, bytearrays, containers of containers, nested plain / frozen spec items, Any kinds) "
    "x storage (plain, do_not_copy, invalidated attribute, Alias override / passthrough / fallback, overridable and "
    "cached spec_property, property with setter) x class shape (eager, lazy, spec subclass repeating frozen, plain "
    "subclass inheriting it) x invalidation (none, by name, wildcard property, wildcard attribute, wildcard only) x "
    "preparer hooks (`_prepare_<attr>` / `_prepare_<item>` of the class and of the outer class that hand out registered "
    "PRE-EXISTING frozen instances, or raise) x state (size, how entries were materialised, caches filled or empty, "
    "generation 0-3, aliasing, `vals` without a value, an uncopyable member, held by a frozen or by a never-frozen outer "
    "instance) x every route: copy-on-write (valid and failing arguments; helpers handed a registry key with and without "
    "keyword edits, transforms returning a registered instance), deepcopy, and in-place probes (assignment, del, every "
    "_inplace=True helper); every frozen instance a hook handed out is tracked like the receiver; quick: every 16th "
    "scenario of the systematic part (offset by seed) + 180 random, seeded random order, second half after a prelude of "
    "earlier (also failed) calls; thorough: all + 5000 random.  The second half of the heap-grammar histories runs after "
    "the same prelude.  extra (3) = mutate_value tie (harness/mutate_value_tie.py): all 9600 combinations of the arguments "
    "of `mutate_value` with abstract hooks (ident / fresh / pre-existing / raising) and a frozen or plain value class "
    "compared with SpecVerif.MutateValue through Drivers/MutateValue.lean (which object is edited, thawed)."
)
ASSUMPTIONS = [
    "in-place probes are generated only on frozen receivers and objects stored by reference are not mutated behind a "
    "frozen instance's back (plain Python mutation of a nested list is outside the API the property speaks about)",
    "an in-place call whose arguments are themselves invalid may raise that error instead of FrozenInstanceError "
    "(collection preparation precedes the frozen guard: `f.ns = [1, 'a']` raises ValueError); it changes nothing",
    "user callbacks are pure; bool values are not generated",
]
OPEN_STATEMENTS = [
    "thaw_window_closed_Full (Props/C07.lean): no stored instance keeps the initialisation marker after a successful "
    "operation -- proved for deepcopy (thaw_window_closed_partial); false on heaps with dangling references (witness "
    "dangling_ref_copies_half_initialised), hence stated for closed heaps; the marker is part of the canonical world compared "
    "on every run and the oracle checks it on every instance",
    "cow_never_frozen_error_resetAttr_Full: reset_<a>() on a frozen receiver never fails with FrozenInstanceError "
    "(follows from frozen_cow_equals_twin plus 'the unfrozen table never raises FrozenInstanceError'; not assembled)",
]
EXHAUSTIVE = {"quick": False, "thorough": False}

PROFILE = {
    "p_frozen": 1.0,
    "p_nested_frozen": 0.3,
    "p_frozen_by_subclass": 0.2,
    "p_class_dnc": 0.0,
    "p_attr_dnc": 0.12,
    "p_inplace": 0.3,
    "p_fault": 0.12,
    "p_bad": 0.12,
    "p_raw": 0.0,
    "n_ops": (5, 13),
    "w": {"nested_set": 0, "alias": 0, "undeclared": 1.5, "set": 2, "del": 2, "copy": 2, "reset": 2, "resetattr": 3, "nested_probe": 2},
}


def setup():
    pass


def _frozen_classes(table):
    return {c for c, cd in enumerate(table["classes"]) if cd.get("frozen")}


def _filter_case(case):
    """Keep in-place lines only when their receiver is an instance of a frozen
    class (they are probes that must fail); drop the others."""
    frozen = _frozen_classes(case["table"])
    H.POOL.begin(())
    world = H.World(case["table"])
    out = []
    pending = None
    for line in case["ops"]:
        toks = line.split()
        if toks[0] == "faults":
            pending = line
            continue
        keep = True
        if toks[0] == "op" and H.op_inplace(toks[2:]):
            try:
                recv = world.resolve(H.root_token(toks[3]))
                keep = world.cls_index.get(type(recv)) in frozen and toks[3] == H.root_token(toks[3])
            except (LookupError, ValueError, IndexError):
                keep = False
        elif toks[0] == "raw":
            keep = False
        if keep:
            if pending:
                out.append(pending)
                H.run_line(world, pending)
            out.append(line)
            H.run_line(world, line)
        pending = None
    return {"table": case["table"], "ops": out, "sub_seed": case.get("sub_seed")}


def gen_cases(tier, rng):
    if tier == "search":
        k = 0
        while True:
            k += 1
            # every 5th case of the search stream is a scenario of the class families outside the heap grammar
            yield HS.random_case(PID, rng) if k % 5 == 0 else _filter_case(H.gen_case(rng, PROFILE))
    n = 260 if tier == "quick" else 5000
    for i in range(n):
        case = _filter_case(H.gen_case(rng, PROFILE))
        if i >= n // 2:
            # the second half of the histories runs after the prelude of earlier -- also FAILED -- calls in this process
            # (heap_shapes.run_prelude): the model has no process-level state, the code must not have any either
            case["prelude"] = True
        yield case


def _special(case):
    """Cases of the `extra` sections (replayable through `oracle`), not histories of the heap grammar."""
    return HS.is_case(case) or "mutate_value_tie" in case


def model_lines(case):
    return [] if _special(case) else H.model_lines(case)


def real_lines(case):
    if _special(case):
        return []
    HS.ensure_prelude(case)
    return H.real_lines(case)


def shrink(case, at=None):
    return [] if _special(case) else H.shrink_case(case, at)


def nontrivial(case, real):
    if "mutate_value_tie" in case:
        return [("mutate_value_tie", H.dumps(case["mutate_value_tie"]))]
    return [("shapes", H.dumps(case["sc"]))] if HS.is_case(case) else H.nontrivial_keys(case, real)


def tags(case, real):
    if "mutate_value_tie" in case:
        return ["mutate_value_tie"]
    return ["shapes:" + HS.route_kind(case["sc"]["route"])] if HS.is_case(case) else H.op_tags(case, real)


# ---------------------------------------------------------------------------
# oracle
# ---------------------------------------------------------------------------


def twin_table(table):
    t = _copy.deepcopy(table)
    for cd in t["classes"]:
        cd["frozen"] = 0
    return t


def _run_twin(case, skip):
    """Run the history on the twin table, leaving out the op lines in `skip`;
    returns {line index: output}."""
    H.POOL.begin(())
    world = H.World(twin_table(case["table"]))
    out = {}
    for i, line in enumerate(case["ops"]):
        if i in skip:
            continue
        out[i] = H.run_line(world, line)
    return out


def oracle(case):
    if HS.is_case(case):  # a scenario of the class families outside the heap grammar (harness/heap_shapes.py)
        return HS.judge_case(case)
    if "mutate_value_tie" in case:  # one point of the `mutate_value` tie (harness/mutate_value_tie.py)
        return MT.oracle(case["mutate_value_tie"])
    HS.ensure_prelude(case)
    violations = []
    frozen = _frozen_classes(case["table"])
    # ---- frozen run with hooks
    tracked = {}  # id -> (object, snapshot at creation)
    probes = {}  # line index -> exception name of the in-place probe
    outputs = {}
    state = {"i": -1}
    line_of_op = [i for i, l in enumerate(case["ops"]) if l.startswith("op ")]
    counter = {"k": -1}

    def track(world):
        for v in list(world.vars.values()):
            for o in H.reachable_ids(v).values():
                if id(o) not in tracked and world.cls_index.get(type(o)) in frozen:
                    tracked[id(o)] = (o, H.deep_snapshot(o))

    def check_tracked(what):
        for i, (o, snap) in tracked.items():
            if H.deep_snapshot(o) != snap:
                violations.append(f"frozen instance of {type(o).__name__} changed after `{what}`")
                tracked[i] = (o, H.deep_snapshot(o))
            if "__spec_class_initializing__" in o.__dict__:
                violations.append(f"initialisation marker left in a frozen instance after `{what}`")

    def on_op(world, dst, toks, run):
        idx = world.line_index  # (unresolvable `op` lines never reach this hook: no counting)
        track(world)
        ip = H.op_inplace(toks)
        recv = None
        if toks[0] != "new":
            try:
                recv = world.resolve(toks[1])
            except (LookupError, ValueError):
                pass
        res, exc = run()
        is_frozen_recv = recv is not None and world.cls_index.get(type(recv)) in frozen
        if ip and is_frozen_recv:
            probes[idx] = H.exc_name(exc) if exc is not None else None
            if exc is None and res is recv:
                # allowed only when nothing was to be done (e.g. update() without keywords)
                pass
            elif exc is None:
                violations.append(f"in-place `{' '.join(toks)}` on a frozen instance did not raise")
        if (
            exc is None
            and is_frozen_recv
            and ip is False
            and toks[0] in H.COW_OPS
            and res is recv
            and not (toks[0] in ("update", "transform") and len(toks) == 3)
        ):
            violations.append(f"copy-on-write `{' '.join(toks)}` returned the frozen receiver itself")
        if exc is None and res is not None and hasattr(res, "__dict__") and "__spec_class_initializing__" in res.__dict__:
            violations.append(f"initialisation marker left in the result of `{' '.join(toks)}`")
        check_tracked(" ".join(toks))

    world = H.replay(case, on_op=on_op)
    track(world)
    check_tracked("end")
    # ---- twin differential
    real = H.real_lines(case)[H.n_table_lines(case["table"]) :]
    # probes that raised are left out of the twin run (there they would succeed
    # and change state); probes that did nothing (e.g. update() without
    # keywords returns the receiver) run on both sides
    skip = {i for i, name in probes.items() if name is not None}
    # (b) the error class of a probe: FrozenInstanceError when the call is valid on the twin
    for idx, name in probes.items():
        if name is None or name == "FrozenInstanceError":
            continue
        # run the probe alone on the twin at the same point
        H.POOL.begin(())
        tw = H.World(twin_table(case["table"]))
        for i, line in enumerate(case["ops"][:idx]):
            if i not in skip:
                H.run_line(tw, line)
        if idx > 0 and case["ops"][idx - 1].startswith("faults ") and (idx - 1) in skip:
            H.run_line(tw, case["ops"][idx - 1])
        out = H.run_line(tw, case["ops"][idx])
        if out.startswith("ok"):
            violations.append(
                f"in-place `{case['ops'][idx]}` on a frozen instance raised {name}, not FrozenInstanceError, although it is valid on the twin"
            )
    # a fault plan line directly before a probe belongs to the probe
    for idx in list(skip):
        if idx > 0 and case["ops"][idx - 1].startswith("faults "):
            skip.add(idx - 1)
    twin = _run_twin(case, skip)
    for i, line in enumerate(case["ops"]):
        if i in skip:
            continue
        if twin.get(i) != real[i]:
            violations.append(f"`{line}` behaves differently on the frozen class and on its non-frozen twin")
            break
    return violations


# ---------------------------------------------------------------------------
# extra: frozen classes with invalidated_by dependants (outside the modelled grammar)
# ---------------------------------------------------------------------------

_EXTRA_SRC = '''
@spec_class(frozen={FROZEN})
class Sub:
    v: int = 0
    w: List[int] = Attr(default_factory=list)

@spec_class(frozen={FROZEN})
class K:
    a: int = 1
    b: int = Attr(default=7, invalidated_by=["a"])
    ns: List[int] = Attr(default_factory=lambda: [1, 2])
    total: int = Attr(default=0, invalidated_by=["ns"])
    sub: Sub = Attr(default_factory=Sub)

    @spec_property(cache=True, invalidated_by=["a"])
    def double(self):
        return 2 * self.a

    @spec_property(cache=True, invalidated_by=["double"])
    def quad(self):
        return 2 * self.double

class P(K):
    b = 9
'''


def _extra_classes(frozen):
    from typing import List

    from spec_classes import Attr, spec_class, spec_property

    ns = {"spec_class": spec_class, "Attr": Attr, "spec_property": spec_property, "List": List}
    exec(compile(_EXTRA_SRC.replace("{FROZEN}", str(frozen)), "<heapgen>", "exec", dont_inherit=True), ns)
    return ns


def _extra_calls():
    return [
        ("with_a", lambda o: o.with_a(5)),
        ("update", lambda o: o.update(a=6, total=3)),
        ("transform", lambda o: o.transform(a=lambda v: v + 1)),
        ("reset_a", lambda o: o.reset_a()),
        ("reset", lambda o: o.reset()),
        ("with_n", lambda o: o.with_n(9)),
        ("transform_ns", lambda o: o.transform_ns(lambda v: v + [4])),
        ("update_sub", lambda o: o.update_sub(v=3)),
        ("chain", lambda o: o.with_a(2).with_b(11).with_a(3).transform_n(1, lambda v: v * 5, _by_index=True)),
    ]


def extra(tier, rng):
    return HS.merge_extra(_extra_handwritten(tier, rng), HS.extra_section(PID, tier, rng), _extra_mutate_value_tie(tier, rng))


def _extra_mutate_value_tie(tier, rng):
    """Real `mutate_value` vs `SpecVerif.MutateValue.mutateValue` through Drivers/MutateValue.lean (harness/mutate_value_tie.py):
    which object is edited, for every combination of arguments and hook behaviours (exhaustive)."""
    import common

    r = MT.run(tier, rng, common.run_driver)
    return {
        "evaluations": r["lines"],
        "nontrivial": r["keys"],
        "violations": r["violations"][:20],
        "disagreements": r["disagreements"][:20],
        "info": {
            "mutate_value_tie_points": r["lines"],
            "mutate_value_tie_disagreeing_points": len(r["disagreements"]),
            "mutate_value_tie_histogram": dict(sorted(r["tags"].items())),
        },
    }


def _extra_handwritten(tier, rng):
    import copy

    evaluations, violations, keys = 0, [], []
    fz, tw = _extra_classes(True), _extra_classes(False)
    for cname in ("K", "P"):
        for warm in (False, True):
            for label, call in _extra_calls():
                evaluations += 1
                case = {"extra": "invalidated_by", "class": cname, "warm_cache": warm, "call": label}
                outs = []
                problem = None
                for ns in (fz, tw):
                    o = ns[cname](a=4, total=10)
                    if warm:
                        o.quad  # fill the caches
                    before = H.deep_snapshot(o)
                    try:
                        r = call(o)
                        outs.append(("ok", H.content(r)) if True else None)
                        if ns is fz:
                            if r is o:
                                problem = "returned the frozen receiver itself"
                            elif "__spec_class_initializing__" in r.__dict__:
                                problem = "marker left in the result"
                            else:
                                try:
                                    r.a = 1
                                    problem = "result of a helper on a frozen instance is not frozen"
                                except Exception as e:  # noqa: BLE001
                                    if H.exc_name(e) != "FrozenInstanceError":
                                        problem = f"assignment on the result raised {H.exc_name(e)}"
                    except Exception as e:  # noqa: BLE001
                        outs.append(("err", H.exc_name(e)))
                    if ns is fz and H.deep_snapshot(o) != before:
                        problem = "the frozen receiver changed"
                if problem is None and outs[0] != outs[1]:
                    problem = f"frozen {outs[0]!r} vs twin {outs[1]!r}"
                if problem:
                    violations.append({"case": case, "violation": [f"{cname}.{label} (caches {'filled' if warm else 'empty'}): {problem}"]})
                keys.append((cname, warm, label))
    # ---- copies derived while the receiver's own initialisation window is open (fixed finding d5f18b0):
    # a helper called from __post_init__ of a frozen class must hand out a finished, frozen copy
    n_inv = evaluations
    from typing import List

    from spec_classes import spec_class

    for label, derive in (
        ("with_x", lambda o: o.with_x(5)),
        ("update", lambda o: o.update(x=5)),
        ("transform_x", lambda o: o.transform_x(lambda v: v + 1)),
        ("reset_x", lambda o: o.reset_x()),
        ("with_n", lambda o: o.with_n(3)),
        ("deepcopy", lambda o: copy.deepcopy(o)),
        ("with_x.with_x", lambda o: o.with_x(5).with_x(6)),
    ):
        leaked = []

        @spec_class(frozen=True, bootstrap=True)
        class FPI:
            x: int = 1
            ns: List[int] = []

            def __post_init__(self, derive=derive, leaked=leaked):
                leaked.append(derive(self))

        evaluations += 1
        keys.append(("post_init", label))
        case = {"extra": "post_init", "call": label}
        try:
            inst = FPI()
        except Exception as e:  # noqa: BLE001
            violations.append({"case": case, "violation": [f"{label} inside __post_init__ of a frozen class raised {H.exc_name(e)}"]})
            continue
        for what, o in (("the copy derived inside __post_init__", leaked[0]), ("the constructed instance", inst)):
            problem = None
            if "__spec_class_initializing__" in o.__dict__:
                problem = "still carries the initialisation marker"
            else:
                for probe_label, probe in (("assignment", lambda o=o: setattr(o, "x", 9)), ("del", lambda o=o: delattr(o, "x")), ("in-place helper", lambda o=o: o.with_n(7, _inplace=True))):
                    before = H.deep_snapshot(o)
                    try:
                        probe()
                        problem = f"{probe_label} succeeded on a frozen instance"
                    except Exception as e:  # noqa: BLE001
                        if H.exc_name(e) != "FrozenInstanceError":
                            problem = f"{probe_label} raised {H.exc_name(e)}"
                    if problem is None and H.deep_snapshot(o) != before:
                        problem = f"{probe_label} raised but changed the frozen instance"
                    if problem:
                        break
            if problem:
                violations.append({"case": case, "violation": [f"{label} in __post_init__: {what} {problem}"]})
    return {
        "evaluations": evaluations,
        "nontrivial": keys,
        "violations": violations,
        "disagreements": [],
        "info": {"invalidated_by_twin_calls": n_inv, "copies_derived_inside_post_init": evaluations - n_inv},
    }


KNOWN_MATCHERS = {}

MANIFEST_ENTRY = {
    "level_text": "Lean 4 proof, over the heap model with object identities and an explicit thaw window (the __spec_class_initializing__ marker as a flag of the instance node), that for an instance of a frozen class assignment, deletion and every helper called with _inplace=True raise (FrozenInstanceError at the guard) before any effect on a pre-existing object, that no operation whatsoever changes a frozen instance or any other pre-existing object, and that copy-on-write helpers and deepcopy return new objects; that every operation not called in place (all helpers with and without keywords, constructor, deepcopy; every callback fault plan) yields the same result and the same final heap on the frozen class table and on its non-frozen twin (two-run simulation with the thaw windows as the only difference); tied to /repo by executing generated histories on frozen class tables on the real spec_classes and on the model, comparing outcome class, contents, aliasing and marker after every step, and by re-running every history on the twin classes. Further Lean model SpecVerif.MutateValue of the mutate_safe discipline of mutate_value with abstract user hooks that may return PRE-EXISTING objects (a preparer looking a preset up, a transform returning one): proved exhaustively over all argument combinations that without inplace neither the receiver's value nor the caller's argument nor the object a preparer handed out is ever edited (thawed), that in place on a frozen value nothing is edited, and (at full strength since fix 5dd14f2; a legacy counter-model of the earlier code is kept for the record) that every edited object -- the one a transform hands back included -- was built or copied by the call; tied to /repo per run over all 9600 combinations through Drivers/MutateValue.lean.",
    "level_note": "Trusted: Lean kernel; axioms propext/Classical.choice/Quot.sound only; the hand-written heap model and the correspondence harness. Reading: an in-place call with invalid arguments may raise that error before the frozen guard (it still changes nothing). invalidated_by dependants (by name and by the wildcard), Alias / spec_property / property backed attributes, keyed containers and tuple-typed attributes are outside the modelled grammar and are covered by the frozen-vs-twin differential over generated class families of `extra` only (harness/heap_shapes.py).",
    "technique": "Lean 4 guard-before-write and frame theorems over a hand-written heap model with a thaw window; differential correspondence + frozen-vs-twin differential on the real classes",
}
