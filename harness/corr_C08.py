"""
C08 -- instances share no mutable state with defaults, constructor arguments or peers.

Correspondence: class tables exercising every way of declaring a default
(literal, mutable literal, Attr(default=), Attr(default_factory=),
dataclasses.field(default=/default_factory=), list-of-instances defaults,
override in a spec subclass, override in a plain subclass -- also with
containers of mutable items) and histories mixing construction (with argument
objects), in-place mutation of nested values (in-place helpers, assignments
through nested instances, plain container mutations at depth 1 and 2),
reset_<attr>, reset, del and construction of further instances; executed on
the real `spec_classes` and on the Lean model `SpecVerif.Heap` through
`Drivers/Heap.lean`; compared after every line: outcome class and canonical
world, in which the class-level default objects (class `__dict__` entries and
`Attr.default` objects), the constructor arguments and all instances are roots,
so any sharing between them shows up as a repeated identity.
Oracle (independent of the model), from the property text:
 (a) class-level defaults are snapshotted around every line: never change;
 (b) objects passed to a constructor never change unless the caller mutates
     them directly;
 (c) around every in-place line every other instance is unchanged (objects
     lent by reference by the caller, and do_not_copy attributes, masked);
 (d) after reset_<a> / del / reset the attribute equals what a freshly
     constructed instance of the same class holds (or is missing when there is
     no default), and shares no mutable object with the class-level defaults,
     constructor arguments, other instances or that fresh instance.
"""
import heap_common as H
import heap_shapes as HS

PID = "C08"
LEAN_TARGETS = ["SpecVerif.Props.C08"]
AUDIT = [("SpecVerif.Props.C08", "SpecVerif.Props.C08")]
DRIVER = "Drivers/Heap.lean"
REQUIRED_THEOREMS = [
    "SpecVerif.Props.C08.init_fresh",
    "SpecVerif.Props.C08.init_disjoint",
    "SpecVerif.Props.C08.peers_isolated",
    "SpecVerif.Props.C08.reset_is_fresh",
    "SpecVerif.Props.C08.reset_is_fresh_inplace",
    "SpecVerif.Props.C08.reset_eq_fresh_partial",
]
RULE = (
    "case = class table (main class with 3-7 init-enabled attributes, each default declared in one of six ways or "
    "absent, list-of-instance defaults, preparers / item preparers, 40% plain subclass overriding defaults incl. "
    "containers of instances, 40% spec subclass adding an attribute and overriding defaults, 8% do_not_copy "
    "attributes) x history of 5-14 operations generated while executing them: constructor calls with argument objects "
    "(also for inherited attributes), in-place element helpers, assignments through nested instances, plain container "
    "mutations at depth 1 and 2, reset_<attr> (both forms), reset, del, further constructor calls; non-trivial = the "
    "line changed the world or raised; distinct = distinct (table, pre-world, line) triples. extra = overflow attribute "
    "and init=False constructions; extra (2) = class families outside the heap grammar (harness/heap_shapes.py; real "
    "code + oracle): 33 value kinds (tuple-typed attributes holding scalars / lists / dicts / tuples / spec instances, "
    "named tuples, frozensets of plain objects, plain objects, bytearrays, KeyedList/KeyedSet of scalars and of keyed "
    "spec items, containers of containers and of tuples, nested plain / frozen spec items, Any kinds) x four ways of "
    "declaring the default + spec-subclass and plain-subclass overrides x storage (plain, do_not_copy, Alias local "
    "override / passthrough / fallback, overridable and cached spec_property, property with setter, unmanaged entries) x "
    "preparer hooks handing out registered pre-existing objects (shared by the user's own doing) x state (size, how "
    "entries were materialised, generation 0-3, aliasing inside the instance, `vals` without a value, an uncopyable "
    "member) x route (every "
    "copy-on-write helper, every in-place helper / assignment / del, deepcopy, reset_/reset); roots = constructor "
    "arguments, class-level defaults, the instance, a peer built from the same argument objects, the derived instance, "
    "a second derivation, a later instance; quick: every 10th scenario of the systematic part (offset by seed) + 220 "
    "random in seeded random order, the second half after a fixed prelude of earlier calls (`()`, `(1, 2)`, empty "
    "containers, None ... pushed through the library first, then one FAILED call of every kind: module-level caches "
    "and whatever a failure leaves behind); thorough: all + 5000 random."
)
ASSUMPTIONS = [
    "restricted to init-enabled attributes (the property's quantifier); do_not_copy attributes share the constructor "
    "argument by design and are excluded from (b)-(d)",
    "an object the caller stores by reference into two places itself (assignment / with_<attr>(obj)) is the caller's "
    "sharing, not the library's: such lent objects are masked in (c)",
    "default factories are pure and return a new object on every call; user callbacks are pure",
    "bool values are not generated (Python identifies True with 1)",
]
OPEN_STATEMENTS = [
    "reset_eq_fresh_Full (Props/C08.lean): the value installed by del/reset has the same CONTENT as the attribute of a "
    "newly constructed instance -- proved: both are produced by the same model computation (reset_eq_fresh_partial: "
    "default lookup along the class chain, then the preparer, then the raw write) and are freshly allocated "
    "(reset_is_fresh*); missing: determinism of that computation up to renaming of fresh identities. Checked on every "
    "run by the oracle (reset value vs a fresh instance) and by the correspondence",
]
EXHAUSTIVE = {"quick": False, "thorough": False}

PROFILE = {
    "p_frozen": 0.05,
    "p_class_dnc": 0.0,
    "p_attr_dnc": 0.08,
    "p_prep": 0.25,
    "p_iprep": 0.25,
    "p_inplace": 0.6,
    "p_fault": 0.04,
    "p_bad": 0.05,
    "p_raw": 0.35,
    "p_plain_sub": 0.5,
    "p_spec_sub": 0.5,
    "n_ops": (5, 14),
    "w": {
        "new": 6,
        "nested_set": 5,
        "resetattr": 5,
        "reset": 3,
        "del": 4,
        "eadd": 4,
        "set": 3,
        "with": 1,
        "updattr": 1,
        "trattr": 1,
        "update": 1,
        "transform": 1,
        "copy": 0.5,
        "alias": 0.5,
    },
}


def setup():
    pass


def gen_cases(tier, rng):
    if tier == "search":
        k = 0
        while True:
            k += 1
            # every 5th case of the search stream is a scenario of the class families outside the heap grammar
            yield HS.random_case(PID, rng) if k % 5 == 0 else H.gen_case(rng, PROFILE)
    n = 260 if tier == "quick" else 5500
    for _ in range(n):
        yield H.gen_case(rng, PROFILE)


def _special(case):
    return isinstance(case, dict) and ("extra" in case or HS.is_case(case))


def model_lines(case):
    return [] if _special(case) else H.model_lines(case)


def real_lines(case):
    return [] if _special(case) else H.real_lines(case)


def shrink(case, at=None):
    return [] if _special(case) else H.shrink_case(case, at)


def nontrivial(case, real):
    if HS.is_case(case):
        return [("shapes", H.dumps(case["sc"]))]
    return [] if _special(case) else H.nontrivial_keys(case, real)


def tags(case, real):
    if HS.is_case(case):
        return ["shapes:" + HS.route_kind(case["sc"]["route"])]
    return [] if _special(case) else H.op_tags(case, real)


# ---------------------------------------------------------------------------
# oracle
# ---------------------------------------------------------------------------


def _default_roots(world):
    return [(n, v) for n, v in world.roots() if n.startswith("cd") or n.startswith("sd")]


def oracle(case):
    if HS.is_case(case):  # a scenario of the class families outside the heap grammar (harness/heap_shapes.py)
        return HS.judge_case(case)
    if isinstance(case, dict) and "extra" in case:
        return _extra_oracle(case)
    violations = []
    lent = {}  # objects the caller stored by reference somewhere (id -> obj)
    ctor_args = {}  # id -> (object, snapshot when handed to the constructor)

    def defaults_snapshot(world):
        return {n: H.deep_snapshot(v) for n, v in _default_roots(world)}

    def masked_ids(world):
        m = dict(lent)
        for v in world.vars.values():
            H.dnc_held_ids(v, m)
        return m

    def peers_snapshot(world, skip_obj):
        m = masked_ids(world)
        return {
            n: H.masked_snapshot(v, m)
            for n, v in world.vars.items()
            if v is not skip_obj and id(v) not in m
        }

    def rebase_ctor_args():
        """(Re)take the snapshots of the constructor arguments, with the objects the
        caller has lent by reference elsewhere masked."""
        for i, (o, _snap) in list(ctor_args.items()):
            ctor_args[i] = (o, H.masked_snapshot(o, lent))

    def check_ctor_args(world, what, direct_root):
        for i, (o, snap) in list(ctor_args.items()):
            if direct_root is not None and (o is direct_root or i in H.reachable_ids(direct_root)) and (
                id(direct_root) in ctor_args
            ):
                ctor_args[i] = (o, H.masked_snapshot(o, lent))  # mutated directly by the caller
                continue
            if i in lent:
                ctor_args[i] = (o, H.masked_snapshot(o, lent))
                continue
            if H.masked_snapshot(o, lent) != snap:
                violations.append(f"`{what}` changed an object that had been passed to a constructor")
                ctor_args[i] = (o, H.masked_snapshot(o, lent))

    def check_reset(world, target, attr_nums, what):
        """(d): reset value == fresh instance's value, and fresh."""
        cls = type(target)
        H.POOL.begin(())
        try:
            fresh = cls()
        except Exception as e:  # noqa: BLE001
            H.POOL.begin(())
            return
        H.POOL.begin(())
        foreign = {}
        for _n, v in _default_roots(world):
            H.reachable_ids(v, foreign)
        for o, _s in ctor_args.values():
            H.reachable_ids(o, foreign)
        for v in world.vars.values():
            if v is not target:
                H.reachable_ids(v, foreign)
        H.reachable_ids(fresh, foreign)
        meta = cls.__spec_class__
        for a in attr_nums:
            name = H.attr_name(a)
            spec = meta.attrs.get(name)
            if spec is None or H.declared_attr_dnc(cls, name):
                continue
            if name in fresh.__dict__:
                if name not in target.__dict__:
                    violations.append(f"`{what}`: {name} is missing although a new instance has a default")
                    continue
                if H.content(target.__dict__[name]) != H.content(fresh.__dict__[name]):
                    violations.append(
                        f"`{what}`: {name} is {H.content(target.__dict__[name])!r}, a new instance holds {H.content(fresh.__dict__[name])!r}"
                    )
                shared = [i for i in H.reachable_ids(target.__dict__[name]) if i in foreign]
                if shared:
                    violations.append(f"`{what}`: the reset value of {name} shares a mutable object with a default / argument / peer")
            else:
                if name in target.__dict__:
                    violations.append(f"`{what}`: {name} has no default but is still present after the reset")

    def on_op(world, dst, toks, run):
        name = toks[0]
        ip = H.op_inplace(toks)
        what = " ".join(toks)
        before_defaults = defaults_snapshot(world)
        direct_root = None
        recv = None
        if name != "new":
            try:
                recv = world.resolve(toks[1])
                direct_root = world.resolve(H.root_token(toks[1]))
            except (LookupError, ValueError):
                pass
        arg_objs = []
        for t in H.op_arg_toks(toks):
            try:
                arg_objs.append(world.resolve(t))
            except (LookupError, ValueError):
                pass
        if name == "new":
            # which keyword feeds a do_not_copy attribute? those are lent by design
            cls = world.classes[int(toks[1])]
            meta = cls.__spec_class__
            for t in toks[2:]:
                a, _, v = t[1:].partition("=")
                if not v.startswith("@"):
                    continue
                try:
                    o = world.resolve(v)
                except (LookupError, ValueError):
                    continue
                spec = meta.attrs.get(H.attr_name(int(a))) if a.isdigit() else None
                if spec is not None and H.declared_attr_dnc(cls, H.attr_name(int(a))):
                    lent.update(H.reachable_ids(o))
                else:
                    for i, x in H.reachable_ids(o).items():
                        ctor_args.setdefault(i, (x, None))
        else:
            for o in arg_objs:
                lent.update(H.reachable_ids(o))
        rebase_ctor_args()
        before_peers = None
        if ip and direct_root is not None:
            before_peers = peers_snapshot(world, direct_root)
        res, exc = run()
        # (a)
        after_defaults = defaults_snapshot(world)
        for n, snap in before_defaults.items():
            if after_defaults.get(n) != snap:
                violations.append(f"`{what}` changed the class-level default {n}")
        # (b)
        check_ctor_args(world, what, direct_root if ip else None)
        # (c)
        if before_peers is not None:
            after_peers = peers_snapshot(world, direct_root)
            for n, snap in before_peers.items():
                if n in after_peers and after_peers[n] != snap:
                    violations.append(f"in-place `{what}` changed another instance v{n}")
        # (d)
        if exc is None and recv is not None and hasattr(type(recv), "__spec_class__"):
            if name == "resetattr":
                target = recv if ip else res
                check_reset(world, target, [int(toks[2])], what)
            elif name == "del":
                check_reset(world, recv, [int(toks[2])], what)
            elif name == "reset":
                target = recv if ip else res
                nums = [int(k[1:]) for k in type(target).__spec_class__.attrs if k[1:].isdigit()]
                check_reset(world, target, nums, what)

    def on_other(world, line):
        toks = line.split()
        if toks[0] != "raw":
            H.run_line(world, line)
            return
        try:
            root = world.resolve(H.root_token(toks[2]))
        except (LookupError, ValueError):
            H.run_line(world, line)
            return
        for t in toks[3:]:
            if t.startswith("@"):
                try:
                    lent.update(H.reachable_ids(world.resolve(t)))
                except (LookupError, ValueError):
                    pass
        rebase_ctor_args()
        before_defaults = defaults_snapshot(world)
        before_peers = peers_snapshot(world, root)
        H.run_line(world, line)
        after_defaults = defaults_snapshot(world)
        for n, snap in before_defaults.items():
            if after_defaults.get(n) != snap:
                violations.append(f"`{line}` changed the class-level default {n}")
        check_ctor_args(world, line, root)
        after_peers = peers_snapshot(world, root)
        for n, snap in before_peers.items():
            if n in after_peers and after_peers[n] != snap:
                violations.append(f"`{line}` changed another instance v{n}")

    H.replay(case, on_op=on_op, on_other=on_other)
    return violations


# ---------------------------------------------------------------------------
# extra: constructor routes outside the heap model's grammar (real code + oracle only):
#  (1) the overflow attribute (init_overflow_attr): the values collected into it are constructor arguments
#      (fixed finding d27b258);
#  (2) init=False attributes with a default: never initialised by the constructor, so reads fall through to the
#      class attribute (open finding KF-C08-init-false-shared-default).
# A case of this section is {"extra": <section>, "variant": ...}; `oracle` accepts such a case (witness re-run).
# ---------------------------------------------------------------------------


def _overflow_scenarios():
    from typing import Any, Dict, List

    from spec_classes import Attr, spec_class

    @spec_class(init_overflow_attr="options", bootstrap=True)
    class Ov:
        x: int = 0
        ns: List[int] = Attr(default_factory=list)

    @spec_class(bootstrap=True)
    class OvSub(Ov):
        y: int = 1

    class OvPlain(Ov):
        pass

    @spec_class(init_overflow_attr="options", do_not_copy=["options"], bootstrap=True)
    class OvShared:
        x: int = 0

    return {"Ov": Ov, "OvSub": OvSub, "OvPlain": OvPlain, "OvShared": OvShared}


def _overflow_probe(variant):
    """variant = [class name, shape of the extra keywords]"""
    cname, shape = variant
    cls = _overflow_scenarios()[cname]
    args = {
        "list": {"foo": [1, 2]},
        "nested": {"foo": {"k": [1]}, "bar": [[0]]},
        "empty": {"foo": [], "bar": {}},
        "named-like-attr": {"options": [7], "zz": [8]},
        "with-declared": {"foo": [1], "ns": [5]},
    }[shape]
    kw = dict(args)
    snaps = {k: H.deep_snapshot(v) for k, v in args.items()}
    try:
        o = cls(**kw)
    except Exception as e:  # noqa: BLE001
        return [], False
    out = []
    overflow_dnc = H.declared_attr_dnc(cls, "options")
    declared = set(cls.__spec_class__.attrs) - {"options"}

    def lent(k):  # keywords collected into a do_not_copy overflow attribute are shared by design
        return overflow_dnc and k not in declared

    shared_by_design = overflow_dnc
    held = H.mutable_ids(o)
    for k, v in args.items():
        if lent(k):
            continue
        if any(i in held for i in H.mutable_ids(v)):
            out.append(f"{cname}(**{shape}): the instance holds the very object passed for keyword {k!r}")
    # in-place mutation of everything mutable the instance holds, at any depth
    for i, m in list(held.items()):
        if m is o:
            continue
        undo = H.probe_mutate(m)
        changed = [k for k, v in args.items() if H.deep_snapshot(v) != snaps[k] and not lent(k)]
        undo()
        if changed:
            out.append(f"{cname}(**{shape}): mutating the instance in place changed the constructor argument(s) {changed}")
            break
    peer = cls(**kw)
    if any(i in H.mutable_ids(peer) for i in held if not shared_by_design):
        out.append(f"{cname}(**{shape}): two instances built from the same arguments share a mutable object")
    return out, True


def _init_false_scenarios():
    from typing import Dict, List

    from spec_classes import Attr, spec_class

    @spec_class(bootstrap=True)
    class NF:
        a: int = 0
        xs: List[int] = Attr(default=[1, 2], init=False)
        d: Dict[str, int] = Attr(default={"k": 1}, init=False)
        ys: List[int] = Attr(default_factory=lambda: [3], init=False)
        zs: List[int] = Attr(default=[4])  # control: init-enabled

    @spec_class(bootstrap=True)
    class NFSub(NF):
        b: int = 1

    class NFPlain(NF):
        xs = [9]

    return {"NF": NF, "NFSub": NFSub, "NFPlain": NFPlain}


def _init_false_probe(variant):
    """variant = [class name, attribute]: construct, mutate the attribute's value in place through the instance,
    then look at the class-level default, at a peer and at a later instance."""
    cname, attr = variant
    cls = _init_false_scenarios()[cname]
    o, peer = cls(), cls()
    try:
        val = getattr(o, attr)
    except AttributeError:
        return [], False  # no value at all: nothing to share
    if type(val) not in (list, dict, set):
        return [], False  # (a sentinel: no value)
    holders = [k for k in cls.__mro__ if attr in k.__dict__]
    before_cls = {k.__name__: H.deep_snapshot(k.__dict__[attr]) for k in holders}
    before_spec = H.deep_snapshot(cls.__spec_class__.attrs[attr].default)
    try:
        before_peer = H.deep_snapshot(getattr(peer, attr))
    except AttributeError:
        before_peer = None
    undo = H.probe_mutate(val)
    out = []
    if {k.__name__: H.deep_snapshot(k.__dict__[attr]) for k in holders} != before_cls or H.deep_snapshot(cls.__spec_class__.attrs[attr].default) != before_spec:
        out.append(f"mutating {cname}().{attr} in place changed the class-level default of {attr}")
    try:
        if before_peer is not None and H.deep_snapshot(getattr(peer, attr)) != before_peer:
            out.append(f"mutating {cname}().{attr} in place changed another instance")
    except AttributeError:
        pass
    later = cls()
    undo()
    return out, True


def _extra_oracle(case):
    if case.get("extra") == "overflow":
        return _overflow_probe(case["variant"])[0]
    if case.get("extra") == "init-false":
        return _init_false_probe(case["variant"])[0]
    return []


def extra(tier, rng):
    return HS.merge_extra(_extra_constructor_routes(tier, rng), HS.extra_section(PID, tier, rng))


def _extra_constructor_routes(tier, rng):
    evaluations, violations, keys = 0, [], []
    for cname in ("Ov", "OvSub", "OvPlain", "OvShared"):
        for shape in ("list", "nested", "empty", "named-like-attr", "with-declared"):
            v, ran = _overflow_probe([cname, shape])
            if ran:
                evaluations += 1
                keys.append(("overflow", cname, shape))
            if v:
                violations.append({"case": {"extra": "overflow", "variant": [cname, shape]}, "violation": v})
    for cname in ("NF", "NFSub", "NFPlain"):
        for attr in ("xs", "d", "ys", "zs"):
            v, ran = _init_false_probe([cname, attr])
            if ran:
                evaluations += 1
                keys.append(("init-false", cname, attr))
            if v:
                violations.append({"case": {"extra": "init-false", "variant": [cname, attr]}, "violation": v})
    return {
        "evaluations": evaluations,
        "nontrivial": keys,
        "violations": violations,
        "disagreements": [],
        "info": {"overflow_and_init_false_constructions": evaluations},
    }


def _kf_init_false_shared_default(case, violation):
    """KF-C08-init-false-shared-default: an attribute declared init=False with a plain (non-factory) mutable default is
    never initialised; only that shape (section init-false, attributes xs / d of the scenario classes, i.e. init=False
    + plain default) is accepted."""
    return (
        isinstance(case, dict)
        and case.get("extra") == "init-false"
        and case.get("variant", [None, None])[1] in ("xs", "d")
        and all("class-level default" in v or "another instance" in v for v in violation)
    )


KNOWN_MATCHERS = {"init_false_shared_default": _kf_init_false_shared_default}

MANIFEST_ENTRY = {
    "level_text": "Lean 4 proof, over the heap model with object identities in which class-level default objects, constructor arguments and instances are roots, that the constructor stores only scalars, freshly allocated objects or (for do_not_copy attributes only) the supplied argument, that the value installed by reset_<attr>/del/reset is freshly allocated and is produced by the very computation (default lookup along the class chain incl. plain-subclass overrides and factories, then the attribute's preparer) the constructor runs for a non-supplied attribute, and that an in-place write is invisible through any value that cannot reach the written object; the content-level statement 'equal to a newly constructed instance' is kept as an open full statement and validated on every run; tied to /repo by executing generated histories (every way of declaring and overriding a default, nested in-place mutation, reset/del, further constructions) on the real spec_classes and on the model and comparing contents and the alias pattern against class defaults, arguments and peers after every step.",
    "level_note": "Trusted: Lean kernel; axioms propext/Classical.choice/Quot.sound only; the hand-written heap model and the correspondence harness; default factories pure. init=False attributes, the overflow attribute, tuple-typed attributes, keyed containers, Alias / spec_property / property backed attributes and the order of earlier calls in the process (module-level caches) are outside the modelled grammar: real-code oracle over generated class families only (extra, harness/heap_shapes.py). The theorems are about the model; the per-run correspondence ties them to the code.",
    "technique": "Lean 4 freshness/provenance theorems over a hand-written heap model; differential correspondence of alias patterns (defaults, arguments, peers) against the real classes",
}
