"""
C09 — the generated constructor assigns exactly what the class hierarchy specifies.

Correspondence between the real `spec_classes` (class hierarchies rendered to
Python source and exec'd) and the Lean Impl model `SpecVerif.C09`
(Drivers/C09.lean: `bootstrapClass`, `construct`, `wfCall`), plus an independent
oracle written from the property text (defaults resolved by walking
`cls.__mro__` over the *declared* class bodies).
"""
import itertools
import sys

PID = "C09"
LEAN_TARGETS = ["SpecVerif.Props.C09"]
AUDIT = [("SpecVerif.Props.C09", "SpecVerif.Props.C09")]
DRIVER = "Drivers/C09.lean"
REQUIRED_THEOREMS = [
    "SpecVerif.Props.C09." + n
    for n in (
        "ctor_resolves_partial",
        "noninit_not_assigned",
        "key_positional",
        "key_required_iff_no_default_partial",
        "unknown_kw",
        "overflow_exact",
        "owner_ctor_called_once",
        "each_attr_assigned_once",
        "post_init_once_last",
        "ctor_resolves_full_fails",
        "key_required_iff_no_default_full_fails",
        "bootstrapAll_prefix",
        "construct_ignores_later_classes",
    )
]
RULE = (
    "case = class hierarchy of depth <= 3 (single spec class; spec parent + plain subclass; spec chains of 2 and 3; "
    "two spec parents; diamond; plain class between spec classes; plain base; siblings that are never joined, with a plain "
    "or spec grandchild) with per-class declarations "
    "(annotation x {no default, literal, Attr(default), Attr(default_factory), Attr(), dataclasses.field}, init=False, "
    "inherited attributes untouched / re-defaulted by a plain value / re-declared by Attr or field WITHOUT annotation with "
    "their own (flipped) init / re-declared with annotation, key with/without default, overflow attribute, "
    "_prepare_<attr> and _prepare_<item> methods PER CLASS (3 distinguishable functions; on int/str/Any/List[int] attributes; "
    "defined by the declaring class, by spec and plain subclasses that re-default / re-declare the attribute and by spec and "
    "plain subclasses whose body does NOT mention it; an override always uses another function than the one it shadows), "
    "do_not_copy=True/[names] on spec classes, "
    "hand-written __init__ of the documented shape, __post_init__, lazy/eager bootstrap) rendered to source and exec'd, "
    "x a HISTORY of constructor calls: every class of the family used for the first time in a generated order (parents "
    "first / leaf first / shuffled; metadata of all classes inspected first or last), without and with keywords, random calls, "
    "then the same keyword calls again after every class has been used; "
    "x constructor calls on every class of the hierarchy with keyword subsets (quick: sampled, thorough: all subsets "
    "when <= 6 names) over init-enabled, init=False, overflow-attribute and unknown names, conforming and non-conforming "
    "values, key positional / by keyword / both / absent. Non-trivial = a call that assigned at least one attribute or "
    "raised; distinct = distinct (metadata of the target class, keyword names, value kinds, outcome)."
)
EXHAUSTIVE = {"quick": False, "thorough": False}
OPEN_STATEMENTS = [
    "construct_ignores_later_classes / bootstrapAll_prefix state that the MODEL has no state shared between classes; that the real "
    "code behaves like it under lazy bootstrapping is validated per run by the generated histories (correspondence + history oracle)",
    "ctor_resolves_full (wfCore only) is FALSE on the real code: KF-C09-diamond-second-parent; Lean witness ctor_resolves_full_fails",
    "key_required_iff_no_default_full (wfCore only) is FALSE on the real code: KF-C09-plain-subclass-key-default; Lean witness key_required_iff_no_default_full_fails",
    "bootstrapMeta (for_class + bootstrap) is not the subject of a theorem: wfCall states the relation between metadata and declared table "
    "that the constructor theorems need; the driver evaluates it on the model's metadata for every call and the harness on the REAL metadata",
    "no totality theorem: the theorems are conditional on `construct ... = (s, none)`; non-vacuity by decided examples and by the "
    "successful wf=1 calls of every run (histogram outcome:wf=1:gen=1:ok)",
    "values routed through a hand-written parent constructor (prepared f(v)) are validated by correspondence and oracle only; "
    "owner_ctor_called_once and post_init_once_last do cover hand-written parents",
]
ASSUMPTIONS = [
    "the MRO of every class is an input of the model (C3 linearisation is CPython's; the harness reads cls.__mro__)",
    "the annotation of an attribute name is the same wherever the name is declared in one hierarchy (preparers are per class)",
    "attribute types are int/str/Any/List[int] and values ints/strings/int lists (no collections-of-spec, no descriptors "
    "masking attributes); the singular of the collection attribute `ns` is `n` and collides with no attribute",
    "READING: when several classes of a hierarchy define _prepare_<attr>, the property text does not say which one prepares; "
    "the oracle accepts the preparer any class of the INSTANCE's MRO sees (never one of a class outside that MRO), the model "
    "pins the code's choice (the one visible from the nearest class that declares or re-defaults the attribute)",
    "hand-written constructors have the documented shape `def __init__(self, a=d, ...): self.a = f(a)` and no key",
    "READING: init=False attributes are not assigned by the constructor (documented); they read as the class-level default, "
    "a default_factory of such an attribute is never called",
    "READING: an annotation-only re-declaration takes the default visible through getattr (a plain inherited default is kept, "
    "an inherited default_factory is dropped) - the behaviour of dataclasses",
    "defaults are fixed points of the attribute's preparer (construction runs defaults through the preparer too)",
]

TYPES = {"a": "int", "b": "int", "c": "str", "d": "any", "e": "int", "k": "str", "opts": "dict", "ns": "ints"}
ATTR_POOL = ["a", "b", "c", "d", "e", "ns"]
UNKNOWN = ["zz", "yy"]
ITEM = {"ns": "n"}  # collection attribute -> its singular (what spec_classes derives: `_prepare_n` prepares the items of `ns`)
N_PREP = 3  # preparer function ids 1..N_PREP

_ns_cache = {}


def setup():
    import spec_classes  # noqa: F401


# ---------------------------------------------------------------------------
# value tokens
# ---------------------------------------------------------------------------


def tok(v):
    if v is None:
        return "_"
    if isinstance(v, bool):
        raise ValueError(v)
    if isinstance(v, int):
        return f"i{v}"
    if isinstance(v, str):
        return "s" + v
    if isinstance(v, (list, tuple)):
        return "l" + ".".join(str(x) for x in v)
    raise ValueError(v)


def tok_real(v):
    from spec_classes import MISSING

    if v is MISSING:
        return "_"
    if isinstance(v, dict):
        return "{" + ",".join(f"{k}={tok_real(x)}" for k, x in sorted(v.items())) + "}"
    try:
        return tok(v)
    except ValueError:
        return "?" + type(v).__name__


def pylit(v):
    return repr(list(v) if isinstance(v, tuple) else v)


# ---------------------------------------------------------------------------
# rendering a case to Python source
# ---------------------------------------------------------------------------

PY_TYPES = {"int": "int", "str": "str", "any": "Any", "dict": "Any", "ints": "List[int]"}


def pdefs_of(c, case):
    """`_prepare_<attr>` methods defined in the body of class `c`: attr -> function id. (Old-format cases carry a
    hierarchy-wide list `preps`: every spec class that declares such a name with annotation defines preparer 1.)"""
    if "pdefs" in c:
        return c["pdefs"]
    if not c["spec"]:
        return {}
    return {d["name"]: 1 for d in c["decls"] if d["ann"] and d["name"] in case.get("preps", [])}


def idefs_of(c, case):
    """`_prepare_<item>` methods defined in the body of `c`, keyed by the COLLECTION attribute: attr -> function id."""
    return c.get("idefs", {})


def render_class(c, case):
    lines = []
    if c["spec"]:
        args = []
        if c["key"] != "?":
            args.append("key=" + ("None" if c["key"] == "-" else repr(c["key"])))
        if c["ovf"] != "?":
            args.append("init_overflow_attr=" + ("None" if c["ovf"] == "-" else repr(c["ovf"])))
        if c.get("eager"):
            args.append("bootstrap=True")
        if c.get("dnc") not in (None, "?"):
            args.append("do_not_copy=" + repr(c["dnc"]))
        lines.append("@spec_class(%s)" % ", ".join(args) if args else "@spec_class")
    lines.append("class %s(%s):" % (c["name"], ", ".join(c["bases"])) if c["bases"] else "class %s:" % c["name"])
    body = []
    for d in c["decls"]:
        ann = ": " + PY_TYPES[case["types"][d["name"]]] if d["ann"] else ""
        kind = d["kind"]
        if kind == "none":
            if d["ann"]:
                body.append(f"{d['name']}{ann}")
            continue
        if kind == "lit":
            rhs = pylit(d["default"])
        else:
            fn = "Attr" if kind == "attr" else "dataclasses.field"
            a = []
            if d.get("default") is not None:
                a.append("default=" + pylit(d["default"]))
            if d.get("factory") is not None:
                a.append("default_factory=lambda: " + pylit(d["factory"]))
            if not d.get("init", True):
                a.append("init=False")
            rhs = f"{fn}({', '.join(a)})"
        body.append(f"{d['name']}{ann} = {rhs}")
    for a, n in sorted(pdefs_of(c, case).items()):
        body.append(f"def _prepare_{a}(self, v, _pid={n}): return PREP(_pid, v)")
    for a, n in sorted(idefs_of(c, case).items()):
        body.append(f"def _prepare_{ITEM[a]}(self, v, _pid={n}): return PREP(_pid, v)")
    if c.get("hand") is not None:
        params = []
        for p in c["hand"]:
            params.append(p["name"] if p["default"] is None else f"{p['name']}={pylit(p['default'])}")
        body.append("def __init__(self%s):" % "".join(", " + p for p in params))
        body.append(f"    LOG.append('ctor {c['name']}')")
        for p in c["hand"]:
            body.append(f"    self.{p['name']} = F{p['f']}({p['name']})")
    if c.get("post"):
        body.append("def __post_init__(self):")
        body.append(f"    LOG.append('post {c['name']}')")
        body.append("    POST.append(dict(self.__dict__))")
    if not body:
        body = ["pass"]
    return "\n".join(lines + ["    " + b for b in body])


def render(case):
    return "\n\n".join(render_class(c, case) for c in case["classes"]) + "\n"


def _prep(n, v):
    """Preparer function `n` of the grammar (0 = no preparer). Values below 100 and strings other than "mm" are
    fixed points, so declared defaults are never changed by a preparer."""
    if n == 0:
        return v
    if isinstance(v, int) and not isinstance(v, bool):
        return v % 100 + 1000 * (n - 1) if v >= 100 else v
    if isinstance(v, str) and v == "mm":
        return "m" + "abcd"[min(n, 4) - 1]
    return v


def _pid(fn):
    """function id of a `_prepare_*` method rendered by `render_class` (0 = None)."""
    if not fn:
        return 0
    fn = getattr(fn, "__func__", fn)
    d = getattr(fn, "__defaults__", None)
    return d[0] if d else -1


def build(case):
    """exec the rendered hierarchy in a fresh namespace (fresh classes per call)."""
    import dataclasses
    from typing import Any, List

    from spec_classes import Attr, spec_class

    ns = {
        "spec_class": spec_class, "Attr": Attr, "dataclasses": dataclasses, "Any": Any, "List": List,
        "LOG": [], "POST": [], "PREP": _prep,
        "F0": lambda x: x, "F1": lambda x: x + 1, "F2": lambda x: 100,
        "__name__": "c09case",
    }
    exec(compile(render(case), "<c09case>", "exec"), ns)
    return ns


# ---------------------------------------------------------------------------
# protocol: model side
# ---------------------------------------------------------------------------


def decl_tok(d):
    kind = "attr" if d["kind"] in ("attr", "field") else d["kind"]
    return ":".join([
        d["name"], "1" if d["ann"] else "0", kind, tok(d.get("default")), tok(d.get("factory")),
        "1" if d.get("init", True) else "0",
    ])


def class_line(c, case=None):
    case = case or {}
    hand = "-"
    if c.get("hand") is not None:
        hand = ",".join(f"{p['name']}:{'!' if p['default'] is None else tok(p['default'])}:{p['f']}" for p in c["hand"]) or "-"
        if hand == "-":
            hand = "-"  # a hand-written ctor without parameters is not generated
    return " ".join([
        "class", c["name"], "1" if c["spec"] else "0", ",".join(c["bases"]) or "-", ",".join(c["mro"]),
        c["key"], c["ovf"], "1" if c.get("post") else "0", hand,
        ",".join(decl_tok(d) for d in c["decls"]) or "-",
        ",".join(f"{a}:{n}" for a, n in sorted(pdefs_of(c, case).items())) or "-",
        ",".join(f"{a}:{n}" for a, n in sorted(idefs_of(c, case).items())) or "-",
    ])


def call_line(call):
    return " ".join([
        "call", call["cls"], ",".join(tok(v) for v in call["pos"]) or "-",
        ",".join(f"{n}={tok(v)}" for n, v in call["kw"]) or "-",
    ])


def model_lines(case):
    names = sorted(case["types"])
    head = "reset " + ",".join(f"{n}:{case['types'][n]}" for n in names)
    return [head] + [class_line(c, case) for c in case["classes"]] + [call_line(c) for c in case["calls"]]


# ---------------------------------------------------------------------------
# protocol: real side
# ---------------------------------------------------------------------------

ERRS = ("TypeError", "ValueError", "KeyError", "IndexError", "AttributeError", "FrozenInstanceError", "RuntimeError")


def err_name(e):
    for klass in type(e).__mro__:
        if klass.__name__ in ERRS:
            return klass.__name__
    return type(e).__name__


class Tracer:
    """Observe constructor entries and attribute writes from outside (sys.setprofile)."""

    def __init__(self, log):
        import spec_classes.methods.core as core
        from spec_classes import MISSING
        from spec_classes.utils import mutation

        self.init_code = core.InitMethod.init.__code__
        self.mut_code = mutation.mutate_attr.__code__
        self.MISSING = MISSING
        self.log = log

    def __call__(self, frame, event, arg):
        if event != "call":
            return
        code = frame.f_code
        if code is self.init_code:
            self.log.append("ctor " + frame.f_locals["spec_cls"].__name__)
        elif code is self.mut_code:
            loc = frame.f_locals
            if loc["value"] is not self.MISSING and not loc["attr"].startswith("__"):
                v = loc["value"]
                self.log.append("set " + loc["attr"] + ("" if isinstance(v, dict) else "=" + tok_real(v)))

    def __enter__(self):
        sys.setprofile(self)

    def __exit__(self, *a):
        sys.setprofile(None)


def run_call(ns, case, call):
    """-> (instance or None, error name or None, trace, post snapshots)"""
    ns["LOG"].clear()
    ns["POST"].clear()
    cls = ns[call["cls"]]
    pos = [list(v) if isinstance(v, list) else v for v in call["pos"]]
    kw = {n: (list(v) if isinstance(v, list) else v) for n, v in call["kw"]}
    inst, err = None, None
    with Tracer(ns["LOG"]):
        try:
            inst = cls(*pos, **kw)
        except RecursionError:
            err = "RuntimeError"
        except Exception as e:  # noqa: BLE001
            err = err_name(e)
    return inst, err, list(ns["LOG"]), list(ns["POST"])


def ovf_names(case):
    return sorted({c["ovf"] for c in case["classes"] if c["ovf"] not in ("?", "-")})


def show_state(case, inst):
    from spec_classes import MISSING

    parts = []
    ovfs = ovf_names(case)
    for a in sorted(case["types"]):
        if a in ovfs:
            continue
        if a in inst.__dict__:
            parts.append(f"{a}={tok_real(inst.__dict__[a])}")
        else:
            v = getattr(type(inst), a, MISSING)
            if v is not MISSING:
                parts.append(f"{a}~{tok_real(v)}")
    for o in ovfs:
        if o in inst.__dict__:
            parts.append("OVF=" + tok_real(inst.__dict__[o]))
    return " ".join(parts)


def show_meta(case, cls):
    from spec_classes import MISSING

    names = sorted(case["types"])
    d = []
    for a in names:
        if a in vars(cls):
            d.append(f"{a}={tok_real(vars(cls)[a])}")
    dict_s = ",".join(d)
    m = cls.__dict__.get("__spec_class__")
    if m is None:
        return f"plain dict={dict_s}"
    m = cls.__spec_class__  # bootstraps a lazy class
    d = [f"{a}={tok_real(vars(cls)[a])}" for a in names if a in vars(cls)]
    dict_s = ",".join(d)
    attrs = []
    for a, sp in m.attrs.items():
        fac = sp.default_factory() if sp.default_factory is not MISSING else MISSING
        attrs.append(f"{a}:{sp.owner.__name__}:{1 if sp.init else 0}:{tok_real(sp.default)}:{tok_real(fac)}"
                     f":p{_pid(sp.prepare)}:q{_pid(sp.prepare_item)}")
    post = m.post_init.__qualname__.split(".")[0] if m.post_init else "-"
    return f"spec key={m.key or '-'} ovf={m.init_overflow_attr or '-'} post={post} attrs={','.join(attrs)} dict={dict_s}"


def _slot(cdef, a):
    d = declared(cdef, a)
    return d if d is not None and d["kind"] != "none" else None


def _decl_default(d):
    if d["kind"] == "lit":
        return d["default"]
    return d["factory"] if d.get("factory") is not None else d.get("default")


def _nearest(cdefs, mro, a):
    for k in mro:
        d = _slot(cdefs[k], a)
        if d is not None:
            return _decl_default(d)
    return None


def _mentions(cdefs, kk, a):
    """the body of the decorated class kk mentions `a` (annotation, Attr/field object, class-level value, overflow attr)"""
    c = cdefs[kk]
    return bool(c["spec"]) and (any(d["name"] == a for d in c["decls"]) or c["ovf"] == a)


def _visible_prep(case, cdefs, mro, a, item=False):
    """what `getattr(cls, "_prepare_<a>")` shows on a class with this MRO: function id of the first definition, 0 = none"""
    for kk in mro:
        defs = idefs_of(cdefs[kk], case) if item else pdefs_of(cdefs[kk], case)
        if a in defs:
            return defs[a]
    return 0


def declared_prep(case, cdefs, mroC, a, item=False):
    """`declaredPrep` of Model/C09.lean: the preparer visible from the nearest class along the MRO that (re)builds `a`"""
    b = next((kk for kk in mroC if _mentions(cdefs, kk, a)), None)
    return _visible_prep(case, cdefs, cdefs[b]["mro"], a, item) if b is not None else 0


def py_wf(case, ns, cname):
    """The predicate `wfCall` of Model/C09.lean evaluated on the REAL metadata (compared with the model's verdict)."""
    from spec_classes import MISSING

    unm = lambda v: None if v is MISSING else v  # noqa: E731
    cdefs = {c["name"]: c for c in case["classes"]}
    mroC = cdefs[cname]["mro"]
    k0 = next((k for k in mroC if cdefs[k]["spec"]), None)
    if k0 is None:
        return False, False
    im = ns[k0].__spec_class__
    mroK = cdefs[k0]["mro"]
    gen = all(cdefs[p].get("hand") is None for p in mroK)
    ok = im.owner is ns[k0] and mroK[0] == k0
    names = sorted(case["types"])
    for kk in mroC + mroK:
        body = {d["name"]: (d["default"] if d["kind"] == "lit" else d.get("default"))
                for d in cdefs[kk]["decls"] if d["kind"] != "none"}
        real = {a: unm(v) for a, v in vars(ns[kk]).items() if a in names}
        ok = ok and real == body
    for p in mroK[1:]:
        pm = ns[p].__dict__.get("__spec_class__")
        if pm is not None:
            ok = ok and pm.owner is ns[p] and all(a in im.attrs for a in pm.attrs)
    for a, sp in im.attrs.items():
        o = sp.owner.__name__
        om = ns[o].__dict__.get("__spec_class__") if o in cdefs else None
        ok = ok and (o == k0 or (o in mroK[1:] and om is not None and a in om.attrs))
        declarer = next((kk for kk in mroC if cdefs[kk]["spec"] and (
            any(d["name"] == a and (d["ann"] or d["kind"] in ("attr", "field")) for d in cdefs[kk]["decls"])
            or cdefs[kk]["ovf"] == a)), None)
        ok = ok and declarer == o
        if o in cdefs:
            d = _slot(cdefs[o], a)
            ok = ok and sp.init == (d.get("init", True) if d is not None and d["kind"] != "lit" else True)
        if not sp.init:
            continue
        if o not in mroC:
            ok = False
            continue
        pre = mroC[: mroC.index(o)]
        fac = unm(sp.default_factory() if sp.default_factory is not MISSING else MISSING)
        dflt = unm(sp.default)
        for kk in pre:
            d = _slot(cdefs[kk], a)
            if d is not None and d["kind"] != "lit" and d.get("factory") is not None:
                ok = False
        if all(_slot(cdefs[kk], a) is None for kk in pre):
            d = _slot(cdefs[o], a)
            if d is None:
                ok = ok and fac is None and dflt == _nearest(cdefs, mroC[mroC.index(o) + 1:], a)
            elif d["kind"] == "lit":
                ok = ok and fac is None and dflt == d["default"]
            else:
                ok = ok and dflt == d.get("default") and fac == d.get("factory")
    if im.key:
        sp = im.attrs.get(im.key)
        if sp is None:
            ok = False
        else:
            ok = ok and sp.init and im.init_overflow_attr != im.key and (
                sp.has_default == (_nearest(cdefs, mroC, im.key) is not None))
    for a, sp in im.attrs.items():
        if sp.init:
            ok = ok and _pid(sp.prepare) == declared_prep(case, cdefs, mroC, a) and (
                _pid(sp.prepare_item) == declared_prep(case, cdefs, mroC, a, item=True))
    return bool(ok), gen


def real_lines(case):
    ns = build(case)
    for c in case["classes"]:
        mro = [k.__name__ for k in ns[c["name"]].__mro__ if k is not object]
        if mro != c["mro"]:
            raise AssertionError(f"mro of {c['name']} is {mro}, case says {c['mro']}")
    dumps = None
    if case.get("dump_first"):
        dumps = [show_meta(case, ns[c["name"]]) for c in case["classes"]]
    outs = []
    for call in case["calls"]:
        inst, err, trace, _ = run_call(ns, case, call)
        head = "ok" if err is None else "err " + err
        state = show_state(case, inst) if inst is not None else ""
        wf, gen = py_wf(case, ns, call["cls"])
        outs.append(f"wf={int(wf)} gen={int(gen)} {head} ;; {state} ;; {','.join(trace)}")
    if dumps is None:
        dumps = [show_meta(case, ns[c["name"]]) for c in case["classes"]]
    return ["ok"] + dumps + outs


# ---------------------------------------------------------------------------
# independent oracle (from the property text)
# ---------------------------------------------------------------------------


def conforms(ty, v):
    if ty == "any":
        return True
    if ty == "int":
        return isinstance(v, int) and not isinstance(v, bool)
    if ty == "str":
        return isinstance(v, str)
    if ty == "ints":
        return isinstance(v, list) and all(isinstance(x, int) and not isinstance(x, bool) for x in v)
    return False


def declared(cdef, a):
    for d in cdef["decls"]:
        if d["name"] == a:
            return d
    return None


def decl_default(d):
    """(has_slot, value) of the assignment of a declaration; a factory counts as its product."""
    if d is None or d["kind"] == "none":
        return False, None
    if d["kind"] == "lit":
        return True, d["default"]
    if d.get("factory") is not None:
        return True, d["factory"]
    return True, d.get("default")


def oracle_call(case, ns, call):
    """Check one constructor call against the property text. Returns a list of violations."""
    viol, _obs = oracle_call_obs(case, ns, call)
    return viol


def oracle_call_obs(case, ns, call):
    """-> (violations, observation) where observation = (error class, canonical state) of the call as it ran."""
    viol = []
    obs = [None]
    _oracle_call(case, ns, call, viol, obs)
    return viol, obs[0]


def _oracle_call(case, ns, call, viol, obs):
    from spec_classes import MISSING

    cdefs = {c["name"]: c for c in case["classes"]}
    cls = ns[call["cls"]]
    mro = [k.__name__ for k in cls.__mro__ if k is not object]
    spec_mro = [k for k in mro if cdefs[k]["spec"]]
    inst, err, trace, posts = run_call(ns, case, call)
    obs[0] = (err, show_state(case, inst) if inst is not None else "")
    if not spec_mro:
        return viol

    def prepared(a, v):
        """The values "the prepared v" may be: the property text does not say WHICH class's `_prepare_<a>` is in
        force when several classes of the hierarchy define one, so every reading "the preparer some class of the
        instance's MRO sees by attribute lookup" is accepted (and only those: a preparer defined by a class that is
        not in the MRO of the instance's class has no business here). Items of a collection likewise."""
        pids = {_visible_prep(case, cdefs, cdefs[kk]["mro"], a) for kk in mro}
        out = []
        for pid in sorted(pids):
            w = _prep(pid, v)
            if case["types"].get(a) == "ints" and isinstance(w, list):
                iids = {_visible_prep(case, cdefs, cdefs[kk]["mro"], a, item=True) for kk in mro}
                out.extend([_prep(i, x) for x in w] for i in sorted(iids))
            else:
                out.append(w)
        return out
    k0 = spec_mro[0]
    top_hand = cdefs[k0].get("hand") is not None

    # configuration (decorator arguments are inherited from the nearest spec class)
    def config(field, k):
        v = cdefs[k][field]
        if v != "?":
            return None if v == "-" else v
        rest = [x for x in [kk.__name__ for kk in ns[k].__mro__ if kk is not object][1:] if cdefs[x]["spec"]]
        return config(field, rest[0]) if rest else None

    key = config("key", k0)
    ovf = config("ovf", k0)

    # managed attributes: annotated in a spec class of the MRO (+ overflow attribute)
    managed = []
    for k in mro:
        if cdefs[k]["spec"]:
            for d in cdefs[k]["decls"]:
                if d["ann"] and d["name"] not in managed:
                    managed.append(d["name"])
    if ovf and ovf not in managed:
        managed.append(ovf)

    def owner(a):
        for k in spec_mro:
            d = declared(cdefs[k], a)
            if d is not None and (d["ann"] or d["kind"] in ("attr", "field")):
                return k
        return None

    def is_init(a):
        k = owner(a)
        if k is None:
            return True
        d = declared(cdefs[k], a)
        return d.get("init", True) if d["kind"] in ("attr", "field") else True

    def nearest_default(a, upto=None):
        """First class along the MRO whose body assigns `a`; `readings` tells whether a
        factory was skipped because of an annotation-only re-declaration. `upto`: stop after that class
        (a hand-written constructor's own signature default shadows what comes later in the MRO)."""
        seen_annotation_only = False
        walk = mro if upto is None else mro[: mro.index(upto) + 1]
        for k in walk:
            d = declared(cdefs[k], a)
            has, v = decl_default(d)
            if has:
                factory = d["kind"] != "lit" and d.get("factory") is not None
                if factory and seen_annotation_only:
                    return None, "annotation-only-redeclaration-drops-factory"
                return v, None
            if d is not None and d["ann"] and cdefs[k]["spec"]:
                seen_annotation_only = True
        return None, None

    def class_level(a):
        """What attribute lookup on the class shows (init=False attributes are not assigned)."""
        for k in mro:
            d = declared(cdefs[k], a)
            if d is None or d["kind"] == "none":
                continue
            if d["kind"] == "lit":
                return d["default"]
            return d.get("default")
        return None

    kw = dict((n, v) for n, v in call["kw"])
    pos = list(call["pos"])

    if top_hand:
        # the user's own constructor: only its own assignments are claimed
        params = cdefs[k0]["hand"]
        names = [p["name"] for p in params]
        bad = len(pos) > len(params) or any(n not in names for n in kw) or any(
            names[i] in kw for i in range(min(len(pos), len(names))))
        vals = {}
        for i, p in enumerate(params):
            if i < len(pos):
                vals[p["name"]] = pos[i]
            elif p["name"] in kw:
                vals[p["name"]] = kw[p["name"]]
            elif p["default"] is not None:
                vals[p["name"]] = p["default"]
            else:
                bad = True
        if bad:
            if err != "TypeError":
                viol.append(f"hand-written ctor: expected TypeError, got {err or 'success'}")
            return viol
        exp = {}
        for p in params:
            v = vals[p["name"]]
            if p["f"] == 1:
                if not (isinstance(v, int)):
                    if err != "TypeError":
                        viol.append("hand-written ctor: a + 1 on a non-int should raise TypeError")
                    return viol
                v = v + 1
            elif p["f"] == 2:
                v = 100
            if case["types"][p["name"]] == "ints" and v == "":
                v = []  # an empty string is an empty iterable
            if not conforms(case["types"][p["name"]], v):
                if err not in (("TypeError", "ValueError") if case["types"][p["name"]] == "ints" else ("TypeError",)):
                    viol.append(f"non-conforming value for {p['name']}: expected TypeError, got {err or 'success'}")
                return viol
            exp[p["name"]] = prepared(p["name"], v)
        if err is not None:
            viol.append(f"hand-written ctor call raised {err}")
            return viol
        for a, vs in exp.items():
            got = inst.__dict__.get(a, MISSING)
            if got not in vs:
                viol.append(f"{a} == {got!r}, hand-written ctor assigns the prepared value (one of {vs!r})")
        return viol

    # attributes that a hand-written constructor of a class other than their owner assigns as well
    # (a name declared by two classes of the hierarchy): the user's code decides, nothing is claimed
    hand_classes = [k for k in spec_mro if cdefs[k].get("hand") is not None]
    clobbered = {p["name"] for k in hand_classes for p in cdefs[k]["hand"] if owner(p["name"]) != k}
    accepted = [a for a in managed if a != ovf and is_init(a)]
    nonconf_names = [n for n in kw if n in managed and n not in accepted]
    unknown = [n for n in kw if n not in managed]

    must_raise = []
    or_value_error = []
    if len(pos) > (1 if key else 0):
        must_raise.append("too many positional arguments")
    if pos and key and key in kw:
        must_raise.append("key given twice")
    given = dict((n, v) for n, v in kw.items() if n in accepted)
    if key and pos and len(pos) == 1 and key not in kw:
        given[key] = pos[0]
    readings = set()
    defaults = {}
    for a in accepted:
        v, rd = nearest_default(a)
        defaults[a] = v
        if rd:
            readings.add((a, rd))
    if key and key not in given and defaults.get(key) is None and key in accepted:
        must_raise.append("key required (no default) and not given")
    if (unknown or nonconf_names) and not ovf:
        must_raise.append("unknown keyword without overflow attribute")

    # expected values, routed through hand-written owners
    exp = {}
    for a in accepted:
        v = given.get(a, defaults[a])
        k = owner(a)
        hand = cdefs[k].get("hand") if k else None
        alt = None
        if hand is not None and k != k0:
            v = given.get(a, nearest_default(a, upto=k)[0])
            if v is None and a not in given and defaults[a] is not None:
                # the owner re-annotates `a` without a default and a class further along the MRO still assigns one:
                # that class-level default is "the nearest default along the MRO" as well (the generated constructor
                # hands it to the hand-written one); the property text does not say which of the two wins
                alt = defaults[a]
            p = [p for p in hand if p["name"] == a]
            if not p:
                if a in given or defaults[a] is not None:
                    must_raise.append(f"{k}.__init__ does not accept {a}")
                continue
            p = p[0]
            if v is None:
                v = p["default"]
                if v is None:
                    must_raise.append(f"{k}.__init__ requires {a}")
                    continue
            if p["f"] == 1:
                if not isinstance(v, int):
                    must_raise.append("a + 1 on a non-int")
                    continue
                v = v + 1
            elif p["f"] == 2:
                v = 100
        if v is not None:
            if case["types"][a] == "ints" and v == "":
                v = []  # an empty string is an empty iterable
            if not conforms(case["types"][a], v):
                must_raise.append(f"non-conforming value for {a}")
                if case["types"][a] == "ints":
                    or_value_error.append(a)  # a collection rejects a foreign item with ValueError
                continue
        exp[a] = [None] if v is None else prepared(a, v)
        if alt is not None and conforms(case["types"][a], alt):
            exp[a] = list(exp[a]) + [x for x in prepared(a, alt) if x not in exp[a]]
    # a hand-written parent constructor only receives the attributes it owns: a required parameter that
    # nothing supplies makes Python raise TypeError
    for k in spec_mro[1:]:
        for p in cdefs[k].get("hand") or []:
            supplied = owner(p["name"]) == k and p["name"] in accepted and (
                p["name"] in given or nearest_default(p["name"], upto=k)[0] is not None)
            if p["default"] is None and not supplied:
                must_raise.append(f"{k}.__init__ requires {p['name']}")

    if must_raise:
        if err is None:
            viol.append(f"construction succeeded, expected TypeError ({'; '.join(must_raise)})")
        elif err != "TypeError" and not (err == "ValueError" and or_value_error):
            viol.append(f"raised {err}, expected TypeError ({'; '.join(must_raise)})")
        return viol
    if err is not None:
        viol.append(f"raised {err}: keywords {sorted(kw)} pos {pos} are all acceptable (key={key}, overflow={ovf})")
        return viol

    # --- state -------------------------------------------------------------
    for a in accepted:
        got = inst.__dict__.get(a, MISSING)
        if got is MISSING:
            got = getattr(type(inst), a, MISSING)
        got = None if got is MISSING else got
        if a in [r[0] for r in readings] and a not in given:
            continue  # accepted reading: either value
        if a in clobbered:
            continue
        if got not in exp.get(a, [None]):
            why = "prepared keyword value" if a in given else "nearest default along the MRO"
            viol.append(f"{a} == {got!r}, expected {why}: one of {exp.get(a)!r}")
    for a in managed:
        if a == ovf or a in accepted or a in clobbered:
            continue
        # init=False attribute: not assigned by the constructor; reads as the class-level default
        if a in inst.__dict__:
            viol.append(f"init=False attribute {a} was assigned by the constructor")
        got = getattr(type(inst), a, MISSING)
        got = None if got is MISSING else got
        if got != class_level(a):
            viol.append(f"init=False attribute {a} reads {got!r}, class-level default is {class_level(a)!r}")
    if ovf:
        want = {n: kw[n] for n in unknown + nonconf_names}
        got = inst.__dict__.get(ovf, MISSING)
        if got != want:
            viol.append(f"overflow attribute {ovf} == {got!r}, unknown keywords are {want!r}")
    # --- counters ----------------------------------------------------------
    post_cls = next((k for k in mro if cdefs[k].get("post")), None)
    n_post = [t for t in trace if t.startswith("post ")]
    if post_cls:
        if n_post != [f"post {post_cls}"]:
            viol.append(f"__post_init__ events {n_post}, expected exactly one run of {post_cls}.__post_init__")
        elif trace[-1] != f"post {post_cls}":
            viol.append("__post_init__ did not run last")
        else:
            snap = posts[0]
            final = {a: v for a, v in inst.__dict__.items() if a in managed}
            if {a: v for a, v in snap.items() if a in managed} != final:
                viol.append(f"__post_init__ saw {snap}, final state {final}")
    elif n_post:
        viol.append(f"unexpected __post_init__ events {n_post}")
    owners = {owner(a) for a in accepted if exp.get(a, [None]) != [None]}
    for k in spec_mro[1:]:
        n = trace.count(f"ctor {k}")
        if k in owners and n != 1:
            viol.append(f"constructor of owner {k} ran {n} times")
        elif n > 1:
            viol.append(f"constructor of {k} ran {n} times")
    if trace.count(f"ctor {k0}") != 1:
        viol.append(f"constructor of {k0} ran {trace.count('ctor ' + k0)} times")
    for a in managed:
        n = sum(1 for t in trace if t.startswith(f"set {a}=") or t == f"set {a}")
        if n > 1 and not hand_classes:
            viol.append(f"attribute {a} assigned {n} times")
    return viol


def oracle(case):
    try:
        ns = build(case)
    except Exception as e:  # noqa: BLE001
        return [f"class construction raised {type(e).__name__}: {e}"]
    if case.get("dump_first"):
        for c in case["classes"]:  # the history "every class of the family was inspected (bootstrapped) first"
            getattr(ns[c["name"]], "__spec_class__", None)
    viol = []
    observed = []
    for i, call in enumerate(case["calls"]):
        vs, obs = oracle_call_obs(case, ns, call)
        observed.append(obs)
        if vs and py_wf(case, ns, call["cls"])[0]:
            # the theorems cover this call (wfCall holds) and still the property fails: model, WF or oracle is wrong
            vs = ["[covered by wfCall] " + v for v in vs]
        for v in vs:
            viol.append(f"call#{i} {call['cls']}(pos={call['pos']}, kw={call['kw']}): {v}")
        if len(viol) > 6:
            break
    if not viol:
        viol.extend(history_check(case, observed))
    return viol


def history_check(case, observed):
    """What the constructor of a class assigns is a function of what the class's hierarchy SPECIFIES, not of which
    other classes of the family happened to be used (bootstrapped, instantiated) earlier in the process: every call
    of the history is repeated in a fresh copy of the same class family in which ONLY the target class is ever used
    (so nothing but the class and its ancestors is bootstrapped), and must give the same outcome."""
    viol = []
    by_cls = {}
    for i, call in enumerate(case["calls"]):
        if i < len(observed) and observed[i] is not None:
            by_cls.setdefault(call["cls"], []).append(i)
    if len(by_cls) < 2 and not case.get("dump_first"):
        return viol  # a single class was ever used: the history IS the solo family
    for cls, idxs in by_cls.items():
        solo = build(case)
        for i in idxs:
            call = case["calls"][i]
            inst, err, _, _ = run_call(solo, case, call)
            got = (err, show_state(case, inst) if inst is not None else "")
            if got != observed[i]:
                used = sorted({c["cls"] for c in case["calls"][:i]} - {cls}) + (["<all classes inspected>"] if case.get("dump_first") else [])
                viol.append(
                    f"history call#{i} {cls}(pos={call['pos']}, kw={call['kw']}): outcome {observed[i]} after {used} were used, "
                    f"but {got} in a fresh copy of the class family in which only {cls} is ever used")
                break
        if len(viol) > 3:
            break
    return viol


# ---------------------------------------------------------------------------
# generation
# ---------------------------------------------------------------------------

# falsy values (0, "", []) on purpose: a truthiness test in place of `is not MISSING` must show
# values >= 100 and the string "mm" are the ones a preparer changes (each preparer function differently)
CONF = {"int": [5, 7, 103, 250, 0], "str": ["u", "v", "", "mm"], "any": [[1, 2], 9, "w", [], 0, 150, "mm"], "dict": [9, "w", [1, 2]],
        "ints": [[1, 2], [301, 7], [], [150], [3, 250, 101], ""]}
NONCONF = {"int": ["bad", [1]], "str": [3, [2]], "any": [], "dict": [], "ints": [5, "mm", 0]}
DEFAULTS = {"int": [1, 2, 3, 44, 0, 0], "str": ["x", "y", "", ""], "any": [[4], 6, [7, 8], [], 0],
            "ints": [[4], [7, 8], [], [1]]}

SHAPES = [
    # (name, bases, spec)
    [("S", [], True)],
    [("S", [], True), ("P", ["S"], False)],
    [("A", [], True), ("C", ["A"], True)],
    [("A", [], True), ("C", ["A"], True), ("D", ["C"], False)],
    [("A", [], True), ("B", ["A"], True), ("C", ["B"], True)],
    [("A", [], True), ("B", [], True), ("C", ["A", "B"], True)],
    [("A", [], True), ("B", [], True), ("C", ["A", "B"], True), ("D", ["C"], False)],
    [("A", [], True), ("P", ["A"], False), ("C", ["P"], True)],
    [("R", [], True), ("A", ["R"], True), ("B", ["R"], True), ("C", ["A", "B"], True)],
    [("M", [], False), ("S", ["M"], True)],
    [("A", [], True), ("P", ["A"], False), ("Q", ["P"], False)],
    [("A", [], True), ("M", [], False), ("C", ["A", "M"], True)],
    # siblings that are never joined (one parent's Attr objects are shared by both)
    [("R", [], True), ("A", ["R"], True), ("B", ["R"], True)],
    [("R", [], True), ("A", ["R"], True), ("B", ["R"], True), ("D", ["A"], False)],
    [("R", [], True), ("A", ["R"], True), ("C", ["A"], True), ("B", ["R"], True)],
]


def c3_mro(name, bases_of):
    def merge(seqs):
        res = []
        seqs = [list(s) for s in seqs if s]
        while seqs:
            for s in seqs:
                h = s[0]
                if not any(h in t[1:] for t in seqs):
                    break
            else:
                raise TypeError("inconsistent MRO")
            res.append(h)
            seqs = [[x for x in t if x != h] for t in seqs]
            seqs = [t for t in seqs if t]
        return res

    bs = bases_of[name]
    return [name] + merge([c3_mro(b, bases_of) for b in bs] + [list(bs)])


def gen_decl(rng, name, ty, *, allow_noninit=True, annotated=True):
    r = rng.random()
    d = {"name": name, "ann": annotated, "kind": "none", "default": None, "factory": None, "init": True}
    if not annotated:
        d["kind"] = "lit"
        d["default"] = rng.choice(DEFAULTS[ty])
        return d
    if r < 0.22:
        return d
    if r < 0.52:
        d["kind"] = "lit"
        d["default"] = rng.choice(DEFAULTS[ty])
        return d
    d["kind"] = "attr" if rng.random() < 0.7 else "field"
    r2 = rng.random()
    if r2 < 0.45:
        d["default"] = rng.choice(DEFAULTS[ty])
    elif r2 < 0.85:
        d["factory"] = rng.choice(DEFAULTS[ty])
    if allow_noninit and rng.random() < 0.25:
        d["init"] = False
    return d


def gen_hierarchy(rng, shape=None):
    shape = shape if shape is not None else rng.choice(SHAPES)
    bases_of = {n: b for n, b, _ in shape}
    classes = []
    inherited = {}  # class -> names visible as managed attributes
    used_key = rng.random() < 0.45
    used_ovf = rng.random() < 0.35
    hand_ok = rng.random() < 0.4
    # decorator arguments (key, overflow) are inherited from the FIRST spec class of the MRO only, so only
    # classes on the primary chain (following bases[0] up from the last spec class) introduce them
    primary = []
    spec_names = [n for n, _, sp in shape if sp]
    cur = spec_names[-1] if spec_names else None
    while cur is not None:
        primary.append(cur)
        cur = bases_of[cur][0] if bases_of[cur] else None
    for idx, (name, bases, spec) in enumerate(shape):
        mro = c3_mro(name, bases_of)
        inh = []
        for b in bases:
            for a in inherited.get(b, []):
                if a not in inh:
                    inh.append(a)
        c = {"name": name, "bases": list(bases), "mro": mro, "spec": spec, "eager": rng.random() < 0.3,
             "key": "?", "ovf": "?", "decls": [], "hand": None, "post": False}
        names_here = []
        if spec:
            fresh = [a for a in ATTR_POOL if a not in inh]
            rng.shuffle(fresh)
            n_new = rng.randint(0, min(3, len(fresh))) if inh else rng.randint(1, min(3, len(fresh)))
            new = sorted(fresh[:n_new])
            redecl = [a for a in inh if a not in ("k", "opts") and rng.random() < 0.25]
            redef = [a for a in inh if a not in redecl and a not in ("opts",) and rng.random() < 0.25]
            # re-declared through Attr(...)/field(...) WITHOUT repeating the annotation: the subclass's own options win
            reattr = [a for a in inh if a not in redecl and a not in redef and a not in ("k", "opts") and rng.random() < 0.25]
            order = new + redecl
            rng.shuffle(order)
            for a in order:
                c["decls"].append(gen_decl(rng, a, TYPES[a]))
            for a in redef:
                c["decls"].append(gen_decl(rng, a, TYPES[a], annotated=False))
            for a in reattr:
                d = gen_decl(rng, a, TYPES[a])
                if d["kind"] in ("none", "lit"):
                    d["kind"] = rng.choice(["attr", "field"])
                    if d["default"] is None and rng.random() < 0.7:
                        d["default"] = rng.choice(DEFAULTS[TYPES[a]])
                d["ann"] = False
                d["init"] = rng.random() < 0.5 if (d["default"] is not None or d["factory"] is not None) else True
                c["decls"].append(d)
            on_primary = name in primary
            if on_primary and used_key and "k" not in inh and rng.random() < 0.6:
                c["key"] = "k"
                c["decls"].insert(rng.randint(0, len(c["decls"])), gen_decl(rng, "k", "str", allow_noninit=False))
            elif "k" in inh and rng.random() < 0.12:
                c["key"] = "-"
            if on_primary and used_ovf and "opts" not in inh and rng.random() < 0.6:
                c["ovf"] = "opts"
                if rng.random() < 0.4:
                    c["decls"].append({"name": "opts", "ann": True, "kind": "none", "default": None, "factory": None, "init": True})
            elif "opts" in inh and rng.random() < 0.1:
                c["ovf"] = "-"
            c["post"] = rng.random() < 0.4
            own_ann = [d for d in c["decls"] if d["ann"] and d["name"] not in ("k", "opts") and d.get("init", True)]
            if hand_ok and own_ann and "k" not in inh and c["key"] == "?" and c["ovf"] == "?" and "opts" not in inh and rng.random() < 0.5:
                c["hand"] = []
                for d in own_ann:
                    ty = TYPES[d["name"]]
                    dflt = None if rng.random() < 0.15 else rng.choice(DEFAULTS[ty])
                    f = rng.choice([0, 0, 1, 2]) if ty == "int" else 0
                    c["hand"].append({"name": d["name"], "default": dflt, "f": f})
                c["hand"].sort(key=lambda p: p["default"] is not None)  # required parameters first
            names_here = [d["name"] for d in c["decls"] if d["ann"]]
            if c["ovf"] not in ("?", "-") and c["ovf"] not in names_here:
                names_here.append(c["ovf"])
        else:
            for a in inh:
                if a not in ("opts",) and rng.random() < 0.3:
                    c["decls"].append(gen_decl(rng, a, TYPES[a], annotated=False))
            if not inh and rng.random() < 0.7:
                # plain base: class-level values that a spec subclass may pick up as defaults
                for a in rng.sample(ATTR_POOL, rng.randint(1, 2)):
                    c["decls"].append(gen_decl(rng, a, TYPES[a], annotated=False))
            # a plain class may define / override __post_init__: a plain base hands it down to spec subclasses,
            # a plain subclass of a spec class overrides the inherited hook (looked up on type(self))
            c["post"] = rng.random() < 0.35
        inherited[name] = inh + [a for a in names_here if a not in inh]
        classes.append(c)
    gen_preparers(rng, classes, inherited)
    # `do_not_copy` (all attributes / some names): the one option a subclass can change for an inherited attribute
    # WITHOUT re-declaring it; bootstrap then works on a copy of the parent's Attr instead of the shared object. It does
    # not change what the constructor assigns (values are compared by equality), so the model does not see it.
    if rng.random() < 0.35:
        for c in classes:
            if c["spec"] and rng.random() < 0.4:
                names = [a for a in inherited.get(c["name"], []) if a != "opts"]
                c["dnc"] = True if (not names or rng.random() < 0.5) else sorted(rng.sample(names, min(len(names), rng.randint(1, 2))))
    return {"types": dict(TYPES), "classes": classes, "dump_first": rng.random() < 0.5}


def gen_preparers(rng, classes, inherited):
    """`_prepare_<attr>` / `_prepare_<item>` methods, per class (defaults are fixed points of every preparer function).
    A class may define one for an attribute it declares, for an inherited attribute it re-defaults / re-declares, AND
    for an inherited attribute its body does not mention at all (spec and plain classes alike); an override uses a
    function other than the one it shadows, so that which preparer is in force shows in the prepared value."""
    cdefs = {c["name"]: c for c in classes}
    for c in classes:
        c["pdefs"], c["idefs"] = {}, {}
    mode = rng.random()
    if mode < 0.35:
        return
    dense = mode > 0.8
    for c in classes:
        visible = list(inherited.get(c["name"], []))
        for b in c["mro"]:  # class-level names of plain bases that a later spec class may pick up
            for d in cdefs[b]["decls"]:
                if d["name"] not in visible:
                    visible.append(d["name"])
        own = {d["name"] for d in c["decls"]}
        for a in visible:
            if TYPES.get(a) not in ("int", "str", "any", "ints"):
                continue
            for item in ((False, True) if TYPES[a] == "ints" else (False,)):
                field = "idefs" if item else "pdefs"
                seen = next((cdefs[b][field][a] for b in c["mro"][1:] if a in cdefs[b].get(field, {})), 0)
                if a in own:
                    p = 0.45 if c["spec"] else 0.2
                else:
                    p = (0.3 if c["spec"] else 0.2) if (seen or dense) else 0.12
                if dense or item:
                    p = min(0.8, p * 1.6)
                if rng.random() < p:
                    c[field][a] = rng.choice([n for n in range(1, N_PREP + 1) if n != seen])


def call_names(case, cls):
    """(init-looking names, other managed names, overflow names, key) for building keyword sets."""
    cdefs = {c["name"]: c for c in case["classes"]}
    mro = cdefs[cls]["mro"]
    ann, hand = [], []
    for k in mro:
        if cdefs[k]["spec"]:
            for d in cdefs[k]["decls"]:
                if d["ann"] and d["name"] not in ann:
                    ann.append(d["name"])
    return ann


def gen_value(rng, ty, p_bad=0.08):
    if NONCONF[ty] and rng.random() < p_bad:
        return rng.choice(NONCONF[ty])
    return rng.choice(CONF[ty])


def gen_call(rng, case, cls, names=None, p_name=0.45):
    ann = call_names(case, cls)
    pool = list(ann)
    if names is None:
        names = [a for a in pool if rng.random() < p_name]
        if rng.random() < 0.25:
            names.append(rng.choice(UNKNOWN))
        if rng.random() < 0.06 and "opts" not in names:
            names.append("opts")
        if rng.random() < 0.05:
            names.append(rng.choice(ATTR_POOL))
        names = list(dict.fromkeys(names))
    kw = []
    pos = []
    for n in names:
        ty = case["types"].get(n, "int")
        kw.append([n, gen_value(rng, ty)])
    # key positional
    r = rng.random()
    if "k" in ann:
        if r < 0.4:
            kw = [p for p in kw if p[0] != "k"]
            pos = [gen_value(rng, "str")]
        elif r < 0.45:
            pos = [gen_value(rng, "str")]  # possibly together with k= : "multiple values"
    elif r < 0.04:
        pos = [5]
    rng.shuffle(kw)
    return {"cls": cls, "pos": pos, "kw": kw}


def gen_case(rng, tier, shape=None):
    case = gen_hierarchy(rng, shape)
    calls = []
    targets = [c["name"] for c in case["classes"] if any(
        cc["spec"] for cc in case["classes"] if cc["name"] in c["mro"])]
    ncalls = 4 if tier == "quick" else 8
    if not targets:
        targets = [case["classes"][-1]["name"]]
    # HISTORY. Spec classes bootstrap lazily, on first use, and share their parents' Attr objects: what a class's
    # constructor does must not depend on which other classes of the family were used before. Every target is used
    # for the first time in a generated order (parents first / leaf first / shuffled: each class is constructed BEFORE
    # and AFTER each subclass and each sibling was first used, across cases), with and without keywords; the very same
    # keyword calls are repeated at the end, after every class of the family has been used.
    order = rng.choice(["parents-first", "leaf-first", "shuffled"])
    first = list(targets)
    if order == "leaf-first":
        first.reverse()
    elif order == "shuffled":
        rng.shuffle(first)
    case["order"] = order
    firsts = {}
    for cls in first:
        firsts[cls] = gen_call(rng, case, cls, p_name=0.6)
        pair = [{"cls": cls, "pos": [], "kw": []}, firsts[cls]]
        if rng.random() < 0.5:
            pair.reverse()
        calls.extend(pair)
    leaf = targets[-1]
    if tier == "thorough":
        ann = call_names(case, leaf)
        names = ann + ["zz"]
        if len(names) <= 6:
            for r in range(len(names) + 1):
                for sub in itertools.combinations(names, r):
                    calls.append(gen_call(rng, case, leaf, names=list(sub)))
    for _ in range(ncalls):
        calls.append(gen_call(rng, case, rng.choice(targets) if rng.random() < 0.4 else leaf))
    echo = list(targets)
    rng.shuffle(echo)
    for cls in echo:
        if len(targets) > 1:
            calls.append({**firsts[cls], "kw": [list(p) for p in firsts[cls]["kw"]], "pos": list(firsts[cls]["pos"])})
    case["calls"] = calls
    return case


def gen_cases(tier, rng):
    if tier == "search":
        while True:
            yield gen_case(rng, "quick")
    n = 340 if tier == "quick" else 2200
    for i in range(n):
        shape = SHAPES[i % len(SHAPES)] if i < 8 * len(SHAPES) else None
        c = gen_case(rng, tier, shape)
        c["origin"] = "shape-sweep" if shape is not None else "random"
        yield c


def shrink(case, at=None):
    n_fixed = 1 + len(case["classes"])
    if at is not None and at >= n_fixed:
        i = at - n_fixed
        yield {**case, "calls": [case["calls"][i]]}
        yield {**case, "calls": case["calls"][: i + 1]}  # the history up to the disagreeing call
        for j in range(i):  # one earlier use of another class + the disagreeing call
            if case["calls"][j]["cls"] != case["calls"][i]["cls"]:
                yield {**case, "calls": [case["calls"][j], case["calls"][i]]}
    for i in range(len(case["calls"])):
        yield {**case, "calls": [case["calls"][i]]}


def nontrivial(case, real):
    keys = []
    n_fixed = 1 + len(case["classes"])
    metas = {c["name"]: real[1 + i] for i, c in enumerate(case["classes"]) if 1 + i < len(real)}
    for i, call in enumerate(case["calls"]):
        if n_fixed + i >= len(real):
            break
        out = real[n_fixed + i]
        head = out.split(" ;; ")[0]
        if " set " in out or ",set " in out or ";; set " in out or head.startswith("err"):
            kinds = tuple(sorted((n, type(v).__name__) for n, v in call["kw"]))
            keys.append((metas.get(call["cls"]), kinds, len(call["pos"]), head))
    return keys


def tags(case, real):
    t = [f"shape:{'-'.join(c['name'] + ('' if c['spec'] else '.plain') for c in case['classes'])}",
         f"origin:{case.get('origin', 'corpus')}", f"dump_first:{bool(case.get('dump_first'))}"]
    t.append(f"history:{case.get('order', 'corpus')}")
    cdefs = {c["name"]: c for c in case["classes"]}
    for c in case["classes"]:
        for field, label in (("pdefs", "prep"), ("idefs", "item-prep")):
            for a in (pdefs_of(c, case) if field == "pdefs" else idefs_of(c, case)):
                shadows = any(a in (pdefs_of(cdefs[b], case) if field == "pdefs" else idefs_of(cdefs[b], case)) for b in c["mro"][1:])
                how = "declared" if any(d["name"] == a and d["ann"] for d in c["decls"]) else (
                    "redefaulted" if any(d["name"] == a for d in c["decls"]) else "untouched")
                t.append(f"{label}:{'spec' if c['spec'] else 'plain'}-class:{how}{':override' if shadows else ''}")
        if c.get("hand") is not None:
            t.append("feature:hand-written-ctor")
        if c["key"] not in ("?", "-"):
            t.append("feature:key")
        if c["ovf"] not in ("?", "-"):
            t.append("feature:overflow")
        if c.get("post"):
            t.append("feature:post_init")
        if c.get("eager"):
            t.append("feature:eager-bootstrap")
        if c.get("dnc") not in (None, "?"):
            t.append("feature:do_not_copy")
        for d in c["decls"]:
            t.append(f"decl:{d['kind']}{'' if d['ann'] else '-unannotated'}{'' if d.get('init', True) else '-noninit'}"
                     f"{'-factory' if d.get('factory') is not None else ''}")
    n_fixed = 1 + len(case["classes"])
    dia, pk = _diamond_targets(case), _plain_key_targets(case)
    for i, call in enumerate(case["calls"]):
        if n_fixed + i < len(real):
            head = real[n_fixed + i].split(" ;; ")[0]
            t.append("outcome:" + head.replace(" ", ":"))
            if head.startswith("wf=0"):
                # why the theorems do not cover this call
                t.append("wf0:" + ("diamond-finding" if call["cls"] in dia else "plain-key-finding" if call["cls"] in pk
                                   else "reading-or-default-after-owner"))
        t.append(f"kw:{len(call['kw'])}")
        if call["pos"]:
            t.append("call:positional")
    return t


# ---------------------------------------------------------------------------
# open known findings (structural matchers)
# ---------------------------------------------------------------------------

import re as _re


def _diamond_targets(case):
    """Classes whose MRO contains a class X with two bases that share a spec ancestor, where the LATER base's
    side (classes of its MRO that the earlier base does not have) re-declares or re-defaults an attribute that
    a shared spec ancestor manages (KF-C09-diamond-second-parent)."""
    cdefs = {c["name"]: c for c in case["classes"]}
    bad = set()
    for x in case["classes"]:
        bs = x["bases"]
        for i in range(len(bs)):
            for j in range(i + 1, len(bs)):
                m1, m2 = cdefs[bs[i]]["mro"], cdefs[bs[j]]["mro"]
                shared = [k for k in m2 if k in m1 and cdefs[k]["spec"]]
                if not shared:
                    continue
                managed = {d["name"] for k in shared for d in cdefs[k]["decls"] if d["ann"]}
                later_only = [k for k in m2 if k not in m1]
                if any(d["name"] in managed for k in later_only for d in cdefs[k]["decls"]):
                    bad.add(x["name"])
    return {c["name"] for c in case["classes"] if any(k in bad for k in c["mro"])}


def _plain_key_targets(case):
    """Classes with a PLAIN class in their MRO that assigns a class attribute named like the key
    (KF-C09-plain-subclass-key-default): the static signature of the generated constructor does not see it."""
    cdefs = {c["name"]: c for c in case["classes"]}

    def key_of(k):
        v = cdefs[k]["key"]
        if v != "?":
            return None if v == "-" else v
        rest = [x for x in cdefs[k]["mro"][1:] if cdefs[x]["spec"]]
        return key_of(rest[0]) if rest else None

    out = set()
    for c in case["classes"]:
        spec = [k for k in c["mro"] if cdefs[k]["spec"]]
        if not spec:
            continue
        key = key_of(spec[0])
        plain = [k for k in c["mro"] if not cdefs[k]["spec"]]
        if key and any(d["name"] == key and d["kind"] != "none" for k in plain for d in cdefs[k]["decls"]):
            out.add(c["name"])
    return out


def _explained(case, entry):
    m = _re.match(r"call#(\d+) ", entry)
    if not m:
        return set()
    call = case["calls"][int(m.group(1))]
    out = set()
    if call["cls"] in _diamond_targets(case):
        out.add("diamond")
    if call["cls"] in _plain_key_targets(case) and "raised TypeError" in entry and not call["pos"] and not any(
            n == "k" for n, _ in call["kw"]):
        out.add("plainkey")
    return out


def _matcher(which):
    def match(case, violation):
        if not violation or violation == ["correspondence"]:
            return False
        ex = [_explained(case, v) for v in violation]
        return all(ex) and any(which in e for e in ex)

    return match


# ---------------------------------------------------------------------------
# extra: constructor keywords on classes with invalidated_by dependants (outside the Lean model's grammar; real code
# + the property text): every keyword given to the constructor must be what the instance holds afterwards, whatever
# else the constructor stores (fixed finding ec7fc83: storing the overflow attribute ran the invalidation of "*")
# ---------------------------------------------------------------------------


def extra(tier, rng):
    from typing import Any, Dict, List

    from spec_classes import Attr, spec_class, spec_property

    evaluations, violations, keys = 0, [], []
    for overflow in (None, "extra"):
        for star in ("*", ["x"], ["extra"], []):
            for inherit in (False, True):
                opts = {"init_overflow_attr": overflow} if overflow else {}

                @spec_class(bootstrap=True, **opts)
                class O:
                    x: int = 0
                    note: str = Attr(default="dflt", invalidated_by=star)
                    tags: List[int] = Attr(default_factory=list, invalidated_by=star)
                    label: str

                    @spec_property(cache=True, overridable=True, invalidated_by=star)
                    def label(self):
                        return f"x={self.x}"

                cls = O
                if inherit:

                    @spec_class(bootstrap=True)
                    class OS(O):
                        y: int = 1

                    cls = OS
                for kw in (
                    {"note": "abc"},
                    {"x": 1, "note": "abc"},
                    {"note": "abc", "x": 1},
                    {"tags": [1], "note": ""},
                    {"x": 0, "note": "", "tags": []},
                    {"label": "mine", "x": 2},
                    {"x": 2, "label": "mine"},
                ):
                    for extra_kw in ({}, {"foo": 3}, {"foo": [1], "bar": None}):
                        if extra_kw and not overflow:
                            continue
                        evaluations += 1
                        keys.append((overflow, str(star), inherit, tuple(kw), tuple(extra_kw)))
                        case = {"extra": "ctor-invalidation", "overflow": overflow, "invalidated_by": star, "subclass": inherit, "kw": {k: repr(v) for k, v in kw.items()}, "unknown": sorted(extra_kw)}
                        try:
                            o = cls(**kw, **extra_kw)
                        except Exception as e:  # noqa: BLE001
                            violations.append({"case": case, "violation": [f"{cls.__name__}(**{kw}, **{extra_kw}) raised {type(e).__name__}: {e}"]})
                            continue
                        bad = [f"{k}: given {v!r}, holds {getattr(o, k, '<missing>')!r}" for k, v in kw.items() if getattr(o, k, "<missing>") != v]
                        if overflow and getattr(o, overflow, None) != extra_kw:
                            bad.append(f"{overflow}: holds {getattr(o, overflow, None)!r}, expected exactly the unknown keywords {extra_kw!r}")
                        if bad:
                            violations.append({"case": case, "violation": [f"{cls.__name__}(**{kw}, **{extra_kw}): " + "; ".join(bad)]})
    return {"evaluations": evaluations, "nontrivial": keys, "violations": violations, "disagreements": [], "info": {"constructions_with_dependants": evaluations}}


KNOWN_MATCHERS = {
    "diamond_second_parent_default": _matcher("diamond"),
    "plain_subclass_key_default": _matcher("plainkey"),
}

WITNESS_DIAMOND = {
    "types": {"d": "any", "k": "str"}, "preps": [], "dump_first": False,
    "classes": [
        {"name": "R", "bases": [], "mro": ["R"], "spec": True, "eager": False, "key": "?", "ovf": "?", "hand": None, "post": False,
         "decls": [{"name": "d", "ann": True, "kind": "lit", "default": [7, 8], "factory": None, "init": True}]},
        {"name": "A", "bases": ["R"], "mro": ["A", "R"], "spec": True, "eager": False, "key": "?", "ovf": "?", "hand": None, "post": False, "decls": []},
        {"name": "B", "bases": ["R"], "mro": ["B", "R"], "spec": True, "eager": False, "key": "?", "ovf": "?", "hand": None, "post": False,
         "decls": [{"name": "d", "ann": True, "kind": "attr", "default": None, "factory": [1], "init": True}]},
        {"name": "C", "bases": ["A", "B"], "mro": ["C", "A", "B", "R"], "spec": True, "eager": False, "key": "?", "ovf": "?", "hand": None, "post": False, "decls": []},
    ],
    "calls": [{"cls": "C", "pos": [], "kw": []}],
}
WITNESS_PLAINKEY = {
    "types": {"b": "int", "k": "str"}, "preps": [], "dump_first": False,
    "classes": [
        {"name": "A", "bases": [], "mro": ["A"], "spec": True, "eager": False, "key": "k", "ovf": "?", "hand": None, "post": False,
         "decls": [{"name": "k", "ann": True, "kind": "none", "default": None, "factory": None, "init": True},
                   {"name": "b", "ann": True, "kind": "lit", "default": 3, "factory": None, "init": True}]},
        {"name": "D", "bases": ["A"], "mro": ["D", "A"], "spec": False, "eager": False, "key": "?", "ovf": "?", "hand": None, "post": False,
         "decls": [{"name": "k", "ann": False, "kind": "lit", "default": "y", "factory": None, "init": True}]},
    ],
    "calls": [{"cls": "D", "pos": [], "kw": []}],
}

MANIFEST_ENTRY = {
    "level_text": "Lean 4 proof about an executable model of SpecClassMetadata.for_class + spec_class.bootstrap + Attr.lookup_default_value + the generated __init__ signature + InitMethod.init (parents loop, own loop, overflow, __post_init__) and hand-written parent constructors: for class tables of any depth and width satisfying an explicit decidable well-formedness predicate, a successful construction leaves every init-enabled managed attribute equal to the keyword value prepared by the preparer (and, for a List[int] attribute, item preparer) the class bodies DECLARE for it (per-class _prepare_<attr>/_prepare_<item> methods; the one visible from the nearest class of the MRO that declares or re-defaults the attribute), else the nearest declared default along the MRO, else unset; the key may be passed positionally and is required iff it has no default; unknown keywords raise TypeError without an overflow attribute, which otherwise receives exactly them; every spec parent's constructor runs exactly once, every attribute is assigned at most once, and __post_init__ runs exactly once and last; metadata of a class is unaffected by classes bootstrapped later and a constructor call does the same whether or not further classes (subclasses, siblings) exist. The model is tied to /repo on every run: generated hierarchies of depth <= 3 are rendered to source, exec'd, and metadata, class dicts, resulting instance state, exception class and the event trace (constructor entries, mutate_attr entries, __post_init__) are compared line by line with the model, along generated HISTORIES (each class constructed before and after each subclass/sibling was first used; the history-free model and a fresh single-class copy of the family are the references).",
    "level_note": "Trusted: Lean kernel; axioms propext/Classical.choice/Quot.sound only; the hand-written model and the harness; CPython's C3 linearisation (MRO is an input). The theorems are about the model; bootstrapMeta is tied by the per-class metadata comparison and by re-checking the well-formedness predicate on every generated call. Readings: init=False attributes are not assigned by the constructor; an annotation-only re-declaration drops an inherited default_factory (dataclasses behaviour).",
    "technique": "Lean 4 proof over a hand-written model of bootstrap + constructor; differential correspondence on generated class hierarchies; independent MRO-walking oracle",
}
