"""
C10 — equality, copying and repr are coherent and total.

Correspondence between the real `spec_classes` (`__eq__`, `__deepcopy__`, the constructor `InitMethod.init`
across the inheritance chain, re-construction through it, `__repr__` of generated class families) and the
Lean Impl model `SpecVerif.C10` (Drivers/C10.lean), plus an
independent oracle: attribute-wise reference comparison written from the property text and the
equivalence-relation laws checked directly on the real results.
"""
import itertools
import re

PID = "C10"
LEAN_TARGETS = ["SpecVerif.Props.C10"]
AUDIT = [("SpecVerif.Props.C10", "SpecVerif.Props.C10")]
DRIVER = "Drivers/C10.lean"
REQUIRED_THEOREMS = [
    "SpecVerif.Props.C10." + n
    for n in (
        "eq_refl", "eq_symm", "eq_trans", "eq_iff", "differing_attr_noticed", "compare_false_ignored",
        "deepcopy_eq", "reconstruct_eq", "repr_total", "repr_lists_exactly",
        "construct_eq_spec", "construct_shows_passed", "construct_shows_default", "construct_passed_equal",
        "reconstruct_refines", "construct_shows_getter",
        "deepcopy_stored_eq", "stored_value_survives_copy", "pyEqC_closed", "selfref_unequal",
        "metaorder_is_declaration_order", "metaorder_keeps_inherited", "metaorder_body_order",
        "eq_outcome_values", "eq_outcome_true_iff", "eq_outcome_first_decides", "history_free",
        "eq_after_any_history", "repr_outcome_lists_exactly", "repr_outcome_total",
    )
]
RULE = (
    "case = a generated class family (keyed Child; base spec class S with 3-8 attributes drawn from "
    "int/str/float/Optional/Union/Literal/List/Dict/Set of scalars/nested Child/List,Dict,KeyedList,KeyedSet of Child/"
    "Any holding bound methods (own, foreign), functions, classes, modules; no default, immutable, mutable, "
    "default_factory, Attr(...), dataclasses.field; compare=False, repr=False, init=False, do_not_copy; key; preparer; "
    "invalidated_by; cached spec_property; attributes BACKED by a spec_property of the same name (cached / uncached, "
    "overridable or not, getter = a constant or another int attribute of the instance, with or without invalidated_by): "
    "not overridden, overridden through the constructor / setattr / with_<attr> (also with 0), memoised right after "
    "construction and then out of date or invalidated because the attribute the getter reads is assigned afterwards; "
    "spec subclass T(S), plain subclass P(S), second level U(T)/Q(T), a subclass "
    "re-declaring an attribute or re-assigning only its default; every kind with its falsy values (0, False, '', None, "
    "empty list/dict/set/KeyedList/KeyedSet) and truthy defaults; lazy/eager) "
    "rendered to source and exec'd, and a pool of instances (<= 14 quick, <= 40 thorough in the all-pairs matrix) reached "
    "through the constructor, by setattr, by with_<attr>, or a mix per attribute (+ del/re-set), including for one base "
    "state a single-position mutant for EVERY attribute position, for EVERY class of the family an all-falsy state "
    "reached through the constructor and its twin reached without it, the same "
    "values in every class of the family, missing values, extra __dict__ entries on one side, states that hold ANOTHER "
    "pool instance as a value (directly, in a list, in a dict), self-referential states (x.a = x, [x], {'k': x}: "
    "compared with themselves and, both ways, with every acyclic state of the matrix) and "
    "cycles closed through bound methods of OTHER pool instances (mutual subscription, ring of three, handlers in lists; "
    "repr and copy only). Evaluated: per state what getattr shows for its own __dict__ state and what a deep copy of it "
    "shows (taken before anything is read); ALL ordered pairs (==, !=), all triples (transitivity, on the real results), "
    "comparisons with history (a copy compared with its original, changed in place at one attribute, compared again), "
    "what cls(**kwargs) shows attribute by attribute for the keyword arguments of every state, "
    "deepcopy(x)==x, type(x)(**own values)==x, repr(x) / compact repr / repr of a parent holding x. "
    "Decorator options that NAME attributes: in the families the init-overflow attribute annotated in the class body at "
    "any position (its value reached through unknown keyword arguments / setattr / with_) and attributes named by "
    "attrs / attrs_typed (+ attrs_skip=[]) that the body annotates as well; plus `meta` cases: a small scope enumerated "
    "systematically (body a, _p, b, c; attrs x attrs_typed x attrs_skip x init_overflow_attr x key, frozen, eager; a "
    "subclass adding / re-annotating / naming inherited attributes: 3648 definitions, sampled per seed in the quick "
    "tier, all of them in the thorough tier) whose metadata order is compared with the model's `metaOrder` and whose "
    "repr / == / deepcopy / re-construction are judged against the declaration order. Histories with ABORTED "
    "operations (4 per case): on two fresh copies of a state (or of a state and its single-position mutant) an object "
    "whose == / repr / deepcopy raises is planted at a random attribute position (one side, both sides, the same object "
    "on both) or a property getter is made to raise; comparisons in both operand orders, reprs and copies are attempted "
    "(outcome: result or `raised`, compared with the model step by step); the earlier values are put back and the same "
    "two objects are compared again both ways, rendered and copied. Non-trivial = a pair "
    "that is equal without being the same object, or differs in a compared attribute; distinct = distinct "
    "(class table, abstract states, result)."
)
EXHAUSTIVE = {"quick": False, "thorough": False}
OPEN_STATEMENTS = [
    "two DIFFERENT cyclic values are outside the equality theorems (Python's == recurses on them as on plain lists), and "
    "so is deepcopy(x) == x for a cyclic x; a self-referential instance against a finite value is covered "
    "(selfref_unequal); only direct self-references (x.a = x, [x], {'k': x}) are expressible, not longer cycles "
    "through other instances; repr totality on cyclic values is the absence of a failing branch in the model + the "
    "per-run check that no repr form raises",
    "an absent __dict__ entry of a plain attribute shows the attribute's default (`dflt`); for default_factory attributes "
    "the class itself shows MISSING — such stored states (entry deleted behind the library's back) are not generated; "
    "a copy of a NESTED instance is modelled without looking at the nested class's do_not_copy (equality is unaffected); "
    "a do_not_copy attribute that holds the instance itself shares it with the copy (the copy refers to the original): "
    "not expressible with selfRef, those `dcs` lines are skipped",
    "bound methods nested inside containers are outside deepcopy_eq (Python compares them by __self__ identity)",
    "the model's input states are abstract states observed on the real instances; of the ways a state is reached only "
    "the constructor is modelled here (setattr, with_<attr>, del: C01-C09); __post_init__ and overridden parent "
    "constructors are outside the constructor model; the init-overflow attribute is modelled as an attribute that is not "
    "a keyword argument and shows {} on a fresh instance (collecting unknown keyword arguments is not modelled: such "
    "states are observed)",
    "metadata order (`metaOrder`): attribute NAMES only — types, flags and owners of attributes named by a decorator "
    "option are compared with the declarations by the harness, not derived by the model; `attrs` given as a set (order "
    "arbitrary) is outside",
    "outcomes with raising values (`eqO`): such objects occur directly as attribute values (not inside containers or "
    "nested instances); which operand's method runs first follows CPython's rule for operands of unrelated classes; "
    "process-level state keyed by id() that survives the objects (id reuse) is not searched for systematically",
]
ASSUMPTIONS = [
    "declaration order = inherited attributes in the parent's order, then the attributes annotated in the class body in "
    "body order (also when a decorator option names them), then the attributes only the decorator names in the order "
    "attrs, attrs_typed, init_overflow_attr, then the key when nothing else declares it (the decorator's own documentation: "
    "'starting with those defined as annotations on the class, and then those manually annotated')",
    "values are finite trees: equality theorems exclude cyclic values (DESIGN 10.5); repr includes self-references",
    "two bound-method attribute values are equal iff they wrap the same function (DESIGN 10.6); bound methods occur "
    "only directly as attribute values, not inside containers",
    "'compatible classes' = the same class under CPython's == dispatch (DESIGN 10.5)",
    "single inheritance inside a family: a subclass's attribute list extends its parent's (declaration order, DESIGN 10.13)",
    "attribute reads do not raise (no ill-typed spec_property getters, DESIGN 10.14); no NaN; floats are never integral",
    "getters of property-backed attributes are deterministic functions of the instance: a constant or `self.<plain int "
    "attribute>`; reading a cached property stores the result in __dict__ (not modelled as a step: the model is given the "
    "__dict__ state observed before and the view observed after); a non-overridable property counts as not init-enabled",
    "re-construction is claimed for instances whose compared attributes are init-enabled with a value or still show "
    "what a fresh instance shows",
    "constructor theorems: every init-enabled attribute is owned by the class whose constructor runs or by one of its "
    "spec ancestors (`ownersOk`, evaluated by the driver on the class of every state and compared as part of `wf=`); an "
    "explicitly passed MISSING counts as not passed; bool values are represented as the ints they equal",
]

FN_IDS = {"S.meth": 0, "S.meth2": 1, "Helper.meth": 2, "Helper.other": 3}


# ---------------------------------------------------------------------------
# attribute pool
# ---------------------------------------------------------------------------

# name -> (annotation, value descriptors, allowed default descriptors)
POOL = {
    # every kind has its FALSY member(s) (0, "", False, None, empty containers) among the values and a truthy
    # default among the defaults, so that "a falsy value that differs from the default" occurs for each
    "i": ("int", [0, 1, 2], [0, 1]),
    "b": ("bool", [False, True], [False, True]),
    "s": ("str", ["", "a", "b"], ["", "a"]),
    "f": ("float", [{"f": 0}, {"f": 1}], [{"f": 0}]),
    "o": ("Optional[int]", [None, 0, 1, 2], [None, 1]),
    "u": ("Union[int, str]", [1, "a", 2, 0, ""], [1, "a"]),
    "lt": ('Literal["x", "y"]', ["x", "y"], ["x"]),
    "li": ("List[int]", [[], [1], [1, 2], [0]], [[], [1]]),
    "di": ("Dict[str, int]", [{"d": {}}, {"d": {"a": 1}}, {"d": {"a": 1, "b": 2}}, {"d": {"": 0}}], [{"d": {}}, {"d": {"a": 1}}]),
    "se": ("Set[int]", [{"set": []}, {"set": [1]}, {"set": [1, 2]}, {"set": [0]}], [{"set": []}, {"set": [1]}]),
    "ch": ("Optional[Child]", [None, {"child": ["c", 0]}, {"child": ["c", 1]}, {"child": [None, 0]}], [None]),
    "chs": ("List[Child]", [[], [{"child": ["a", 0]}], [{"child": ["a", 0]}, {"child": ["b", 1]}], [{"child": ["a", 1]}],
                            [{"child": [None, 0]}]], [[]]),
    "chd": ("Dict[str, Child]", [{"d": {}}, {"d": {"a": {"child": ["a", 0]}}}, {"d": {"a": {"child": ["a", 1]}}},
                                 {"d": {"a": {"child": [None, 1]}}}], [{"d": {}}]),
    "kl": ("KeyedList[Child, str]", [[], [{"child": ["a", 0]}], [{"child": ["a", 1]}], [{"child": ["a", 0]}, {"child": ["b", 0]}]], [[]]),
    "ks": ("KeyedSet[Child, str]", [{"set": []}, {"set": [{"child": ["a", 0]}]}, {"set": [{"child": ["a", 1]}]}], [{"set": []}]),
    "cb": ("Any", [None, {"bself": "meth"}, {"bself": "meth2"}, {"bound": [0, "meth"]}, {"bound": [1, "meth"]},
                   {"bound": [0, "other"]}, {"fn": 0}, {"fn": 1}, {"cls": 0}, {"cls": 1}, {"mod": 0}, {"mod": 1}, 3, 0, []],
           [None, 3]),
    "cb2": ("Any", [None, {"bself": "meth"}, {"bound": [0, "meth"]}, {"fn": 0}, {"mod": 0}, "a", ""], [None, "a"]),
    "p": ("str", ["a", "b", ""], ["a"]),   # has a preparer (str.lower)
    "iv": ("int", [0, 1], [0, 1]),         # invalidated_by another attribute
    # attributes backed by a `spec_property` of the same name (annotation + decorated getter in the class body): what
    # `getattr` shows is the entry in `__dict__` (an assigned override, or the memoised getter result) when there is one
    # and the property honours it, else the getter's result (a constant, or another attribute of the instance)
    "pc": ("int", [0, 1, 2, 7], []),       # spec_property(cache=True), overridable
    "pu": ("int", [0, 1, 2, 7], []),       # spec_property (not cached), overridable
    "pn": ("int", [], []),                 # spec_property(cache=True, overridable=False): never assigned
    # the init-overflow attribute (`@spec_class(init_overflow_attr="ov")`), ANNOTATED in the class body at whatever
    # position: the constructor stores the keyword arguments it does not know there ({} when there are none); it is
    # not a keyword argument itself
    "ov": ("Dict[str, Any]", [{"d": {}}, {"d": {"zz": 1}}, {"d": {"zz": 1, "yy": "a"}}, {"d": {"yy": 0}}], []),
}
PROPS = {"pc": {"cache": True, "ov": True}, "pu": {"cache": False, "ov": True}, "pn": {"cache": True, "ov": False}}
PROP_SOURCES = ("i", "iv")                 # plain int attributes a getter may return (`return self.i`)
MUTABLE = {"li", "di", "se", "chs", "chd", "kl", "ks"}
DNC_OK = MUTABLE | {"cb", "cb2"}
BASE_ATTRS = ["i", "b", "s", "f", "o", "u", "lt", "li", "di", "se", "ch", "chs", "chd", "kl", "ks", "cb", "cb2", "p", "iv",
              "pc", "pu", "pn", "ov"]


def setup():
    import spec_classes  # noqa: F401


# ---------------------------------------------------------------------------
# rendering the class family
# ---------------------------------------------------------------------------


def py_value(v):
    """Source text of a DEFAULT value descriptor (defaults are scalars / empty containers / small literals)."""
    if v is None:
        return "None"
    if isinstance(v, (int, str)):
        return repr(v)
    if isinstance(v, list):
        return "[" + ", ".join(py_value(x) for x in v) + "]"
    if "f" in v:
        return repr(v["f"] + 0.5)
    if "d" in v:
        return "{" + ", ".join(f"{k!r}: {py_value(x)}" for k, x in v["d"].items()) + "}"
    if "set" in v:
        return "set()" if not v["set"] else "{" + ", ".join(py_value(x) for x in v["set"]) + "}"
    raise ValueError(v)


def render_attr(a):
    ann = POOL[a["name"]][0]
    kind = a["kind"]
    opts = []
    if not a["compare"]:
        opts.append("compare=False")
    if not a["repr"]:
        opts.append("repr=False")
    if not a["init"]:
        opts.append("init=False")
    if a["name"] == "iv":
        opts.append(f"invalidated_by=[{a['inv']!r}]")
    if kind == "none" and not opts:
        return f"{a['name']}: {ann}"
    if kind == "lit" and not opts:
        return f"{a['name']}: {ann} = {py_value(a['default'])}"
    fn = "dataclasses.field" if kind == "field" and a["name"] != "iv" else "Attr"
    args = []
    if kind in ("lit", "attr", "field") and a.get("default", "NODEFAULT") != "NODEFAULT" and not a.get("factory"):
        args.append("default=" + py_value(a["default"]))
    if a.get("factory"):
        args.append("default_factory=lambda: " + py_value(a["default"]))
    return f"{a['name']}: {ann} = {fn}({', '.join(args + opts)})"


def render_getter(a):
    """The `spec_property` that backs attribute `a` (declared right after the annotation)."""
    p = a["prop"]
    opts = []
    if p["cache"]:
        opts.append("cache=True")
    if not p["ov"]:
        opts.append("overridable=False")
    if p.get("inv"):
        opts.append(f"invalidated_by=[{p['inv']!r}]")
    kind, what = p["getter"]
    expr = repr(what) if kind == "const" else f"self.{what}"
    dec = "@spec_property(%s)" % ", ".join(opts) if opts else "@spec_property"
    # (`x.__dict__["_boom_<attr>"] = True` makes the getter raise: histories with aborted operations)
    return (f"{dec}\ndef {a['name']}(self):\n    if self.__dict__.get('_boom_{a['name']}'): raise ValueError('boom')\n"
            f"    return {expr}")


def passable(a):
    """The constructor accepts (and the instance can store) a value for the attribute."""
    return bool(a["init"]) and not (a.get("prop") and not a["prop"]["ov"]) and not a.get("overflow")


BOOM_SRC = '''
class Boom:
    """An object outside the value grammar whose own methods raise (kind: e = ==/!=, r = repr, c = deepcopy)."""
    def __init__(self, kind): self.kind = kind
    def __eq__(self, other):
        if "e" in self.kind: raise ValueError("boom")
        return self is other
    def __ne__(self, other):
        if "e" in self.kind: raise ValueError("boom")
        return self is not other
    __hash__ = object.__hash__
    def __repr__(self):
        if "r" in self.kind: raise ValueError("boom")
        return "<boom>"
    def __deepcopy__(self, memo):
        if "c" in self.kind: raise ValueError("boom")
        return Boom(self.kind)
'''


def deco_args(c):
    """Decorator options of a class of the family that NAME attributes: the overflow attribute (annotated in the body at
    whatever position), and `attrs` / `attrs_typed` (+ `attrs_skip=[]`: "in addition to the annotated ones") naming
    attributes that the body annotates as well."""
    args = []
    d = c.get("deco") or {}
    if d.get("attrs"):
        args.append("attrs=[" + ", ".join(repr(n) for n in d["attrs"]) + "]")
    if d.get("typed"):
        args.append("attrs_typed={" + ", ".join(f"{n!r}: {POOL[n][0]}" for n in d["typed"]) + "}")
    if d.get("attrs") or d.get("typed"):
        args.append("attrs_skip=[]")
    if any(a.get("overflow") for a in c["attrs"]):
        args.append("init_overflow_attr='ov'")
    return args


def render(case):
    fam = case["family"]
    out = [
        "@spec_class(key='name')\nclass Child:\n    name: str\n    v: int = 0\n",
        "class Helper:\n    def meth(self): pass\n    def other(self): pass\n",
        "HELPERS = [Helper(), Helper()]\ndef fn0(): pass\ndef fn1(): pass\nFUNCS = [fn0, fn1]\n"
        "CLASSES = [int, str]\nMODULES = [math, os]\n",
        BOOM_SRC,
    ]
    for c in fam["classes"]:
        lines = []
        if c["spec"]:
            args = []
            if c.get("key"):
                args.append(f"key={c['key']!r}")
            if c.get("dnc"):
                args.append("do_not_copy=[" + ", ".join(repr(x) for x in c["dnc"]) + "]")
            if c.get("eager"):
                args.append("bootstrap=True")
            args += deco_args(c)
            lines.append("@spec_class(%s)" % ", ".join(args) if args else "@spec_class")
        lines.append(f"class {c['name']}({c['base']}):" if c["base"] else f"class {c['name']}:")
        body = [render_attr(a) for a in c["attrs"]]
        body += [render_getter(a) for a in c["attrs"] if a.get("prop")]
        # an inherited attribute's DEFAULT re-assigned in the subclass body, without annotation (spec or plain class)
        body += [f"{o['name']} = {py_value(o['default'])}" for o in c.get("overrides", [])]
        if not c["base"]:
            body += ["def meth(self): pass", "def meth2(self): pass",
                     "@spec_property(cache=True)\ndef cp(self): return 5"]
        if any(a["name"] == "p" for a in c["attrs"]):
            body.append("def _prepare_p(self, v): return v.lower() if isinstance(v, str) else v")
        if not body:
            body = ["pass"]
        lines += ["    " + ln for b in body for ln in b.split("\n")]
        out.append("\n".join(lines) + "\n")
    return "\n".join(out)


def build(case):
    import dataclasses
    import math
    import os
    from typing import Any, Dict, List, Literal, Optional, Set, Union

    from spec_classes import Attr, spec_class, spec_property
    from spec_classes.types import KeyedList, KeyedSet

    ns = dict(spec_class=spec_class, Attr=Attr, spec_property=spec_property, dataclasses=dataclasses, math=math, os=os,
              Any=Any, Dict=Dict, List=List, Literal=Literal, Optional=Optional, Set=Set, Union=Union,
              KeyedList=KeyedList, KeyedSet=KeyedSet, __name__="c10case")
    exec(compile(render(case), "<c10case>", "exec"), ns)
    return ns


# ---------------------------------------------------------------------------
# class table (from the DECLARATIONS, not from the real metadata)
# ---------------------------------------------------------------------------


def class_ids(case):
    return {"Child": 0, **{c["name"]: i + 1 for i, c in enumerate(case["family"]["classes"])}}


def attrs_of(case, cname):
    """Metadata order by the declaration-order convention: inherited first, then own."""
    if cname == "Child":
        return [{"name": "name", "compare": True, "repr": True, "init": True, "dnc": False, "kind": "none", "owner": "Child"},
                {"name": "v", "compare": True, "repr": True, "init": True, "dnc": False, "kind": "lit", "default": 0,
                 "owner": "Child"}]
    cdefs = {c["name"]: c for c in case["family"]["classes"]}
    c = cdefs[cname]
    inh = attrs_of(case, c["base"]) if c["base"] else []
    out = [dict(a) for a in inh]
    for a in c["attrs"] if c["spec"] else []:
        a = dict(a)
        a["owner"] = cname          # `Attr.owner`: the spec class that annotated (declared / re-declared) it
        names = [x["name"] for x in out]
        if a["name"] in names:
            out[names.index(a["name"])] = a
        else:
            out.append(a)
    for o in c.get("overrides", []):
        # only the default changes (for instances of this class and below); owner and flags stay
        a = next(x for x in out if x["name"] == o["name"])
        a.update(kind="lit", default=o["default"], factory=False)
    if c["spec"]:
        # `do_not_copy` is per decorator: a spec subclass re-evaluates it for inherited attributes too
        for a in out:
            a["dnc"] = a["name"] in (c.get("dnc") or [])
    return out


def fresh_view(a):
    """What a fresh instance shows for the attribute when nothing is passed (value descriptor or MISSING)."""
    if a.get("overflow"):
        return {"d": {}}       # the constructor always stores the (possibly empty) dict of unknown keyword arguments
    if a["kind"] == "none" or a.get("default", "NODEFAULT") == "NODEFAULT":
        return "MISSING"
    if a.get("factory") and not a["init"]:
        return "MISSING"       # init=False attributes are not assigned; a factory leaves the sentinel
    return a["default"]


def key_of(case, cname):
    if cname == "Child":
        return "name"
    cdefs = {c["name"]: c for c in case["family"]["classes"]}
    c = cdefs[cname]
    while c is not None:
        if c["spec"] and c.get("key"):
            return c["key"]
        c = cdefs.get(c["base"])
    return None


# ---------------------------------------------------------------------------
# values: descriptors -> real objects, real objects -> tokens
# ---------------------------------------------------------------------------


def make_value(ns, v, holder=None):
    if v is None or isinstance(v, (int, str)):
        return v
    if isinstance(v, list):
        return [make_value(ns, x, holder) for x in v]
    if "f" in v:
        return v["f"] + 0.5
    if "d" in v:
        return {k: make_value(ns, x, holder) for k, x in v["d"].items()}
    if "set" in v:
        return [make_value(ns, x, holder) for x in v["set"]] if any(isinstance(x, dict) for x in v["set"]) else set(v["set"])
    if "child" in v:
        name, val = v["child"]
        ch = ns["Child"](name if name is not None else "tmp", v=val)
        if name is None:
            del ch.name
        return ch
    if "bself" in v:
        return getattr(holder, v["bself"])
    if "bound" in v:
        return getattr(ns["HELPERS"][v["bound"][0]], v["bound"][1])
    if "fn" in v:
        return ns["FUNCS"][v["fn"]]
    if "cls" in v:
        return ns["CLASSES"][v["cls"]]
    if "mod" in v:
        return ns["MODULES"][v["mod"]]
    if "self" in v:
        return holder
    if "selflist" in v:
        return [holder]
    if "selfdict" in v:
        return {"k": holder}
    raise ValueError(v)


class Tokens:
    """Canonical prefix-notation tokens of real values (object identities renumbered by first appearance)."""

    def __init__(self, case, ns, copies_as_c=False, known=None):
        self.case, self.ns = case, ns
        self.ids = class_ids(case)
        self.owners = {}
        self.copies_as_c = copies_as_c    # `new` lines: an owner that is not one of HELPERS is "a copy"
        self.known = known or {}          # ... unless it is an owner the original referred to (shared, not copied)

    def owner_id(self, obj):
        for i, h in enumerate(self.ns["HELPERS"]):
            if obj is h:
                return i
        if id(obj) in self.known:
            return self.known[id(obj)]
        if self.copies_as_c:
            return "c"
        return self.owners.setdefault(id(obj), 100 + len(self.owners))

    def val(self, v, holder):
        import inspect
        import types

        from spec_classes import MISSING

        if v is MISSING:
            return ["_"]
        if v is None:
            return ["N"]
        if v is holder:
            return ["SELF"]
        if isinstance(v, int):      # bool included: `True == 1`, `False == 0` under Python's ==
            return [f"i{int(v)}"]
        if isinstance(v, float):
            return [f"f{int(v - 0.5)}"]
        if isinstance(v, str):
            return ["s" + v]
        if inspect.ismethod(v):
            fn = FN_IDS[v.__func__.__qualname__]
            if v.__self__ is holder:
                return ["B", "-", str(fn)]
            return ["B", str(self.owner_id(v.__self__)), str(fn)]
        if isinstance(v, types.FunctionType):
            return ["F", str(self.ns["FUNCS"].index(v))]
        if isinstance(v, type) and v in self.ns["CLASSES"]:
            return ["C", str(self.ns["CLASSES"].index(v))]
        if isinstance(v, types.ModuleType):
            return ["M", str(self.ns["MODULES"].index(v))]
        if hasattr(type(v), "__spec_class__"):
            return self.inst(v)
        if isinstance(v, dict):
            out = ["D", str(len(v))]
            for k in sorted(v):
                out += self.val(k, holder) + self.val(v[k], holder)
            return out
        if isinstance(v, (set, frozenset)) or type(v).__name__ == "KeyedSet":
            items = sorted((self.val(x, holder) for x in v), key=lambda t: " ".join(t))
            return ["S", str(len(items))] + [t for it in items for t in it]
        if isinstance(v, list) or type(v).__name__ == "KeyedList":
            out = ["L", str(len(v))]
            for x in v:
                out += self.val(x, holder)
            return out
        raise ValueError(f"no token for {v!r}")

    def inst(self, x):
        from spec_classes import MISSING

        cname = type(x).__name__
        attrs = attrs_of(self.case, cname)
        out = ["I", str(self.ids[cname]), str(len(attrs))]
        for a in attrs:
            out += self.val(getattr(x, a["name"], MISSING), x)
        return out

    def stored(self, x):
        """The instance's OWN state: per attribute the entry in `__dict__` (`_` = none). Reads nothing through
        `getattr`, so no property getter runs and no cache is filled."""
        from spec_classes import MISSING

        cname = type(x).__name__
        attrs = attrs_of(self.case, cname)
        out = ["I", str(self.ids[cname]), str(len(attrs))]
        for a in attrs:
            out += self.val(x.__dict__.get(a["name"], MISSING), x)
        return out


def _slots(self, x):
    """Per attribute what `getattr(x, attr, MISSING)` gives, for the histories: a value, `X<kind>:<identity>` for an
    object whose methods raise, `G` when the read itself raises."""
    from spec_classes import MISSING

    cname = type(x).__name__
    attrs = attrs_of(self.case, cname)
    if not hasattr(self, "booms"):
        self.booms = {}
    out = [str(self.ids[cname]), str(len(attrs))]
    for a in attrs:
        try:
            v = getattr(x, a["name"], MISSING)
        except ValueError:
            out.append("G")
            continue
        if type(v).__name__ == "Boom":
            out.append(f"X{v.kind}:{self.booms.setdefault(id(v), len(self.booms))}")
        else:
            out += self.val(v, x)
    return out


Tokens.slots = _slots


def desc_tokens(case, v):
    """Tokens of a default-value descriptor (for the class table)."""
    if v == "MISSING":
        return ["_"]
    if v is None:
        return ["N"]
    if isinstance(v, int):
        return [f"i{int(v)}"]
    if isinstance(v, str):
        return ["s" + v]
    if isinstance(v, list):
        return ["L", str(len(v))] + [t for x in v for t in desc_tokens(case, x)]
    if "f" in v:
        return [f"f{v['f']}"]
    if "d" in v:
        return ["D", str(len(v["d"]))] + [t for k in sorted(v["d"]) for t in (["s" + k] + desc_tokens(case, v["d"][k]))]
    if "set" in v:
        return ["S", str(len(v["set"]))] + [t for x in v["set"] for t in desc_tokens(case, x)]
    raise ValueError(v)


# ---------------------------------------------------------------------------
# states
# ---------------------------------------------------------------------------


# value kinds that need the finished instance (or the other instances of the pool): never keyword arguments
LATE_KINDS = ("bself", "self", "selflist", "selfdict", "peer", "peerlist", "inst", "instlist", "instdict")
SELF_KINDS = ("self", "selflist", "selfdict")


def ctor_kwargs(case, st):
    """Names of the attributes of `st` that CAN go through the constructor (init-enabled, value exists up front)."""
    attrs = {a["name"]: a for a in attrs_of(case, st["cls"])}
    return [name for name, v in st["vals"].items()
            if passable(attrs[name]) and not (isinstance(v, dict) and any(k in v for k in LATE_KINDS))]


def make_state(case, ns, st):
    """Build the instance described by `st` on the real code. `st["via"]` says HOW each init-enabled attribute gets
    its value: "ctor" (keyword argument of the constructor; the default), "set" (`setattr` on the constructed
    instance) or "with" (`x = x.with_<attr>(value)`); the key attribute always goes through the constructor."""
    cls = ns[st["cls"]]
    via = st.get("via", {})
    key = key_of(case, st["cls"])
    through_ctor = ctor_kwargs(case, st)
    kwargs, later = {}, []
    for name, v in st["vals"].items():
        how = via.get(name, "ctor") if name != key else "ctor"
        if name == "ov" and how == "ctor":
            kwargs.update(make_value(ns, v))     # the overflow attribute collects the UNKNOWN keyword arguments
        elif name in through_ctor and how == "ctor":
            kwargs[name] = make_value(ns, v)
        else:
            later.append((name, v, how if name in through_ctor else "set"))
    x = cls(**kwargs)
    for op in st.get("pre", []):
        if op[0] == "touch":      # read the attribute right after construction: a cached property memoises NOW
            getattr(x, op[1], None)
    for name, v, how in later:
        if how == "with":
            x = getattr(x, "with_" + name)(make_value(ns, v, x))
        else:
            setattr(x, name, make_value(ns, v, x))
    for op in st.get("ops", []):
        if op[0] == "del":
            try:
                delattr(x, op[1])
            except AttributeError:
                pass
        elif op[0] == "reset":     # delete and assign again: moves the entry to the end of __dict__
            if op[1] in x.__dict__:
                x.__dict__[op[1]] = x.__dict__.pop(op[1])
        elif op[0] == "tmp":
            x.__dict__["_tmp"] = 1
        elif op[0] == "cp":
            x.cp  # fills the cache of the spec_property in __dict__
        elif op[0] == "touch":
            getattr(x, op[1], None)
    return x


def build_states(case, ns):
    """All instances of the pool; references to OTHER pool instances (bound methods of peers: mutual
    subscriptions, rings) are wired up once every instance exists."""
    insts = [make_state(case, ns, {**st, "vals": {k: v for k, v in st["vals"].items() if not _is_peer(v)}})
             for st in case["states"]]
    for x, st in zip(insts, case["states"]):
        for name, v in st["vals"].items():
            if _is_peer(v):
                if "peer" in v:
                    x.__dict__[name] = getattr(insts[v["peer"][0]], v["peer"][1])
                elif "peerlist" in v:
                    x.__dict__[name] = [getattr(insts[i], f) for i, f in v["peerlist"]]
                elif "inst" in v:          # another (earlier, acyclic) instance of the pool as the value itself
                    x.__dict__[name] = insts[v["inst"]]
                elif "instlist" in v:
                    x.__dict__[name] = [insts[v["instlist"]]]
                else:
                    x.__dict__[name] = {"k": insts[v["instdict"]]}
    return insts


def _is_peer(v):
    return isinstance(v, dict) and any(k in v for k in ("peer", "peerlist", "inst", "instlist", "instdict"))


def eq_states(case):
    """States that take part in the ALL-PAIRS comparison."""
    return [i for i, st in enumerate(case["states"]) if not st.get("cyclic") and not st.get("solo") and not st.get("selfcyc")]


def selfcyc_states(case):
    """Self-referential states (`x.a = x`, `x.a = [x]`, `x.a = {"k": x}`): compared with themselves and — both ways —
    with every ACYCLIC state of the matrix (Python's == terminates when one operand is a finite tree); two different
    cyclic states are outside (the comparison recurses, as it does for plain lists)."""
    return [i for i, st in enumerate(case["states"]) if st.get("selfcyc")]


def solo_states(case):
    """States outside the all-pairs matrix (it is quadratic): compared with their twin only; deepcopy,
    re-construction, constructor and repr are checked on them like on every other state."""
    return [i for i, st in enumerate(case["states"]) if st.get("solo") and not st.get("cyclic")]


def eq_pairs(case):
    eqs = eq_states(case)
    pairs = [(i, j) for i in eqs for j in eqs]
    for i in selfcyc_states(case):
        pairs.append((i, i))
        for j in eqs:
            pairs += [(i, j), (j, i)]
    for i, st in enumerate(case["states"]):
        if st.get("twin_of") is not None:
            pairs += [(st["twin_of"], i), (i, st["twin_of"])]
    return pairs


_cache = {}


def lines(case):
    """(model lines, real lines) — the model's input states are the abstract states OBSERVED on the real
    instances (`getattr(x, a, MISSING)` per attribute), so both streams are produced together."""
    key = id(case)
    if key in _cache and _cache[key][0] is case:
        return _cache[key][1]
    if len(_cache) > 400:
        _cache.clear()
    if "meta" in case:
        import c10_meta

        _cache[key] = (case, c10_meta.lines(case))
        return _cache[key][1]
    ns = build(case)
    tk = Tokens(case, ns)
    ids = class_ids(case)
    ml, rl = ["reset"], ["ok"]
    for cname in ["Child"] + [c["name"] for c in case["family"]["classes"]]:
        attrs = attrs_of(case, cname)
        cdefs = {c["name"]: c for c in case["family"]["classes"]}
        parent = "-" if cname == "Child" or not cdefs[cname]["base"] else str(ids[cdefs[cname]["base"]])
        k = key_of(case, cname)
        kidx = "-" if k is None else str([a["name"] for a in attrs].index(k))
        spec = "1" if cname == "Child" or cdefs[cname]["spec"] else "0"
        toks = ["cls", str(ids[cname]), cname, parent, kidx, spec, str(len(attrs))]
        for a in attrs:
            # (`init` for the model = accepted by the constructor AND storable: not a non-overridable property)
            flags = "".join("1" if f else "0" for f in (a["compare"], a["repr"], passable(a), a["dnc"]))
            spec_tok = f"{a['name']}:{flags}:{ids[a['owner']]}"
            if a.get("prop"):
                # property-backed: p<cache><overridable>, getter c<int> (constant) / s<index of the attribute returned>
                g = a["prop"]["getter"]
                gt = f"c{g[1]}" if g[0] == "const" else f"s{[x['name'] for x in attrs].index(g[1])}"
                spec_tok += f":p{int(a['prop']['cache'])}{int(a['prop']['ov'])}:{gt}"
            toks += [spec_tok] + desc_tokens(case, fresh_view(a))
        ml.append(" ".join(toks))
        # the real metadata must list the same attributes in the same order with the same flags and owners, and be
        # the class's own exactly when the class is a spec class
        real = ns[cname].__spec_class__.attrs
        same = [(n, s.compare, s.repr, s.init, s.do_not_copy, s.owner.__name__) for n, s in real.items()] == [
            (a["name"], a["compare"], a["repr"], a["init"], a["dnc"], a["owner"]) for a in attrs]
        same = same and (("__spec_class__" in ns[cname].__dict__) == (spec == "1"))
        rl.append("ok" if same else "metadata-differs " + ",".join(real))
        if cname != "Child" and cdefs[cname]["spec"]:
            # the ORDER of the metadata as `spec_class.bootstrap` assembles it (`metaOrder`), from the declarations:
            # inherited names, the annotations of the class body, what the decorator options name
            c = cdefs[cname]
            d = c.get("deco") or {}
            ovf = "ov" if any(a.get("overflow") for a in c["attrs"]) else "-"
            toks = ["meta", c.get("key") or "-", ovf, "1" if (d.get("attrs") or d.get("typed")) else "0", "|"]
            toks += [a["name"] for a in (attrs_of(case, c["base"]) if c["base"] else [])] + ["|"]
            toks += [a["name"] for a in c["attrs"]] + ["|"] + list(d.get("attrs") or []) + ["|"] + list(d.get("typed") or []) + ["|"]
            ml.append(" ".join(toks))
            rl.append(" ".join(real) if real else "-")
    insts = build_states(case, ns)
    import copy

    def guarded(f):
        try:
            return f()
        except RecursionError:
            return "raised RecursionError"
        except Exception as e:  # noqa: BLE001
            return f"raised {type(e).__name__}"

    # the instances' OWN state (their `__dict__` entries) and what a deep copy of it shows, taken BEFORE anything is
    # read through getattr (reading fills the caches of cached properties): the model derives what getattr shows from
    # the stored state (`showS`: entry, else class-level default, else the property's getter) and copies entry by entry
    before = []
    for x in insts:
        sto = tk.stored(x)
        before.append((sto, guarded(lambda: " ".join(
            Tokens(case, ns, copies_as_c=True, known=dict(tk.owners)).inst(copy.deepcopy(x))))))
    for i, x in enumerate(insts):
        ml.append(" ".join(["sto", str(i)] + before[i][0]))
        rl.append(guarded(lambda: " ".join(tk.inst(x))))
        # (a do_not_copy attribute that holds the instance itself / a container with it: the copy SHARES the value and
        # so refers to the ORIGINAL — not expressible with `selfRef`, which denotes the enclosing instance; not modelled)
        dnc = {a["name"] for a in attrs_of(case, case["states"][i]["cls"]) if a["dnc"]}
        if any(n in dnc and isinstance(v, dict) and any(k in v for k in SELF_KINDS + ("peerlist",))
               for n, v in case["states"][i]["vals"].items()):
            continue
        ml.append(f"dcs {i}")
        rl.append(before[i][1])
    for i, x in enumerate(insts):
        ml.append(" ".join(["st", str(i)] + tk.inst(x)))
        # scope flags of the theorems: instances are well formed by construction; the self-referential
        # states are the only ones outside the equality/copy theorems
        # (a cycle closed through bound methods of peers is not visible in the abstract tree; such states are
        # nevertheless only used for repr)
        rl.append(f"ok wf=1 acyclic={0 if outside_scope(case['states'][i]) else 1}")
    eqs = eq_states(case)
    for i, j in eq_pairs(case):
        ml.append(f"eq {i} {j}")
        rl.append(guarded(lambda: "1" if insts[i] == insts[j] else "0"))
    eqs = eqs + solo_states(case)
    # the constructor itself: what `cls(**kwargs)` shows, for the keyword arguments of every state of the pool
    # (whatever way the pool instance itself was reached)
    tkc = Tokens(case, ns, copies_as_c=True)
    for i in eqs:
        st = case["states"][i]
        names = ctor_kwargs(case, st)
        attrs = attrs_of(case, st["cls"])
        kw = {n: make_value(ns, st["vals"][n]) for n in names}
        toks = ["new", str(ids[st["cls"]]), str(len(attrs))]
        for a in attrs:
            if a["name"] not in kw:
                toks += ["_"]
            elif isinstance(st["vals"][a["name"]], dict) and "set" in st["vals"][a["name"]]:
                # (a KeyedSet value is handed over as a list of its items; the attribute holds them as a set)
                toks += tkc.val(set(kw[a["name"]]) if isinstance(kw[a["name"]], list) else kw[a["name"]], None)
            else:
                toks += tkc.val(kw[a["name"]], None)
        ml.append(" ".join(toks))
        rl.append(guarded(lambda: " ".join(tkc.inst(ns[st["cls"]](**kw)))))
    for i in eqs:
        ml.append(f"dc {i}")
        rl.append(guarded(lambda: "1" if copy.deepcopy(insts[i]) == insts[i] else "0"))
        ml.append(f"dca {i}")
        rl.append(guarded(lambda: "1" if all(
            ref_attr_eq(case, copy.deepcopy(insts[i]), insts[i], a["name"])
            for a in attrs_of(case, type(insts[i]).__name__)) else "0"))
    for i in eqs:
        ml.append(f"rc {i}")

        def rc():
            ok, same = reconstruct_real(case, ns, insts[i])
            return f"{int(ok)} {int(same)}"

        rl.append(guarded(rc))
    for i, x in enumerate(insts):
        ml.append(f"repr {i}")
        rl.append(repr_skeleton(case, x))
    # comparisons with history (the changed copy is a state of its own for the model: its observed abstract state)
    nxt = len(insts)
    for b, j, aname in history_mutants(case):
        try:
            c = history_copy(ns, insts, case, b, j, aname)
            toks = tk.inst(c)
        except Exception:  # noqa: BLE001  (the oracle reports what is wrong with copying / assigning)
            continue
        ml.append(" ".join(["st", str(nxt)] + toks))
        rl.append("ok wf=1 acyclic=1")
        for l, r in ((nxt, b), (b, nxt)):
            ml.append(f"eq {l} {r}")
            rl.append(guarded(lambda: "1" if (c if l == nxt else insts[b]) == (insts[b] if l == nxt else c) else "0"))
        nxt += 1
    # histories with ABORTED operations: a value whose ==, repr or deepcopy raises (or a getter that raises) is planted,
    # comparisons / reprs / copies are attempted (some raise), the value is restored, and the same objects are compared
    # again, both ways. One model step per line (`runH`); the model is told the attribute values observed on the objects
    # after every change and nothing else: no operation leaves anything behind
    for sc in poison_scenarios(case):
        tkh = Tokens(case, ns)

        def on_event(step, out, objs, changed):
            for w in changed:
                ml.append(" ".join(["hst", str(w)] + tkh.slots(objs[w])))
                rl.append("ok")
            if step[0] == "cmp":
                ml.append(f"heq {step[1]} {step[2]}")
                rl.append(out if isinstance(out, str) else ("1" if out else "0"))
            elif step[0] == "repr":
                ml.append(f"hrepr {step[1]}")
                rl.append(out)
            elif step[0] == "copy":
                ml.append(f"hcopy {step[1]}")
                rl.append(out)

        try:
            run_poison(case, ns, insts, sc, on_event)
        except Exception as e:  # noqa: BLE001  (setting the scene failed; the oracle reports it)
            ml.append("hcopy 99")
            rl.append(f"scenario raised {type(e).__name__}")
    _cache[key] = (case, (ml, rl))
    return ml, rl


def outside_scope(st):
    """Self-referential states and bound methods inside containers are outside the equality/copy theorems."""
    return any(isinstance(v, dict) and any(k in v for k in SELF_KINDS + ("peerlist",)) for v in st["vals"].values())


def history_mutants(case):
    """(base, mutant) pairs for the comparisons with HISTORY: a copy of the base is compared with the base (equal),
    then changed in place at one attribute into the mutant's value and compared again — an answer remembered from
    the first comparison (per object, per pair) would be stale."""
    eqs = set(eq_states(case))
    out = []
    for j, st in enumerate(case["states"]):
        mu = st.get("mutant_of")
        if mu is None or j not in eqs or mu[0] not in eqs or outside_scope(st) or outside_scope(case["states"][mu[0]]):
            continue
        v = st["vals"].get(mu[1])
        a = next(a for a in attrs_of(case, st["cls"]) if a["name"] == mu[1])
        if mu[1] not in st["vals"] or not passable(a) or mu[1] == key_of(case, st["cls"]):
            continue
        if isinstance(v, dict) and any(k in v for k in LATE_KINDS if k != "bself"):
            continue
        out.append((mu[0], j, mu[1]))
    return out[:4]


def history_copy(ns, insts, case, b, j, aname):
    """The copy of state `b` after: compared with `b` both ways, then `aname` set in place to state j's value."""
    import copy

    c = copy.deepcopy(insts[b])
    c == insts[b], insts[b] == c, c != insts[b]
    setattr(c, aname, make_value(ns, case["states"][j]["vals"][aname], c))
    return c


def poison_scenarios(case):
    """Histories with aborted operations; a deterministic function of the case (so that a replay re-runs them).
    A scenario works on two fresh copies: object 0 = a copy of state `b`, object 1 = a copy of `j` (= `b`, or a
    single-position mutant of it). Steps: ["plant", who, attr, kind, boom] (`x.__dict__[attr] = Boom(kind)`; the same
    `boom` number = the same object), ["flag", who, attr] (the getter of the property-backed attribute raises from now
    on), ["cmp", l, r], ["repr", who], ["copy", who], ["heal"] (every planted value replaced by what was there before,
    getters restored)."""
    import random

    if "meta" in case or "family" not in case:
        return []
    if "histories" in case:
        return case["histories"]          # (corpus cases spell their histories out)
    sts = case["states"]
    eqs = [i for i in eq_states(case) if not outside_scope(sts[i])]
    if not eqs:
        return []
    rnd = random.Random(len(sts) * 7919 + sum(len(c["attrs"]) * (k + 1) for k, c in enumerate(case["family"]["classes"])))
    out = []
    for n in range(4):
        b = rnd.choice(eqs)
        attrs = attrs_of(case, sts[b]["cls"])
        mutants = [j for j in eqs if (sts[j].get("mutant_of") or [None])[0] == b and sts[j]["cls"] == sts[b]["cls"]]
        j = rnd.choice(mutants) if mutants and rnd.random() < 0.65 else b
        plain = [a["name"] for a in attrs if not a.get("prop")]
        props = [a["name"] for a in attrs if a.get("prop")]
        steps, nb = [], 0
        for _ in range(rnd.choice([1, 1, 2]) if plain else 0):
            name = rnd.choice(plain)
            kind = rnd.choice(["e", "e", "e", "e", "er", "ec", "erc", "r", "c", "rc", ""])
            who = rnd.choice(["0", "0", "1", "both", "shared"])
            if who in ("0", "1"):
                steps.append(["plant", int(who), name, kind, nb])
                nb += 1
            elif who == "both":
                steps += [["plant", 0, name, kind, nb], ["plant", 1, name, rnd.choice([kind, "e", ""]), nb + 1]]
                nb += 2
            else:
                steps += [["plant", 0, name, kind, nb], ["plant", 1, name, kind, nb]]
                nb += 1
        if props and (not plain or rnd.random() < 0.5):
            steps.append(["flag", rnd.choice([0, 1]), rnd.choice(props)])
        ops = [["cmp", 0, 1], ["cmp", 1, 0], ["cmp", 0, 0], ["repr", 0], ["repr", 1], ["copy", 0], ["copy", 1]]
        # the comparison of the pair comes first in most histories (it is what a later comparison could remember)
        first = [["cmp", 0, 1], ["cmp", 1, 0]] if rnd.random() < 0.5 else [["cmp", 0, 1]] if rnd.random() < 0.6 else []
        rnd.shuffle(first)
        steps += first + [rnd.choice(ops) for _ in range(rnd.randint(1, 4))]
        steps.append(["heal"])
        steps += [["cmp", 0, 1], ["cmp", 1, 0], ["repr", 0], ["copy", 0], ["cmp", 0, 1], ["cmp", 0, 0]]
        out.append({"b": b, "j": j, "steps": steps})
    return out


def run_poison(case, ns, insts, sc, on_event):
    """Runs one history on fresh copies of the two pool states. `on_event(step, outcome, objs, changed)` is called for
    every step AFTER it ran (`changed` = the objects whose attribute values it changed; before the first step: both)."""
    import copy

    objs = [copy.deepcopy(insts[sc["b"]]), copy.deepcopy(insts[sc["j"]])]
    before = [dict(o.__dict__) for o in objs]
    booms, planted = {}, set()

    def attempt(f):
        try:
            return f()
        except ValueError:
            return "raised"
        except RecursionError:
            return "raised RecursionError"
        except Exception as e:  # noqa: BLE001
            return f"raised {type(e).__name__}"

    on_event(["start"], None, objs, [0, 1])
    for step in sc["steps"]:
        op, out, changed = step[0], None, []
        if op == "plant":
            _, w, name, kind, bid = step
            objs[w].__dict__[name] = booms.setdefault(bid, ns["Boom"](kind))
            planted.add((w, name))
            changed = [w]
        elif op == "flag":
            objs[step[1]].__dict__["_boom_" + step[2]] = True
            planted.add((step[1], "_boom_" + step[2]))
            changed = [step[1]]
        elif op == "heal":
            for w, name in sorted(planted):
                if name in before[w]:
                    objs[w].__dict__[name] = before[w][name]
                else:
                    objs[w].__dict__.pop(name, None)
            planted.clear()
            changed = [0, 1]
        elif op == "cmp":
            out = attempt(lambda: bool(objs[step[1]] == objs[step[2]]))
        elif op == "repr":
            out = repr_skeleton(case, objs[step[1]])
            if out.startswith("raised ValueError"):
                out = "raised"
        elif op == "copy":
            out = attempt(lambda: "ok" if copy.deepcopy(objs[step[1]]) is not None else "none")
        on_event(step, out, objs, changed)
    return objs


def slot_view(case, x):
    """Per attribute: ("G",) the read raises / ("X", boom) / ("V", value)."""
    from spec_classes import MISSING

    out = {}
    for a in attrs_of(case, type(x).__name__):
        try:
            v = getattr(x, a["name"], MISSING)
        except ValueError:
            out[a["name"]] = ("G",)
            continue
        out[a["name"]] = ("X", v) if type(v).__name__ == "Boom" else ("V", v)
    return out


def judge_outcome(case, x, y, out):
    """The property text on ONE comparison, also with values that raise: True only when every compare-enabled attribute
    is equal; False only when one differs; an exception only when some compared attribute has a value / getter that raises."""
    import inspect

    vx, vy = slot_view(case, x), slot_view(case, y)
    cause, differs = [], []
    for a in attrs_of(case, type(x).__name__):
        if not a["compare"]:
            continue
        l, r = vx[a["name"]], vy[a["name"]]
        if l[0] == "G" or r[0] == "G":
            cause.append(a["name"])
        elif l[0] == "X" or r[0] == "X":
            if l[0] == r[0] and l[1] is r[1]:
                continue
            differs.append(a["name"])           # distinct objects that compare by identity (or not at all)
            if (l[0] == "X" and "e" in l[1].kind) or (r[0] == "X" and "e" in r[1].kind):
                cause.append(a["name"])
        else:
            v, w = l[1], r[1]
            same = (v.__func__ is w.__func__) if inspect.ismethod(v) and inspect.ismethod(w) else ref_val_eq(case, v, w)
            if not same:
                differs.append(a["name"])
    if out is True and (differs or cause):
        return f"is True although the compare-enabled attribute(s) {sorted(set(differs + cause))} differ / cannot be compared"
    if out is False and not differs and type(x) is type(y):
        return "is False although every compare-enabled attribute is equal"
    if isinstance(out, str) and not cause:
        return f"{out} although no compared attribute has a value or getter that raises"
    return None


def describe_scenario(case, sc):
    names = {0: f"c0 = deepcopy(state {sc['b']})", 1: f"c1 = deepcopy(state {sc['j']})"}
    words = []
    for st in sc["steps"]:
        if st[0] == "plant":
            words.append(f"c{st[1]}.{st[2]} = Boom#{st[4]}({st[3]!r})")
        elif st[0] == "flag":
            words.append(f"getter of c{st[1]}.{st[2]} raises")
        elif st[0] == "cmp":
            words.append(f"c{st[1]} == c{st[2]}")
        elif st[0] in ("repr", "copy"):
            words.append(f"{'repr' if st[0] == 'repr' else 'deepcopy'}(c{st[1]})")
        else:
            words.append("[planted values replaced by the earlier ones]")
    return f"{names[0]}, {names[1]}; " + "; ".join(words)


def oracle_histories(case, ns, insts):
    import copy

    viol = []
    for sc in poison_scenarios(case):
        healed = [False]
        log = []

        def on_event(step, out, objs, changed):
            if step[0] == "heal":
                healed[0] = True
            if step[0] == "cmp":
                log.append(f"c{step[1]} == c{step[2]} -> {out}")
                bad = judge_outcome(case, objs[step[1]], objs[step[2]], out)
                if bad:
                    viol.append(f"history [{describe_scenario(case, sc)}] {show_state(case, sc['b'])} "
                                f"{show_state(case, sc['j']) if sc['j'] != sc['b'] else ''}: after {log[:-1]}, "
                                f"c{step[1]} == c{step[2]} {bad}")
                if healed[0]:
                    try:
                        if (objs[step[1]] != objs[step[2]]) == out:
                            viol.append(f"history [{describe_scenario(case, sc)}]: != is not the negation of == afterwards")
                    except Exception as e:  # noqa: BLE001
                        viol.append(f"history [{describe_scenario(case, sc)}]: != raised {type(e).__name__} afterwards")
            elif step[0] == "repr":
                log.append(f"repr(c{step[1]}) -> {out.split(' ')[0]}")
                view = slot_view(case, objs[step[1]])
                shown = [a["name"] for a in attrs_of(case, type(objs[step[1]]).__name__) if a["repr"]]
                cause = any(view[n][0] == "G" or (view[n][0] == "X" and "r" in view[n][1].kind) for n in shown)
                if out.startswith(("raised", "unparsable")):
                    if not cause:
                        viol.append(f"history [{describe_scenario(case, sc)}]: after {log[:-1]}, repr(c{step[1]}) {out}")
                elif [p.split("=")[0] for p in out.split(" ")[1:]] != shown:
                    viol.append(f"history [{describe_scenario(case, sc)}]: after {log[:-1]}, repr(c{step[1]}) lists "
                                f"{[p.split('=')[0] for p in out.split(' ')[1:]]}, repr-enabled attributes are {shown}")
            elif step[0] == "copy":
                log.append(f"deepcopy(c{step[1]}) -> {out}")
                view = slot_view(case, objs[step[1]])
                if out != "ok" and not any(v[0] == "X" and "c" in v[1].kind for v in view.values()):
                    viol.append(f"history [{describe_scenario(case, sc)}]: after {log[:-1]}, deepcopy(c{step[1]}) {out}")
                if out == "ok" and healed[0]:
                    x = objs[step[1]]
                    c = copy.deepcopy(x)
                    if c is x or type(c) is not type(x):
                        viol.append(f"history [{describe_scenario(case, sc)}]: after {log[:-1]}, deepcopy(c{step[1]}) is "
                                    f"not a new instance")
                    if not (c == x) or not ref_eq(case, c, x):
                        viol.append(f"history [{describe_scenario(case, sc)}]: after {log[:-1]}, deepcopy(c{step[1]}) != c{step[1]}")

        try:
            run_poison(case, ns, insts, sc, on_event)
        except Exception as e:  # noqa: BLE001
            viol.append(f"history [{describe_scenario(case, sc)}] could not be run: {type(e).__name__}: {e}")
    return viol


def model_lines(case):
    return lines(case)[0]


def real_lines(case):
    return lines(case)[1]


def reconstruct_real(case, ns, x):
    from spec_classes import MISSING

    attrs = attrs_of(case, type(x).__name__)
    kwargs = {}
    for a in attrs:
        v = getattr(x, a["name"], MISSING)
        if passable(a) and v is not MISSING:
            kwargs[a["name"]] = v
    try:
        y = type(x)(**kwargs)
        same = bool(y == x)
    except Exception as e:  # noqa: BLE001
        return reconstructible(case, ns, x), False
    return reconstructible(case, ns, x), same


def describe_reconstruction(case, x):
    """The failing input in words: the call and the attributes at which the result differs."""
    from spec_classes import MISSING

    try:
        kwargs = {a["name"]: getattr(x, a["name"]) for a in attrs_of(case, type(x).__name__)
                  if passable(a) and getattr(x, a["name"], MISSING) is not MISSING}
        y = type(x)(**kwargs)
        diff = [f"{a['name']}: original has {getattr(x, a['name'], MISSING)!r}, new instance {getattr(y, a['name'], MISSING)!r}"
                for a in attrs_of(case, type(x).__name__) if a["compare"] and not ref_attr_eq(case, x, y, a["name"])]
        bases = "(" + type(x).__mro__[1].__name__ + ")" if len(type(x).__mro__) > 2 else ""
        return (f"{type(x).__name__}{bases}(**{kwargs!r}) differs at " + "; ".join(diff))[:600]
    except Exception as e:  # noqa: BLE001
        return f"{type(e).__name__} while describing"


def meta_of(case, cname):
    """The class whose constructor/metadata instances of `cname` use: itself if a spec class, else the nearest spec ancestor."""
    cdefs = {c["name"]: c for c in case["family"]["classes"]}
    while cname in cdefs and not cdefs[cname]["spec"]:
        cname = cdefs[cname]["base"]
    return cname


def reconstructible(case, ns, x):
    """Every compared attribute is passed to the constructor or still shows what a fresh instance shows
    (uses the reference comparison, not the library's `==`)."""
    from spec_classes import MISSING

    ns_missing = MISSING
    for a in attrs_of(case, type(x).__name__):
        if not a["compare"]:
            continue
        v = getattr(x, a["name"], ns_missing)
        if passable(a) and v is not ns_missing:
            continue
        if a.get("prop"):
            return False        # (what a getter returns is not a class-level default)
        fv = fresh_view(a)
        if fv == "MISSING":
            if v is not ns_missing:
                return False
        else:
            if v is ns_missing or Tokens(case, ns).val(v, x) != desc_tokens(case, fv):
                return False
    return True


# ---------------------------------------------------------------------------
# repr skeleton
# ---------------------------------------------------------------------------


def split_top(text):
    """Split `a=..., b=...` at top-level commas (brackets, braces, parens, angle brackets and quotes tracked)."""
    parts, depth, cur, quote = [], 0, [], None
    for ch in text:
        if quote:
            cur.append(ch)
            if ch == quote:
                quote = None
            continue
        if ch in "'\"":
            quote = ch
            cur.append(ch)
        elif ch in "([{<":
            depth += 1
            cur.append(ch)
        elif ch in ")]}>":
            depth -= 1
            cur.append(ch)
        elif ch == "," and depth == 0:
            parts.append("".join(cur))
            cur = []
        else:
            cur.append(ch)
    if "".join(cur).strip():
        parts.append("".join(cur))
    return [p.strip() for p in parts]


def repr_skeleton(case, x):
    try:
        text = repr(x)
    except RecursionError:
        return "raised RecursionError"
    except Exception as e:  # noqa: BLE001
        return f"raised {type(e).__name__}"
    m = re.match(r"^(\w+)\((.*)\)$", text, re.S)
    if not m:
        return "unparsable " + text[:40]
    out = [m.group(1)]
    for part in split_top(m.group(2)):
        name, _, val = part.partition("=")
        val = val.strip()
        if val == "<self>":
            kind = "self"
        elif val == "MISSING":
            kind = "missing"
        elif (mm := re.match(r"^<bound method (\w+) of self>$", val)):
            kind = f"bself:{FN_IDS['S.' + mm.group(1)]}"
        elif (mm := re.match(r"^<bound method (\w+) of <", val)):
            kind = f"bound:{FN_IDS['Helper.' + mm.group(1)]}"
        elif (mm := re.match(r"^<bound method (\w+) of (.*)>$", val, re.S)):
            # bound to another spec instance: its owner must be rendered compactly
            compact = re.match(r"^(\w+)\((?:(\w+)=(.*), )?\.\.\.\)$", mm.group(2), re.S)
            kind = f"bound:{FN_IDS['S.' + mm.group(1)]}" if compact else f"bound-owner-in-full:{mm.group(1)}"
        elif (mm := re.match(r"^(\w+)\((?:(\w+)=(.*), )?\.\.\.\)$", val, re.S)):
            k = "n" if mm.group(2) is None else ("m" if mm.group(3) == "MISSING" else "k")
            kind = f"compact:{mm.group(1)}:{k}"
        else:
            kind = "val"
        out.append(f"{name.strip()}={kind}")
    return " ".join(out)


# ---------------------------------------------------------------------------
# independent oracle
# ---------------------------------------------------------------------------


def ref_val_eq(case, a, b):
    """Reference value equality written from the property text (no use of the library's __eq__)."""
    import inspect
    import types

    from spec_classes import MISSING

    if a is MISSING or b is MISSING:
        return a is b
    sa, sb = hasattr(type(a), "__spec_class__"), hasattr(type(b), "__spec_class__")
    if sa or sb:
        return sa and sb and ref_eq(case, a, b)
    if inspect.ismethod(a) or inspect.ismethod(b):
        return inspect.ismethod(a) and inspect.ismethod(b) and a.__self__ is b.__self__ and a.__func__ is b.__func__
    if isinstance(a, (types.FunctionType, types.ModuleType, type)) or isinstance(b, (types.FunctionType, types.ModuleType, type)):
        return a is b
    la = isinstance(a, list) or type(a).__name__ == "KeyedList"
    lb = isinstance(b, list) or type(b).__name__ == "KeyedList"
    if la or lb:
        return la and lb and len(a) == len(b) and all(ref_val_eq(case, x, y) for x, y in zip(a, b))
    if isinstance(a, dict) or isinstance(b, dict):
        return isinstance(a, dict) and isinstance(b, dict) and set(a) == set(b) and all(ref_val_eq(case, a[k], b[k]) for k in a)
    seta = isinstance(a, (set, frozenset)) or type(a).__name__ == "KeyedSet"
    setb = isinstance(b, (set, frozenset)) or type(b).__name__ == "KeyedSet"
    if seta or setb:
        if not (seta and setb) or len(a) != len(b):
            return False
        return all(any(ref_val_eq(case, x, y) for y in b) for x in a)
    if type(a) is not type(b):
        return False
    return a == b      # scalars of the same type


def ref_attr_eq(case, x, y, name):
    import inspect

    from spec_classes import MISSING

    v, w = getattr(x, name, MISSING), getattr(y, name, MISSING)
    if inspect.ismethod(v) and inspect.ismethod(w):
        return v.__func__ is w.__func__
    return ref_val_eq(case, v, w)


def ref_eq(case, x, y):
    """Equal iff same class and all compare-enabled attributes equal (missing only equals missing);
    two bound-method attribute values are equal iff they wrap the same function."""
    import inspect

    from spec_classes import MISSING

    if type(x) is not type(y):
        return False
    pair = (id(x), id(y))
    if pair in _REF_IN_PROGRESS:
        return True       # the same PAIR met again further down: a cycle adds no difference of its own
    _REF_IN_PROGRESS.add(pair)
    try:
        for a in attrs_of(case, type(x).__name__):
            if not a["compare"]:
                continue
            v, w = getattr(x, a["name"], MISSING), getattr(y, a["name"], MISSING)
            if inspect.ismethod(v) and inspect.ismethod(w):
                if v.__func__ is not w.__func__:
                    return False
                continue
            if not ref_val_eq(case, v, w):
                return False
        return True
    finally:
        _REF_IN_PROGRESS.discard(pair)


_REF_IN_PROGRESS = set()


def show_state(case, i):
    """The failing input in words: class, values and history of a pool state."""
    st = case["states"][i]
    hist = {k: st[k] for k in ("via", "pre", "ops") if st.get(k)}
    return (f"[state {i}: {st['cls']} {st['vals']}" + (f" reached {hist}" if hist else "") + "]")[:400]


def copy_diff(case, x, c):
    from spec_classes import MISSING

    return "; ".join(f"{a['name']}: original shows {getattr(x, a['name'], MISSING)!r}, copy {getattr(c, a['name'], MISSING)!r}"
                     for a in attrs_of(case, type(x).__name__) if not ref_attr_eq(case, c, x, a["name"]))[:300]


def oracle(case):
    import copy

    if "meta" in case:
        import c10_meta

        return c10_meta.oracle(case)
    viol = []
    try:
        ns = build(case)
        insts = build_states(case, ns)
    except Exception as e:  # noqa: BLE001
        return [f"building the family/states raised {type(e).__name__}: {e}"]
    eqs = eq_states(case)
    res = {}
    for i, j in eq_pairs(case):
        try:
            r = insts[i] == insts[j]
            n = insts[i] != insts[j]
        except Exception as e:  # noqa: BLE001
            viol.append(f"state {i} == state {j} raised {type(e).__name__}")
            return viol
        res[i, j] = r
        if n == r:
            viol.append(f"(x != y) is not the negation of (x == y) for states {i},{j}")
        exp = ref_eq(case, insts[i], insts[j])
        if r != exp:
            viol.append(f"state {i} == state {j} is {r}, attribute-wise reference comparison says {exp} "
                        + show_state(case, i) + " " + show_state(case, j))
        if res.get((j, i), r) != r:
            viol.append(f"not symmetric: states {i},{j}")
    for i in eqs:
        if not res[i, i]:
            viol.append(f"not reflexive: state {i}")
        for j in eqs:
            if res[i, j] != res[j, i]:
                viol.append(f"not symmetric: states {i},{j}")
    for i in eqs:
        for j in eqs:
            if res[i, j]:
                for k in eqs:
                    if res[j, k] and not res[i, k]:
                        viol.append(f"not transitive: states {i},{j},{k}")
    # two DIFFERENT self-referential states: Python's == may recurse without end (as for plain lists; outside the
    # property as read here) — but an answer, when there is one, must be the right one
    cyc = selfcyc_states(case)
    for i in cyc:
        for j in cyc:
            if i != j:
                try:
                    r = insts[i] == insts[j]
                except RecursionError:
                    continue
                except Exception as e:  # noqa: BLE001
                    viol.append(f"state {i} == state {j} raised {type(e).__name__}")
                    continue
                if r != ref_eq(case, insts[i], insts[j]):
                    viol.append(f"self-referential state {i} == self-referential state {j} is {r}, attribute-wise "
                                f"reference comparison says {not r}")
        try:
            c = copy.deepcopy(insts[i])
            if type(c) is not type(insts[i]) or c is insts[i]:
                viol.append(f"deepcopy(self-referential state {i}) is not a new instance of its class")
        except Exception as e:  # noqa: BLE001
            viol.append(f"deepcopy(self-referential state {i}) raised {type(e).__name__}")
    # comparisons with history: a copy compared with its original, changed in place, compared again
    for b, j, aname in history_mutants(case):
        try:
            c = history_copy(ns, insts, case, b, j, aname)
            for x, y, what in ((c, insts[b], "changed copy == original"), (insts[b], c, "original == changed copy")):
                r, exp = (x == y), ref_eq(case, x, y)
                if r != exp:
                    viol.append(f"state {b}: after comparing a copy with it and then setting the copy's {aname} to "
                                f"{getattr(c, aname, None)!r}: {what} is {r}, attribute-wise reference comparison says {exp}")
                if (x != y) == r:
                    viol.append(f"state {b}: != is not the negation of == after an in-place change of {aname}")
        except Exception as e:  # noqa: BLE001
            viol.append(f"copying state {b} / setting {aname} on the copy raised {type(e).__name__}")
    # single-position mutants
    for j, st in enumerate(case["states"]):
        mu = st.get("mutant_of")
        if mu is None or j not in eqs:
            continue
        b, aname = mu
        a = next(a for a in attrs_of(case, st["cls"]) if a["name"] == aname)
        # judged on the OBSERVED states: the pair must differ at that attribute and nowhere else
        diff = [x["name"] for x in attrs_of(case, st["cls"]) if not ref_attr_eq(case, insts[b], insts[j], x["name"])]
        if diff != [aname]:
            continue
        if a["compare"] and res[b, j]:
            viol.append(f"states {b},{j} differ exactly in compared attribute {aname} but are equal")
        if not a["compare"] and not res[b, j]:
            viol.append(f"states {b},{j} differ only in compare=False attribute {aname} but are unequal")
    for i in eqs + solo_states(case):
        try:
            c = copy.deepcopy(insts[i])
            if not (c == insts[i]):
                viol.append(f"deepcopy(state {i}) != state {i} {show_state(case, i)} {copy_diff(case, insts[i], c)}")
            if not ref_eq(case, c, insts[i]):
                viol.append(f"deepcopy(state {i}) differs from state {i} attribute-wise: {copy_diff(case, insts[i], c)}")
        except Exception as e:  # noqa: BLE001
            viol.append(f"deepcopy(state {i}) raised {type(e).__name__}")
        ok, same = reconstruct_real(case, ns, insts[i])
        if ok and not same:
            viol.append(f"re-constructing state {i} from its own attribute values gives an unequal instance: "
                        + describe_reconstruction(case, insts[i]))
    # repr: never raises, lists exactly the repr-enabled attributes in declaration order
    for i, x in enumerate(insts):
        sk = repr_skeleton(case, x)
        want = [a["name"] for a in attrs_of(case, type(x).__name__) if a["repr"]]
        if sk.startswith(("raised", "unparsable")):
            viol.append(f"repr(state {i}): {sk}")
            continue
        names = [p.split("=")[0] for p in sk.split(" ")[1:]]
        if names != want or sk.split(" ")[0] != type(x).__name__:
            viol.append(f"repr(state {i}) lists {names}, repr-enabled attributes in declaration order are {want} "
                        f"[{show_class(case, type(x).__name__)}]")
        for form in (lambda: str(x), lambda: x.__repr__(compact=True), lambda: x.__repr__(indent=True), lambda: x.__repr__(indent=False),
                     lambda: repr([x]), lambda: repr({"k": x})):
            try:
                form()
            except Exception as e:  # noqa: BLE001
                viol.append(f"a repr form of state {i} raised {type(e).__name__}")
    # a parent holding each state as a scalar and inside long collections (indented form, compact children)
    try:
        Holder = ns["spec_class"](type("Holder", (), {"__annotations__": {"one": ns["Any"], "many": ns["Any"], "by": ns["Any"], "pad": str}}))
        for i, x in enumerate(insts):
            h = Holder(pad="p" * 120)
            h.__dict__.update(one=x, many=[x, x], by={"k": x})   # (no copying: some states are self-referential)
            for form in (lambda: repr(h), lambda: h.__repr__(indent=False), lambda: h.__repr__(indent=True)):
                try:
                    form()
                except Exception as e:  # noqa: BLE001
                    viol.append(f"repr of a parent holding state {i} raised {type(e).__name__}")
    except Exception as e:  # noqa: BLE001
        viol.append(f"holder construction raised {type(e).__name__}: {e}")
    viol = viol[:10] + oracle_histories(case, ns, insts)
    return viol[:12]


def show_class(case, cname):
    """The declaration of a class of the family in one line (decorator and body)."""
    src = render(case).split("\n\n")
    mine = [b for b in src if re.search(rf"^class {cname}\b", b, re.M)]
    return (mine[0] if mine else cname).strip().replace("\n", "; ")[:400]


# ---------------------------------------------------------------------------
# generation
# ---------------------------------------------------------------------------


def gen_attr(rng, name, *, allow_missing=True):
    ann, vals, dflts = POOL[name]
    if name == "ov":
        # (named twice — by the body and by `init_overflow_attr`; declared bare or through `Attr(...)` with options)
        return {"name": "ov", "compare": rng.random() > 0.25, "repr": rng.random() > 0.25, "init": True, "kind": "none",
                "overflow": True}
    if name in PROPS:
        # (flags cannot be given for an attribute whose class-level value is the property; the getter is chosen by
        # `finish_props` once the attributes visible in the class are known)
        return {"name": name, "compare": True, "repr": True, "init": True, "kind": "none", "prop": dict(PROPS[name])}
    a = {"name": name, "compare": rng.random() > 0.2, "repr": rng.random() > 0.2, "init": True, "kind": "none"}
    r = rng.random()
    if name in ("ch",):
        pass
    if r < (0.25 if allow_missing else 0.0):
        a["kind"] = "none"
    else:
        d = rng.choice(dflts)
        a["default"] = d
        if name in MUTABLE:
            a["kind"] = rng.choice(["lit", "attr", "attr", "field"])
            a["factory"] = a["kind"] != "lit" and rng.random() < 0.7
        else:
            a["kind"] = rng.choice(["lit", "lit", "attr", "field"])
            a["factory"] = a["kind"] != "lit" and rng.random() < 0.2
        if a["kind"] != "lit" and rng.random() < 0.12:
            a["init"] = False
    if a["kind"] == "none" and (not a["compare"] or not a["repr"]) and rng.random() < 0.5:
        # compare=False / repr=False attribute WITHOUT default: may be set on one side only
        pass
    return a


def gen_family(rng):
    names = rng.sample(BASE_ATTRS, rng.randint(3, 8))
    if rng.random() < 0.7 and "cb" not in names:
        names[rng.randrange(len(names))] = "cb"
    # property-backed attributes: in every second family at least one, and then mostly with a plain int attribute
    # next to it for the getter to return (derived value: stale / invalidated memo when that attribute changes)
    if not any(n in PROPS for n in names) and rng.random() < 0.4:
        names[rng.choice([k for k, n in enumerate(names) if n != "cb"] or [0])] = rng.choice(list(PROPS))
    if any(n in PROPS for n in names) and not any(n in PROP_SOURCES for n in names) and rng.random() < 0.75:
        free = [k for k, n in enumerate(names) if n != "cb" and n not in PROPS]
        if free:
            names[rng.choice(free)] = "i"
        elif len(names) < 8:
            names.append("i")
    rng.shuffle(names)
    n_sub = rng.randint(0, 2)
    sub_names, base_names = names[len(names) - n_sub:] if n_sub else [], names[: len(names) - n_sub] if n_sub else names
    if not base_names:
        base_names, sub_names = names, []
    S = {"name": "S", "base": None, "spec": True, "eager": rng.random() < 0.3, "attrs": [gen_attr(rng, n) for n in base_names]}
    for a in S["attrs"]:
        if a["name"] == "iv":
            others = [x["name"] for x in S["attrs"] if x["name"] != "iv" and not x.get("prop")]
            if others:
                a["inv"] = rng.choice(others)
            else:
                a["inv"] = "iv_none"
            if a["kind"] == "none":
                a.update(kind="lit", default=0, factory=False)
    strs = [a["name"] for a in S["attrs"] if a["name"] in ("s", "p") and a["init"]]
    if strs and rng.random() < 0.4:
        S["key"] = rng.choice(strs)
    dnc = [a["name"] for a in S["attrs"] if a["name"] in DNC_OK and rng.random() < 0.2]
    if dnc:
        S["dnc"] = dnc
    classes = [S]
    T = {"name": "T", "base": "S", "spec": True, "eager": rng.random() < 0.3, "attrs": [gen_attr(rng, n) for n in sub_names]}
    for a in T["attrs"]:
        if a["name"] == "iv":
            a["inv"] = rng.choice([x["name"] for x in S["attrs"] if not x.get("prop")] or ["iv_none"])
            if a["kind"] == "none":
                a.update(kind="lit", default=0, factory=False)
    tdnc = [a["name"] for a in S["attrs"] + T["attrs"] if a["name"] in DNC_OK and rng.random() < 0.2]
    if tdnc:
        T["dnc"] = tdnc
    if rng.random() < 0.3 and S["attrs"]:
        # re-declare an inherited attribute with other flags (keeps its position)
        b = rng.choice(S["attrs"])
        if b["name"] != "iv" and b["name"] != S.get("key") and not b.get("prop") and not b.get("overflow"):
            T["attrs"].append(gen_attr(rng, b["name"], allow_missing=b["kind"] == "none"))
    classes.append(T)
    classes.append({"name": "P", "base": "S", "spec": False, "attrs": []})
    if rng.random() < 0.5:
        classes.append({"name": "Q", "base": "T", "spec": False, "attrs": []})
    if rng.random() < 0.5:
        extra = [n for n in BASE_ATTRS if n not in names]
        U = {"name": "U", "base": "T", "spec": True, "eager": rng.random() < 0.3,
             "attrs": [gen_attr(rng, n) for n in rng.sample(extra, min(len(extra), rng.randint(0, 2)))]}
        for a in U["attrs"]:
            if a["name"] == "iv":
                a["inv"] = rng.choice([x["name"] for x in S["attrs"] if not x.get("prop")] or ["iv_none"])
                if a["kind"] == "none":
                    a.update(kind="lit", default=0, factory=False)
        udnc = [a["name"] for a in S["attrs"] + T["attrs"] + U["attrs"] if a["name"] in DNC_OK and rng.random() < 0.2]
        if udnc:
            U["dnc"] = udnc
        if rng.random() < 0.25 and (S["attrs"] or T["attrs"]):
            # third level re-declares an attribute of the first or second level
            b = rng.choice(S["attrs"] + T["attrs"])
            if (b["name"] != "iv" and b["name"] != S.get("key") and not b.get("prop") and not b.get("overflow")
                    and all(a["name"] != b["name"] for a in U["attrs"])):
                U["attrs"].append(gen_attr(rng, b["name"], allow_missing=b["kind"] == "none"))
        classes.append(U)
    # a subclass (spec or plain, first, second or third level) re-assigns the DEFAULT of an inherited attribute in
    # its body without annotating it: owner and flags stay, instances of that class (and below) show the new default
    for c in classes[1:]:
        if rng.random() < 0.3:
            declared = {a["name"] for a in c["attrs"]}
            fam = {"classes": classes}
            # (not an attribute that a class BELOW re-declares: a re-declaration without default would still show
            # this class-level value through plain attribute lookup)
            by_name = {d["name"]: d for d in classes}

            def below(d):
                while d is not None and d["base"]:
                    if d["base"] == c["name"]:
                        return True
                    d = by_name.get(d["base"])
                return False

            declared |= {a["name"] for d in classes if below(d) for a in d["attrs"]}
            cands = [a for a in attrs_of({"family": fam}, c["base"])
                     if a["name"] not in declared and a["name"] not in ("iv",) and a["name"] != S.get("key")
                     and len(POOL[a["name"]][2]) > 1]
            if cands:
                b = rng.choice(cands)
                others = [d for d in POOL[b["name"]][2] if d != b.get("default", "NODEFAULT") or b.get("factory")]
                if others:
                    c["overrides"] = [{"name": b["name"], "default": rng.choice(others)}]
    finish_props(rng, classes)
    # decorator options that NAME attributes the class body annotates as well (`attrs`, `attrs_typed`, each with
    # `attrs_skip=[]` = "in addition to the annotated attributes"): the attribute keeps its place in the body
    for c in classes:
        if c["spec"] and rng.random() < 0.3:
            elig = [a["name"] for a in c["attrs"] if nameable(a)]
            picked = rng.sample(elig, min(len(elig), rng.randint(1, 2)))
            deco = {"attrs": [], "typed": []}
            for n in picked:
                deco[rng.choice(["attrs", "typed"])].append(n)
            if picked:
                c["deco"] = deco
    return {"classes": classes}


def nameable(a):
    """The attribute can ALSO be named by `attrs` / `attrs_typed` of its class: any attribute the body annotates — bare,
    with a literal default, or declared through `Attr(...)` / `dataclasses.field(...)` with options (`compare=False`,
    `repr=False`, `init=False`, `default_factory`, `invalidated_by`; these must survive: fixed finding
    KF-C10-named-twice-options-lost, /repo 2c756f0) — except one whose class-level value is a `spec_property` and the
    overflow attribute (named by its own option)."""
    return not a.get("prop") and not a.get("overflow")


def _bare(a):
    """Rendered as a bare annotation `name: type` (no class-level value at all)."""
    return a["kind"] == "none" and a["compare"] and a["repr"] and a["init"] and a["name"] != "iv"


def finish_props(rng, classes):
    """Getter of every property-backed attribute: a constant, or — when the class sees a plain int attribute —
    `return self.<that attribute>` (then, for a cached property, possibly `invalidated_by` it)."""
    for c in classes:
        for a in c["attrs"]:
            if not a.get("prop") or "getter" in a["prop"]:
                continue
            # (an attribute that shows nothing on a fresh instance only when it is a bare annotation: declared through
            # `Attr(...)` / `field(...)` without a usable default, the class-level value is the MISSING sentinel
            # ITSELF, which `self.<attr>` hands to the getter as if it were a value)
            visible = [x["name"] for x in attrs_of({"family": {"classes": classes}}, c["name"])
                       if x["name"] in PROP_SOURCES and not x.get("prop")
                       and (fresh_view(x) != "MISSING" or _bare(x))]
            if visible and rng.random() < 0.65:
                src = rng.choice(visible)
                a["prop"]["getter"] = ["same", src]
                if rng.random() < 0.5:
                    a["prop"]["inv"] = src
            else:
                a["prop"]["getter"] = ["const", rng.choice([5, 7])]


def gen_vals(rng, case, cname, p_missing=0.25):
    vals = {}
    for a in attrs_of(case, cname):
        has_default = a["kind"] != "none"
        if a.get("prop") and (not passable(a) or rng.random() < 0.5):
            continue            # what the getter returns (or what was memoised)
        if not has_default and rng.random() < p_missing:
            continue            # stays missing
        if has_default and rng.random() < 0.3:
            continue            # default
        v = rng.choice(POOL[a["name"]][1])
        if a["name"] == "lt" or a["name"] in ("p",):
            pass
        vals[a["name"]] = v
    return vals


def is_falsy(v):
    return v is None or v == 0 or v == "" or v == [] or v == {"d": {}} or v == {"set": []}


def gen_via(rng, names):
    """How the init-enabled attributes of a state get their values: all through the constructor, all by setattr,
    all by `with_<attr>`, or each one its own way."""
    style = rng.choice(["ctor", "ctor", "set", "with", "mixed"])
    if style == "ctor":
        return {}
    if style == "mixed":
        return {n: rng.choice(["ctor", "set", "with"]) for n in names}
    return {n: style for n in names}


def gen_falsy_vals(rng, case, cname):
    """Every attribute of the class at a FALSY value of its kind (0, False, "", None, empty list/dict/set/
    KeyedList/KeyedSet) — preferably one that differs from the default; kinds without a falsy value get any value."""
    vals = {}
    for a in attrs_of(case, cname):
        pool = POOL[a["name"]][1]
        falsy = [v for v in pool if is_falsy(v)]
        differing = [v for v in falsy if v != fresh_view(a)]
        if rng.random() < 0.1 or not pool:
            continue
        vals[a["name"]] = rng.choice(differing or falsy or pool)
    return vals


def add_touches(rng, case, st):
    """Reads of the property-backed attributes at two points of the state's history: right after construction
    (`pre`: a cached property memoises what its getter returns THEN; attributes set afterwards make it stale unless
    they invalidate it) or at the end (`ops`)."""
    for a in attrs_of(case, st["cls"]):
        if a.get("prop"):
            r = rng.random()
            if r < 0.3:
                st.setdefault("pre", []).append(["touch", a["name"]])
            elif r < 0.5:
                st["ops"] = st.get("ops", []) + [["touch", a["name"]]]
    return st


def gen_case(rng, tier):
    case = {"family": gen_family(rng), "states": []}
    n_max = 14 if tier != "thorough" else 40
    cnames = [c["name"] for c in case["family"]["classes"]]
    base_vals = gen_vals(rng, case, "S", p_missing=0.15)
    states = [{"cls": "S", "vals": dict(base_vals)}]
    # single-position mutants of state 0, one for EVERY attribute position of S
    for a in attrs_of(case, "S"):
        pool = [v for v in POOL[a["name"]][1] if v != base_vals.get(a["name"], fresh_view(a))]
        if a["name"] in base_vals or a["kind"] != "none":
            cur = base_vals.get(a["name"], fresh_view(a))
            pool = [v for v in pool if v != cur]
        if not pool:
            continue
        mv = dict(base_vals)
        mv[a["name"]] = rng.choice(pool)
        states.append({"cls": "S", "vals": mv, "mutant_of": [0, a["name"]], "via": gen_via(rng, list(mv))})
    # the same values in every class of the family, then equal twins with different __dict__ contents
    for cn in cnames[1:]:
        v = {k: x for k, x in base_vals.items()}
        states.append({"cls": cn, "vals": v, "via": gen_via(rng, list(v))})
    states.append({"cls": "S", "vals": dict(base_vals), "ops": [["tmp"], ["cp"]]})
    reset_ops = [["reset", a["name"]] for a in attrs_of(case, "S")[:2]]
    states.append({"cls": "S", "vals": dict(base_vals), "ops": reset_ops, "via": gen_via(rng, list(base_vals))})
    while len(states) < n_max - 2:
        cn = rng.choice(cnames)
        st = {"cls": cn, "vals": gen_vals(rng, case, cn)}
        st["via"] = gen_via(rng, list(st["vals"]))
        if rng.random() < 0.3:
            st["ops"] = [rng.choice([["tmp"], ["cp"], ["reset", rng.choice(attrs_of(case, cn))["name"]]])]
        if rng.random() < 0.15:
            # a mutant of this state at its LAST attribute position and at a random one
            for a in (attrs_of(case, cn)[-1], rng.choice(attrs_of(case, cn))):
                pool = [v for v in POOL[a["name"]][1] if v != st["vals"].get(a["name"], fresh_view(a))]
                if pool and len(states) < n_max - 3:
                    mv = dict(st["vals"])
                    mv[a["name"]] = rng.choice(pool)
                    states.append(st)
                    states.append({"cls": cn, "vals": mv, "mutant_of": [len(states) - 1, a["name"]],
                                   "via": gen_via(rng, list(mv))})
                    st = None
                    break
        if st is not None:
            states.append(st)
    states = states[: n_max - 2]
    for st in states[1:]:
        add_touches(rng, case, st)
    # property-backed attributes: the base state with every property read right after construction and the other
    # attributes assigned afterwards (stale or invalidated memo), and with every overridable property overridden
    # (for the deepest class that declares or inherits such attributes and for S)
    for pcls in dict.fromkeys(["S", next((cn for cn in reversed(cnames)
                                           if any(a.get("prop") for a in attrs_of(case, cn))), "S")]):
        pattrs = attrs_of(case, pcls)
        props = [a for a in pattrs if a.get("prop")]
        if not props:
            continue
        pv = {n: v for n, v in base_vals.items()}
        # every attribute a getter returns gets a value that differs from what a fresh instance shows: a memo taken
        # right after construction is out of date once the attribute is assigned (unless it invalidates the memo)
        for a in props:
            g = a["prop"]["getter"]
            if g[0] == "same":
                src = next(x for x in pattrs if x["name"] == g[1])
                other = [v for v in POOL[g[1]][1] if v != fresh_view(src)]
                pv[g[1]] = rng.choice(other)
        touch = [["touch", a["name"]] for a in props]
        for how in ("set", "with"):
            states.append({"cls": pcls, "vals": {n: v for n, v in pv.items() if n not in PROPS}, "pre": touch,
                           "via": {n: how for n in pv}})
        ov = {a["name"]: rng.choice(POOL[a["name"]][1]) for a in props if passable(a)}
        if ov:
            states.append({"cls": pcls, "vals": {**pv, **ov}, "via": gen_via(rng, list(pv) + list(ov))})
            states.append({"cls": pcls, "vals": {**pv, **ov}, "via": {n: "set" for n in list(pv) + list(ov)},
                           "ops": touch})
    # other instances of the pool AS VALUES (directly, in a list, in a dict) of an `Any` attribute, and the
    # self-referential counterparts (`x.a = x`, `[x]`, `{"k": x}`): all ordered pairs of the two groups are compared
    hcls = next((cn for cn in cnames if any(a["name"] in ("cb", "cb2") for a in attrs_of(case, cn))), None)
    if hcls is not None:
        anyattrs = [a["name"] for a in attrs_of(case, hcls) if a["name"] in ("cb", "cb2")]
        below = [cn for cn in cnames if any(a["name"] == anyattrs[0] for a in attrs_of(case, cn))]
        z = 0
        if hcls != "S":
            states.append({"cls": hcls, "vals": dict(base_vals)})
            z = len(states) - 1
        def plain_state(st):
            # (no value that needs other instances; no foreign bound method under a do_not_copy attribute: a copy of
            # the NESTED instance shares it, the model's copy of nested instances does not look at their class)
            dnc = {a["name"] for a in attrs_of(case, st["cls"]) if a["dnc"]}
            return not any(isinstance(v, dict) and (any(k in v for k in LATE_KINDS) or ("bound" in v and n in dnc))
                           for n, v in st["vals"].items())

        plain = [i for i, st in enumerate(states) if st["cls"] in below and not st.get("solo") and plain_state(st)]
        if not plain_state(states[z]):
            v = {n: x for n, x in base_vals.items() if not (isinstance(x, dict) and "bound" in x)}
            states.append({"cls": hcls, "vals": v})
            z = len(states) - 1
            plain.append(z)
        states.append({"cls": hcls, "vals": {**base_vals, anyattrs[0]: {"inst": z}}})
        states.append({"cls": hcls, "vals": {**base_vals, anyattrs[-1]: {"instlist": rng.choice(plain)}}})
        states.append({"cls": rng.choice(below), "vals": {**base_vals, anyattrs[0]: {"instdict": rng.choice(plain)}}})
        states.append({"cls": hcls, "vals": {**base_vals, anyattrs[0]: {"self": True}}, "selfcyc": True})
        states.append({"cls": hcls, "vals": {**base_vals, anyattrs[-1]: {"selflist": True}}, "selfcyc": True})
        states.append({"cls": rng.choice(below), "vals": {**base_vals, anyattrs[0]: {"selfdict": True}}, "selfcyc": True})
    # for EVERY class of the family (each inheritance depth, spec and plain): all attributes at falsy values, reached
    # once through the constructor and once WITHOUT it (setattr / with_<attr>); outside the all-pairs matrix, the
    # two are compared with each other, and deepcopy / re-construction / constructor / repr are checked on both
    for cn in cnames:
        v = gen_falsy_vals(rng, case, cn)
        how = rng.choice(["set", "with"])
        states.append({"cls": cn, "vals": v, "solo": True})
        states.append({"cls": cn, "vals": dict(v), "solo": True, "twin_of": len(states) - 1,
                       "via": {n: how for n in v}})
    # ... and a random state of a random SUBCLASS reached without the constructor, with its constructor twin
    for _ in range(2 if tier != "thorough" else 6):
        cn = rng.choice(cnames[1:])
        v = gen_vals(rng, case, cn, p_missing=0.1)
        states.append({"cls": cn, "vals": v, "solo": True, "via": {n: rng.choice(["set", "with"]) for n in v}})
        states.append({"cls": cn, "vals": dict(v), "solo": True, "twin_of": len(states) - 1})
    anyattrs = [a["name"] for a in attrs_of(case, "S") if a["name"] in ("cb", "cb2")]
    if anyattrs:
        # cycles closed through BOUND METHODS of other instances (repr only): mutual subscription, a ring of
        # three, handlers held in lists
        def member(cn, **extra):
            v = dict(base_vals)
            v.update(extra)
            return {"cls": cn, "vals": v, "cyclic": True}

        a0 = len(states)
        states.append(member("S", **{anyattrs[0]: {"peer": [a0 + 1, "meth"]}}))
        states.append(member(rng.choice(cnames), **{anyattrs[0]: {"peer": [a0, "meth2"]}}))
        r0 = len(states)
        for i in range(3):
            states.append(member(rng.choice(cnames), **{anyattrs[-1]: {"peer": [r0 + (i + 1) % 3, "meth"]}}))
        l0 = len(states)
        states.append(member("S", **{anyattrs[0]: {"peerlist": [[l0 + 1, "meth"], [l0, "meth2"]]}}))
        states.append(member(rng.choice(cnames), **{anyattrs[-1]: {"peerlist": [[l0, "meth"]]}}))
        # one-directional reference to a peer (no cycle): the owner is still rendered compactly
        states.append({"cls": "S", "vals": {**base_vals, anyattrs[0]: {"peer": [0, "meth"]}}, "cyclic": True})
    case["states"] = states
    return case


def valid_case(case):
    try:
        ns = build(case)
        build_states(case, ns)
        return True
    except Exception:  # noqa: BLE001
        return False


def gen_cases(tier, rng):
    import c10_meta

    n = {"quick": 60, "thorough": 400}.get(tier)
    count = 0
    # the order of the attributes in the metadata through every decorator option (small scope: sampled per seed in
    # the quick tier, exhaustive in the thorough one; the search generator mixes samples in)
    if tier in ("quick", "thorough"):
        yield from c10_meta.gen(tier, rng)
    while n is None or count < n:
        if n is None and count % 25 == 24:
            yield from c10_meta.gen("search", rng)
        c = gen_case(rng, tier)
        if not valid_case(c):
            continue
        c["origin"] = "random"
        count += 1
        yield c


def _refs(st):
    """Indices of the other states a state refers to."""
    out = []
    if st.get("mutant_of") is not None:
        out.append(st["mutant_of"][0])
    if st.get("twin_of") is not None:
        out.append(st["twin_of"])
    for v in st["vals"].values():
        if isinstance(v, dict) and "peer" in v:
            out.append(v["peer"][0])
        if isinstance(v, dict) and "peerlist" in v:
            out += [i for i, _ in v["peerlist"]]
        for k in ("inst", "instlist", "instdict"):
            if isinstance(v, dict) and k in v:
                out.append(v[k])
    return out


def _remap(st, f):
    st = dict(st)
    if st.get("mutant_of") is not None:
        st["mutant_of"] = [f(st["mutant_of"][0]), st["mutant_of"][1]]
    if st.get("twin_of") is not None:
        st["twin_of"] = f(st["twin_of"])
    vals = {}
    for k, v in st["vals"].items():
        if isinstance(v, dict) and "peer" in v:
            v = {"peer": [f(v["peer"][0]), v["peer"][1]]}
        elif isinstance(v, dict) and "peerlist" in v:
            v = {"peerlist": [[f(i), m] for i, m in v["peerlist"]]}
        elif isinstance(v, dict) and any(k in v for k in ("inst", "instlist", "instdict")):
            v = {k: f(i) for k, i in v.items()}
        vals[k] = v
    st["vals"] = vals
    return st


def shrink(case, at=None):
    """Drop one state nobody refers to (indices of the remaining references are renumbered)."""
    if "meta" in case:
        for k in range(len(case["meta"])):
            if len(case["meta"]) > 1:
                yield {**case, "meta": [case["meta"][k]]}
        return
    sts = case["states"]
    referred = {r for st in sts for r in _refs(st)}
    for i in reversed(range(len(sts))):
        if len(sts) > 2 and i not in referred:
            yield {**case, "states": [_remap(st, lambda j: j - (j > i)) for j2, st in enumerate(sts) if j2 != i]}


def nontrivial(case, real):
    if "meta" in case:
        import c10_meta

        return c10_meta.nontrivial(case)
    keys = []
    table = tuple(l for l in lines(case)[0] if l.startswith("cls "))
    ml, rl = lines(case)
    sts = {int(l.split(" ")[1]): l for l in ml if l.startswith("st ")}
    for l, r in zip(ml, rl):
        if l.startswith("eq "):
            _, i, j = l.split(" ")
            if i != j:
                keys.append((table, sts[int(i)], sts[int(j)], r))
    return keys[:400]


def tags(case, real):
    if "meta" in case:
        import c10_meta

        return c10_meta.tags(case)
    ml, rl = lines(case)
    t = [f"classes:{len(case['family']['classes'])}", f"states:{len(case['states'])}"]
    for c in case["family"]["classes"]:
        for a in c["attrs"]:
            t.append(f"attr:{a['name']}")
            for f in ("compare", "repr", "init"):
                if not a[f]:
                    t.append(f"flag:{f}=False")
            t.append(f"default:{a['kind']}{'-factory' if a.get('factory') else ''}")
            if a.get("prop"):
                pr = a["prop"]
                t.append(f"property:cache={int(pr['cache'])}:overridable={int(pr['ov'])}:{pr['getter'][0]}"
                         f"{':invalidated' if pr.get('inv') else ''}")
        if c.get("key"):
            t.append("feature:key")
        if c.get("dnc"):
            t.append("feature:do_not_copy")
        if c.get("deco"):
            t.append("feature:annotated-and-named-by-decorator")
        if any(a.get("overflow") for a in c["attrs"]):
            t.append("feature:init_overflow_attr")
    for l, r in zip(ml, rl):
        op = l.split(" ")[0]
        if op in ("eq", "dc", "rc"):
            t.append(f"{op}:{r}")
        if op in ("heq", "hrepr", "hcopy"):
            t.append(f"history:{op}:{r.split(' ')[0] if r.startswith('raised') or op != 'hrepr' else 'listed'}")
    for sc in poison_scenarios(case):
        for stp in sc["steps"]:
            if stp[0] == "plant":
                t.append(f"history:plant:{stp[3] or 'quiet'}")
            elif stp[0] == "flag":
                t.append("history:getter-raises")
    for st in case["states"]:
        if st.get("mutant_of") is not None:
            t.append("state:single-position-mutant")
        if st.get("cyclic"):
            t.append("state:cycle-through-bound-methods")
        if st.get("selfcyc"):
            t.append("state:self-referential")
        for op in st.get("pre", []) + st.get("ops", []):
            if op[0] == "touch":
                t.append("state:property-read-" + ("early" if op in st.get("pre", []) else "late"))
        if st.get("twin_of") is not None:
            t.append("state:route-twin")
        if not st.get("cyclic"):
            for n in ctor_kwargs(case, st):
                how = st.get("via", {}).get(n, "ctor")
                a = next(a for a in attrs_of(case, st["cls"]) if a["name"] == n)
                inherited = a["owner"] != meta_of(case, st["cls"])
                falsy = is_falsy(st["vals"][n]) and st["vals"][n] != fresh_view(a)
                t.append(f"value-via:{how}:{'inherited' if inherited else 'own'}:{'falsy-non-default' if falsy else 'other'}")
        for v in st["vals"].values():
            if isinstance(v, dict):
                t.append("value:" + next(iter(v)))
    return t


# ---------------------------------------------------------------------------
# extra: values for which `==` is not reflexive or not terminating on its own (outside the Lean model, whose values
# are trees with structural equality): NaN and references back to the instance (fixed finding d1be94e)
# ---------------------------------------------------------------------------


def extra(tier, rng):
    import copy
    from typing import Any, List

    from spec_classes import Attr, spec_class

    @spec_class(bootstrap=True)
    class N:
        a: Any = None
        b: List[Any] = []
        c: Any = Attr(default=None, compare=False)

    nan = float("nan")
    evaluations, violations, keys = 0, [], []

    def judge(label, fn):
        nonlocal evaluations
        evaluations += 1
        keys.append(label)
        try:
            problem = fn()
        except BaseException as e:  # noqa: BLE001
            problem = f"raised {type(e).__name__}"
        if problem:
            violations.append({"case": {"extra": "identity", "probe": label}, "violation": [f"{label}: {problem}"]})

    def reflexive(mk):
        def go():
            x = mk()
            if not (x == x):
                return "x == x is False"
            if x != x:
                return "x != x is True"
            y = copy.deepcopy(x)
            if not (y == x and x == y):
                return "deepcopy(x) == x is False"
        return go

    judge("NaN attribute", reflexive(lambda: N(a=nan)))
    judge("NaN inside a list attribute", reflexive(lambda: N(b=[1, nan])))
    judge("NaN in a compare=False attribute", reflexive(lambda: N(a=1, c=nan)))

    def selfref():
        y = N()
        y.a = y
        if not (y == y):
            return "y == y is False for y.a = y"
        r = repr(y)
        if "N(" not in r:
            return f"repr is {r!r}"

    judge("instance referring to itself", selfref)

    def selfref_in_list():
        y = N()
        y.b = [y]
        if not (y == y):
            return "y == y is False for y.b = [y]"

    judge("instance inside its own list attribute", selfref_in_list)

    def differs():
        x, y = N(a=nan), N(a=float("nan"))
        z = N(a=1.0)
        if x == z or z == x:
            return "NaN equals 1.0"
        if (x == y) != (y == x):
            return "asymmetric on two different NaN objects"

    judge("NaN vs other values", differs)

    # --- a self-referential operand against finite ones, and what a comparison that recursed leaves behind
    def selfref_vs_finite():
        x, z = N(a=1), N(a=2)
        x.b = [x]
        y = N(a=1, b=[z])
        w = N(a=1)
        w.c = w                      # self-reference under a compare=False attribute
        for l, r, exp, what in ((x, y, False, "x.b=[x] == y.b=[z]"), (y, x, False, "y.b=[z] == x.b=[x]"),
                                (x, z, False, "x == z"), (z, x, False, "z == x"), (x, x, True, "x == x"),
                                (w, N(a=1), True, "w.c=w (compare=False) == N(a=1)"), (N(a=1), w, True, "N(a=1) == w")):
            if (l == r) != exp:
                return f"{what} is {not exp}"
            if (l != r) == exp:
                return f"{what}: != is not the negation"

    judge("self-referential instance vs finite ones (in a list, under compare=False)", selfref_vs_finite)

    def after_recursion():
        x, y = N(a=1), N(a=1)
        x.b, y.b = [x], [y]
        try:
            x == y                   # two different cyclic structures: may recurse without end (outside the property)
        except RecursionError:
            pass
        p, q, r = N(a=1), N(a=1), N(a=2)
        if not (p == q) or p == r or r == p or x == r or r == x or not (x == x):
            return "comparisons give wrong answers after one that recursed"

    judge("comparisons after a comparison that recursed", after_recursion)

    # --- attributes stored behind properties: copies and equality go by what the attribute shows
    from spec_classes import spec_property

    @spec_class(bootstrap=True)
    class Q:
        base: int = 1
        total: int
        limit: int
        shadow: int
        memo: int

        @spec_property(cache=True, overridable=False)
        def memo(self):
            return self.base + 1000

        @spec_property(cache=True, invalidated_by=["base"])
        def total(self):
            return self.base * 10

        @spec_property(cache=True)
        def limit(self):
            return self.base + 100

        @property
        def shadow(self):
            return self.__dict__.get("_shadow", -1)

        @shadow.setter
        def shadow(self, v):
            self.__dict__["_shadow"] = v

    def same(x, y, what):
        for a in ("base", "total", "limit", "shadow", "memo"):
            if getattr(x, a) != getattr(y, a):
                return f"{what}: {a} is {getattr(y, a)!r}, original has {getattr(x, a)!r}"
        if not (x == y and y == x):
            return f"{what}: not equal to the original"

    def props_copied():
        x = Q(base=2)
        x.total = 99                 # override of a cached property
        x.shadow = 7                 # stored by the setter under another name
        x.limit, x.memo              # memos ...
        x.__dict__["base"] = 3       # ... made stale (no invalidation declared for `limit`; `total` keeps its override)
        for what, y in (("deepcopy", copy.deepcopy(x)), ("with_base(3)", x.with_base(3).with_total(99)),
                        ("copy of a copy", copy.deepcopy(copy.deepcopy(x)))):
            r = same(x, y, what) if what != "with_base(3)" else None
            if r:
                return r
        y = x.with_shadow(7)
        if y.total != 99 or y.limit != x.limit or y.shadow != 7:
            return f"with_shadow(7) shows total={y.total}, limit={y.limit}, shadow={y.shadow}; original 99, {x.limit}, 7"
        # (re-construction cannot restore an out-of-date memo of a property that accepts no value: on a fresh one)
        f = Q(base=2)
        f.total, f.shadow = 99, 7
        z = Q(base=f.base, total=f.total, limit=f.limit, shadow=f.shadow)
        return same(f, z, "re-constructed from own values")

    judge("override / stale memo / setter-backed value survive deepcopy, with_<attr>, re-construction", props_copied)
    return {"evaluations": evaluations, "nontrivial": keys, "violations": violations, "disagreements": [], "info": {"identity_probes": evaluations}}


KNOWN_MATCHERS = {}      # (no open finding; KF-C10-named-twice-options-lost is fixed: /repo 2c756f0, corpus witness)


MANIFEST_ENTRY = {
    "level_text": "Lean 4 proof about an executable model of EqMethod.eq under CPython's == dispatch, DeepCopyMethod.deepcopy, the constructor InitMethod.init (parent spec-class constructors base-most first with the forwarded keyword arguments, then the own attributes; any inheritance depth, plain subclasses, per-class defaults), re-construction through it and ReprMethod.repr over finite value trees (scalars, lists, dicts, sets, nested instances, bound methods, functions, classes, modules, MISSING): == is reflexive, symmetric and transitive, holds exactly when the classes are the same and every compare-enabled attribute is equal (missing only equals missing; a pair of bound methods by function), a difference at ANY attribute position is noticed, compare=False attributes are ignored, deepcopy(x)==x, deepcopy of the instance's own __dict__ state shows attribute by attribute what the original shows also for attributes backed by a spec_property (an assigned override or memoised result is an entry like any other and survives the copy; otherwise the getter's result on the copy), an instance that holds itself under a compared attribute (directly or in a list/set/dict) is unequal to every finite value in either operand order and the comparison used for such pairs coincides with == on finite trees, the constructor shows every passed value (whatever it is - falsy ones included - and whichever class of the chain owns the attribute) and the default or the getter's result otherwise, re-construction from own values gives an equal instance, repr is total and lists exactly the repr-enabled attributes in declaration order; the key order of the metadata assembled by spec_class.bootstrap from the inherited attributes, the class body and the decorator options attrs / attrs_typed / attrs_skip / init_overflow_attr / key (ordered-dict updates) equals the declaration order, keeps the parent's order as a prefix and keeps the body order of annotated attributes whatever the decorator names; with attribute values whose own ==, repr or deepcopy raise and getters that raise, x == y answers True exactly when every compare-enabled attribute is equal without raising, the first compared attribute that differs or raises decides the outcome, and after ANY history of assignments and completed or aborted comparisons / reprs / copies an operation answers what it answers on the current attribute values alone. The model is tied to /repo on every run: generated class families are exec'd, a pool of instances (incl. a single-position mutant for every attribute position, subclasses, states reached through the constructor / setattr / with_<attr>, all-falsy states of every class, extra __dict__ state, overridden / memoised / out-of-date property-backed attributes, instances holding other instances, self-references) is built, and what getattr shows for the observed __dict__ state, what a deep copy shows, ==, deepcopy, what the constructor shows for the keyword arguments of every state, re-construction and the parsed repr of ALL pairs/states are compared with the model; the oracle checks the equivalence laws and an attribute-wise reference comparison on the real results; class definitions through every attribute-naming decorator option (3648 definitions, sampled in the quick tier, exhaustive in the thorough tier) have their real metadata order compared with the model and their repr judged against the declaration order; histories with planted raising values run step by step against the model's history machine.",
    "level_note": "Trusted: Lean kernel; axioms propext/Classical.choice/Quot.sound only; the hand-written model and harness; CPython's == dispatch rule and its list/dict repr recursion guard. Equality theorems are about acyclic values (cyclic ones recurse in Python as for plain lists); repr covers self-references. The model's input states are the abstract states observed on the real instances.",
    "technique": "Lean 4 structural-induction proofs over a mutual value inductive; differential correspondence on all pairs of a generated state pool; independent reference comparison + equivalence-law oracle",
}
