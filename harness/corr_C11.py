"""
C11 — derived values are never stale after a dependency changes.

Correspondence between the real `spec_classes` (classes rendered from a
dependency-graph description and `exec`ed) and the Lean Impl model
`SpecVerif.C11` (Drivers/C11.lean), plus the independent oracle written from
the property text: after every operation every derived value is compared with
its getter recomputed on a cache-free clone, dependants of a mutated name must
be gone / back at their default, unrelated and failed mutations discard nothing.

Conventions that let the harness (and the oracle) tell a cache from an override
without consulting the model: getter results are >= 0, override values are < 0.
"""
import copy
import itertools

PID = "C11"
LEAN_TARGETS = ["SpecVerif.Props.C11"]
AUDIT = [("SpecVerif.Props.C11", "SpecVerif.Props.C11")]
DRIVER = "Drivers/C11.lean"
REQUIRED_THEOREMS = [
    "SpecVerif.Props.C11.invalidate_total",
    "SpecVerif.Props.C11.invalidate_eq",
    "SpecVerif.Props.C11.fresh_init",
    "SpecVerif.Props.C11.fresh_step",
    "SpecVerif.Props.C11.fresh_reachable",
    "SpecVerif.Props.C11.read_recomputes",
    "SpecVerif.Props.C11.attr_back_at_default",
    "SpecVerif.Props.C11.unrelated_keeps",
    "SpecVerif.Props.C11.failed_keeps",
    "SpecVerif.Props.C11.never_stale",
    "SpecVerif.Props.C11.fresh_reachable_partial",
    "SpecVerif.Props.C11.full_statement_fails",
    "SpecVerif.Props.C11.mem_invMapOf_iff",
    "SpecVerif.Props.C11.managed_invMap_iff",
    "SpecVerif.Props.C11.unmanaged_invMap_iff",
    "SpecVerif.Props.C11.own_property_declaration_wins",
    "SpecVerif.Props.C11.silent_property_inherits",
    "SpecVerif.Props.C11.redefault_keeps_invalidated_by",
    "SpecVerif.Props.C11.redeclared_attr_wins",
    "SpecVerif.Props.C11.unmentioned_inherits",
    "SpecVerif.Props.C11.plain_class_property_over_managed",
    "SpecVerif.Props.C11.plainClassesSilent_of_no_invBy",
    "SpecVerif.Props.C11.owner_covers_of_spec_head",
    "SpecVerif.Props.C11.owner_covers_of_silent_plain",
    "SpecVerif.Props.C11.middle_override_not_covered",
    "SpecVerif.Props.C11.middle_override_maps",
    "SpecVerif.Props.C11.set_keeps_own_value",
    "SpecVerif.Props.C11.set_keeps_own_value_of_acyclic",
    "SpecVerif.Props.C11.set_drops_own_value_of_full_cycle",
    "SpecVerif.Props.C11.invalidate_terminates",
    "SpecVerif.Props.C11.invalidate_order_irrelevant",
]
RULE = (
    "case = dependency graph over <= 4 names (kinds: managed attr with/without default, list attr, unmanaged attr "
    "with/without class value, spec_property cache x overridable x annotated; invalidated_by subsets incl. '*'; "
    "members placed in a spec base class, a spec subclass or an undecorated subclass; hierarchies of up to 3 classes in "
    "which names are declared AGAIN in a subclass in every form of the class syntax: re-annotated attr / `n: T` only / "
    "annotated property, and without annotation a plain value, a property, `n = Attr(...)`, each with the same, other "
    "or no invalidated_by, over managed and unmanaged inherited names) x constructor kwargs x "
    "__post_init__ ops x history of reads, overrides and mutations through every entry point (setattr, delattr, "
    "with_/update_/transform_/reset_<a>, element helpers, update/transform/reset; in place and copy-on-write; "
    "ill-typed and otherwise failing mutations). quick: fixed graph set + random graphs, random histories; thorough: "
    "every graph of the 3-name grammar + every (base declaration x redeclaration) pair of the redeclaration grammar + "
    "random 4-name graphs, longer histories. Non-trivial = an operation that "
    "changed an instance, created one, called a getter or raised; distinct = distinct (graph, pre-state, op)."
)
EXHAUSTIVE = {"quick": False, "thorough": False}
ASSUMPTIONS = [
    "getters are pure, total, and read only names among their (transitive) declared dependencies",
    "no dependency cycle passes through an attribute that has a default (the library recurses without bound there: RecursionError)",
    "defaults conform to the declared types; no frozen classes, no custom property setters/deleters (C07/C12 cover those)",
    "invalidation discards user overrides as well as caches (DESIGN.md section 10 item 7)",
    "an undecorated class does not put a plain value over a managed PROPERTY, and the undecorated classes below the "
    "last spec class only add new un-annotated properties (not modelled, not generated; see docs/C11.md)",
    "a spec_property put over an inherited managed attribute without declaring invalidated_by keeps the inherited "
    "invalidated_by (the library's reading of 'the rest of the inherited configuration still applies')",
]
OPEN_STATEMENTS = [
    "SpecVerif.Props.C11.FullStatement (dependants declared in an undecorated subclass): refuted by full_statement_fails; "
    "fresh_reachable_partial proves it under OwnerCoversDependants (KF-C11-plain-subclass)",
    "OwnerCoversDependants for every table whose head is a spec class: refuted by middle_override_not_covered (a property "
    "that an undecorated class between two spec classes puts over a managed name; KF-C11-plain-middle-override); "
    "owner_covers_of_spec_head proves it under PlainClassesSilent",
]
KF_MATCHER = "plain_subclass_dependant"
KF2_MATCHER = "plain_middle_override"
KF3_MATCHER = "own_value_dropped_by_full_cycle"

_REGISTERED = False
_REGISTERED2 = False
_SUPPRESSED = {"cases": 0, "sample": None}
_REGISTERED3 = False
_SUPPRESSED2 = {"cases": 0, "sample": None}
_SUPPRESSED3 = {"cases": 0, "sample": None}
_NS = {}


def setup():
    global _REGISTERED, _REGISTERED2, _REGISTERED3
    import common

    _REGISTERED = any(
        k.get("matcher") == KF_MATCHER and k.get("status") == "open" for k in common.load_known(PID)
    )
    _REGISTERED3 = any(
        k.get("matcher") == KF3_MATCHER and k.get("status") == "open" for k in common.load_known(PID)
    )
    _REGISTERED2 = any(
        k.get("matcher") == KF2_MATCHER and k.get("status") == "open" for k in common.load_known(PID)
    )
    import spec_classes  # noqa: F401  (imported from VERIF_REPO by common.use_repo)


# ---------------------------------------------------------------------------
# graph helpers (declared dependency graph, from the case only)
# ---------------------------------------------------------------------------

DERIVED_KINDS = ("attr", "attrnd", "list", "prop")
ATTR_KINDS = ("attr", "attrnd", "list")


def form_of(m):
    """how the class body writes the declaration: std | viaattr (`n: T = Attr(...)`) | bareattr (`n = Attr(...)`)"""
    if m["kind"] in ATTR_KINDS:
        if m.get("f") == "bareattr":
            return "bareattr"
        if m.get("inv") or m.get("f") == "viaattr":
            return "viaattr"
    return "std"


def _annotated(m):
    if m["kind"] in ATTR_KINDS:
        return form_of(m) != "bareattr"
    return m["kind"] == "prop" and bool(m.get("a"))


def _binds(m):
    """the class body leaves a class-level value under the name (`Attr()` without default leaves MISSING)"""
    k = m["kind"]
    if k == "attrnd":
        return form_of(m) != "std"
    return k != "plainnc"


def _dflt(m):
    return m.get("d", [] if m["kind"] == "list" else 0)


def _as_attr(n, d, inv):
    """a managed attribute whose default is the class-level value d (None = MISSING)"""
    if d is None:
        return {"n": n, "kind": "attrnd", "inv": list(inv)}
    return {"n": n, "kind": "list" if isinstance(d, list) else "attr", "d": copy.deepcopy(d), "inv": list(inv)}


def _as_prop(n, src, inv):
    return {"n": n, "kind": "prop", "c": src.get("c"), "o": src.get("o"), "a": 1, "inv": list(inv), "reads": list(src.get("reads", []))}


def _cls_val(classes, upto, n):
    """getattr(C<upto>, n): the first declaration, most-derived first, that binds a class-level value"""
    for cl in reversed(classes[: upto + 1]):
        for m in cl["members"]:
            if m["n"] == n and _binds(m):
                return m
    return None


def _effective(case, honour=True):
    """Which declaration of each name counts, as the library's documentation of inheritance has it
    (and `spec_class.bootstrap` implements it): walking the hierarchy base first,
      * a name annotated in a spec class body is declared from scratch there (`invalidated_by` of its `Attr(...)`,
        else of the spec_property found under the name -- possibly an inherited one when the body says `n: T` only);
      * an inherited managed name overridden without annotation keeps what the body does not say: a plain value is
        a new default with the inherited invalidated_by; a spec_property uses its own invalidated_by and falls back
        to the inherited one only if it declares none; `n = Attr(...)` replaces the declaration altogether;
      * classes that do not mention the name change nothing about a managed name; an undecorated class between the
        spec classes that puts a plain value / a spec_property over a managed name changes what instances see (default,
        kind) and -- per the property text, `honour=True` -- a property's own invalidated_by counts like in a spec
        class; the library ignores it (`honour=False`, used only by the matcher of KF-C11-plain-middle-override);
      * an unmanaged name is whatever attribute resolution finds (most-derived binding declaration)."""
    classes = case["classes"]
    attrs = {}
    last_spec = max(i for i, cl in enumerate(classes) if cl["spec"])
    for ci, cl in enumerate(classes):
        if not cl["spec"]:
            if ci < last_spec:
                seen_here = set()
                for m in cl["members"]:
                    n = m["n"]
                    if n in seen_here or n not in attrs:
                        continue
                    seen_here.add(n)
                    sp = attrs[n]
                    if m["kind"] == "plain":
                        attrs[n] = _as_attr(n, _dflt(m), sp["inv"])
                    elif m["kind"] == "prop":
                        attrs[n] = _as_prop(n, m, (list(m.get("inv", [])) or sp["inv"]) if honour else sp["inv"])
            continue
        done = set()
        for m in cl["members"]:
            n = m["n"]
            if n in done:
                continue
            done.add(n)
            k = m["kind"]
            inv = list(m.get("inv", []))
            if _annotated(m):
                if k == "prop":
                    attrs[n] = _as_prop(n, m, inv)
                elif k in ("attr", "list"):
                    attrs[n] = _as_attr(n, _dflt(m), inv)
                elif form_of(m) != "std":
                    attrs[n] = _as_attr(n, None, inv)
                else:
                    v = _cls_val(classes, ci - 1, n)
                    if v is None or v["kind"] == "attrnd":
                        attrs[n] = _as_attr(n, None, inv)
                    elif v["kind"] == "prop":
                        attrs[n] = _as_prop(n, v, inv or v.get("inv", []))
                    else:
                        attrs[n] = _as_attr(n, _dflt(v), inv)
            elif n in attrs:
                sp = attrs[n]
                if k in ATTR_KINDS:
                    attrs[n] = _as_attr(n, None if k == "attrnd" else _dflt(m), inv)
                elif k == "plain":
                    attrs[n] = _as_attr(n, _dflt(m), sp["inv"])
                elif k == "prop":
                    attrs[n] = _as_prop(n, m, inv or sp["inv"])
    out = {}
    names = []
    for cl in classes:
        for m in cl["members"]:
            if m["n"] not in names:
                names.append(m["n"])
    for n in names:
        top = _cls_val(classes, len(classes) - 1, n)
        top_ci = None
        if top is not None:
            top_ci = max(i for i, cl in enumerate(classes) if any(x is top for x in cl["members"]))
        if top is not None and top_ci > last_spec:
            e = dict(top)  # bound by an undecorated subclass of the last spec class
            e["managed"] = n in attrs
        elif n in attrs:
            e = dict(attrs[n])
            e["managed"] = True
        elif top is not None:
            e = dict(top)
            e["managed"] = False
            if e["kind"] == "prop":
                e["a"] = 0
        else:
            e = {"n": n, "kind": "plainnc", "inv": [], "managed": False}
        out[n] = e
    return out


_EFF_CACHE = {}


def members_of(case):
    """the effective declaration of each name (see `_effective`); cached per `classes` object"""
    key = id(case["classes"])
    hit = _EFF_CACHE.get(key)
    if hit is not None and hit[0] is case["classes"]:
        return hit[1]
    if len(_EFF_CACHE) > 4096:
        _EFF_CACHE.clear()
    eff = _effective(case)
    _EFF_CACHE[key] = (case["classes"], eff)
    return eff


def redeclared_names(case):
    seen, out = set(), set()
    for cl in case["classes"]:
        for n in {m["n"] for m in cl["members"]}:
            (out if n in seen else seen).add(n)
    return out


def all_names(case):
    return sorted(members_of(case))


def plain_prefix_names(case):
    """names whose effective declaration sits in an undecorated class derived from the last spec class"""
    last_spec = max(i for i, cl in enumerate(case["classes"]) if cl["spec"])
    out = set()
    for i, cl in enumerate(case["classes"]):
        if i > last_spec:
            out |= {m["n"] for m in cl["members"]}
    return out


def edges(case, mem=None):
    """x -> d iff d lists x (or '*') in invalidated_by, d != x"""
    mem = members_of(case) if mem is None else mem
    names = list(mem)
    e = {x: set() for x in names}
    for d, m in mem.items():
        for k in m.get("inv", []):
            if k == "*":
                for x in names:
                    if x != d:
                        e[x].add(d)
            elif k != d:
                e.setdefault(k, set()).add(d)
    return e


def reach(case, mem=None):
    """strict transitive closure: reach[x] = {d | x ->+ d}"""
    e = edges(case, mem)
    r = {}
    for x in e:
        seen, todo = set(), list(e[x])
        while todo:
            d = todo.pop()
            if d in seen:
                continue
            seen.add(d)
            todo.extend(e.get(d, ()))
        r[x] = seen
    return r


def ancestors(case, mem=None):
    r = reach(case, mem)
    names = all_names(case)
    return {t: {x for x in r if t in r[x]} for t in names}


def resettable(m):
    return m["kind"] in ("attr", "list")


def well_formed(case):
    """no dependency cycle through a defaulted attribute -- neither in the declared graph nor in the one the library
    uses where the two differ (KF-C11-plain-middle-override: the inherited invalidated_by instead of the property's own)"""
    views = [members_of(case)]
    if middle_override_names(case):
        views.append(_effective(case, False))
    for mem in views:
        r = reach(case, mem)
        for n, m in mem.items():
            if resettable(m) and n in r.get(n, ()):
                return False
    return True


def is_managed(m):
    return bool(m.get("managed"))


def managed_names(case):
    """names of metadata.attrs: base classes first, first occurrence keeps its place"""
    last_spec = max(i for i, cl in enumerate(case["classes"]) if cl["spec"])
    mem = members_of(case)
    pp = plain_prefix_names(case)
    out = []
    for i, cl in enumerate(case["classes"]):
        if i > last_spec:
            continue
        for m in cl["members"]:
            if m["n"] not in out and is_managed(mem[m["n"]]) and m["n"] not in pp:
                out.append(m["n"])
    return out


# ---------------------------------------------------------------------------
# rendering a case to real classes
# ---------------------------------------------------------------------------


class Ctx:
    """Per-execution context shared with the rendered classes."""

    def __init__(self, case):
        self.case = case
        self.mem = members_of(case)
        self.log = []
        self.quiet = 0
        self.post_hook = None


def show_val(v):
    if isinstance(v, bool):
        return "bad"
    if isinstance(v, int):
        return str(v)
    if isinstance(v, list):
        return "[" + ";".join(str(x) for x in v) + "]"
    return "bad"


def parse_val(tok):
    if tok == "bad":
        return "bad"
    if isinstance(tok, list):
        return list(tok)
    return tok


def pool_getter(ctx, obj, n):
    if not ctx.quiet:
        ctx.log.append(n)
    acc = 0
    for d in ctx.mem[n].get("reads", []):
        md = ctx.mem.get(d)
        kind = md["kind"] if md else "plainnc"
        if kind == "prop":
            v = obj.__dict__.get(f"n{d}")
            dig = (-v) % 13 if isinstance(v, int) and v < 0 else 0
        else:
            v = obj.__dict__.get(f"n{d}")
            if v is None and kind == "plain":
                v = md["d"]  # class-level value
            if v is None:
                dig = 0
            elif isinstance(v, list):
                dig = (sum(v) + 3 * len(v)) % 10 + 1
            elif isinstance(v, int):
                dig = (v + 1) % 13
            else:
                dig = 12
        acc += dig * 13**d
    return acc * 4 + n


def render(case, ctx):
    from typing import List  # noqa: F401

    from spec_classes import Attr, spec_class, spec_property

    def key_src(k):
        return "'*'" if k == "*" else f"'n{k}'"

    ns = {
        "List": List, "Attr": Attr, "spec_class": spec_class, "spec_property": spec_property,
        "_GET": lambda obj, n: pool_getter(ctx, obj, n),
        "_POST": lambda obj: ctx.post_hook(obj) if ctx.post_hook else None,
    }
    src = []
    for ci, cl in enumerate(case["classes"]):
        if cl["spec"]:
            src.append("@spec_class")
        src.append(f"class C{ci}" + (f"(C{ci - 1}):" if ci else ":"))
        body = []
        for m in cl["members"]:
            if m["kind"] == "prop" and m.get("a"):
                body.append(f"    n{m['n']}: int")
        for m in cl["members"]:
            name = f"n{m['n']}"
            inv = "[" + ", ".join(key_src(k) for k in m.get("inv", [])) + "]"
            has_inv = bool(m.get("inv"))
            k = m["kind"]
            form = form_of(m)
            if k in ATTR_KINDS:
                typ = "List[int]" if k == "list" else "int"
                kw = ([] if k == "attrnd" else [f"default={_dflt(m)!r}"]) + ([f"invalidated_by={inv}"] if has_inv else [])
                if form == "bareattr":
                    body.append(f"    {name} = Attr({', '.join(kw)})")
                elif form == "viaattr":
                    body.append(f"    {name}: {typ} = Attr({', '.join(kw)})")
                elif k == "attrnd":
                    body.append(f"    {name}: {typ}")
                else:
                    body.append(f"    {name}: {typ} = {_dflt(m)!r}")
            elif k == "plain":
                body.append(f"    {name} = {m['d']!r}")
            elif k == "plainnc":
                pass
            elif k == "prop":
                args = [f"cache={bool(m.get('c'))}", f"overridable={bool(m.get('o'))}"]
                if has_inv:
                    args.append(f"invalidated_by={inv}")
                body.append(f"    @spec_property({', '.join(args)})")
                body.append(f"    def {name}(self):")
                body.append(f"        return _GET(self, {m['n']})")
        if ci == 0:
            body.append("    def __post_init__(self):")
            body.append("        _POST(self)")
        src.extend(body or ["    pass"])
    exec("\n".join(src), ns)  # noqa: S102
    return ns[f"C{len(case['classes']) - 1}"]


ERRS = ("TypeError", "ValueError", "KeyError", "IndexError", "AttributeError", "FrozenInstanceError", "RuntimeError")


def err_name(e):
    for klass in type(e).__mro__:
        if klass.__name__ in ERRS:
            return klass.__name__
    return type(e).__name__


def tf_fn(name):
    from spec_classes import MISSING

    def inc(v):
        if v is MISSING:
            raise TypeError("missing")
        if isinstance(v, list):
            return v + [1]
        return (v + 1) % 10 if v >= 0 else v

    def neg(v):
        if v is MISSING or not isinstance(v, int):
            raise TypeError("missing")
        return -((abs(v) % 9) + 1)

    return {"inc": inc, "neg": neg, "bad": lambda v: "bad"}[name]


def item_name(obj, n):
    return type(obj).__spec_class__.attrs[f"n{n}"].item_name


def apply_op(ctx, insts, i, inplace, op):
    """Runs one op on the real instances; returns the outcome token (raises what the library raises)."""
    x = insts[i]
    kind = op[0]

    def done(r):
        if inplace:
            assert r is x, "in-place helper returned another object"
            return "ok"
        assert r is not x, "copy-on-write helper returned the receiver"
        insts.append(r)
        return f"new {len(insts) - 1}"

    if kind == "read":
        v = getattr(x, f"n{op[1]}")
        if not isinstance(v, (int, list)):
            # `n: int = Attr(invalidated_by=...)` leaves the MISSING sentinel on the class: an unset attribute
            # then reads as MISSING instead of raising (C08's business); canonicalised to AttributeError here
            raise AttributeError(f"n{op[1]}")
        return "val " + show_val(v)
    if kind == "set":
        setattr(x, f"n{op[1]}", parse_val(op[2]))
        return "ok"
    if kind == "del":
        delattr(x, f"n{op[1]}")
        return "ok"
    if kind in ("with", "withu"):
        meth = ("with_" if kind == "with" else "update_") + f"n{op[1]}"
        return done(getattr(x, meth)(parse_val(op[2]), _inplace=inplace))
    if kind == "tf":
        return done(getattr(x, f"transform_n{op[1]}")(tf_fn(op[2]), _inplace=inplace))
    if kind == "rst":
        return done(getattr(x, f"reset_n{op[1]}")(_inplace=inplace))
    if kind == "elem":
        it = item_name(x, op[1])
        ek, arg = op[2], parse_val(op[3])
        if ek == "app":
            return done(getattr(x, f"with_{it}")(arg, _inplace=inplace))
        if ek == "ins":
            return done(getattr(x, f"with_{it}")(arg, _index=0, _insert=True, _inplace=inplace))
        if ek == "rem":
            return done(getattr(x, f"without_{it}")(arg, _inplace=inplace))
        if ek == "remi":
            return done(getattr(x, f"without_{it}")(arg, _by_index=True, _inplace=inplace))
        if ek == "tfi":
            return done(getattr(x, f"transform_{it}")(arg, lambda v: (v + 1) % 10, _by_index=True, _inplace=inplace))
        raise ValueError(op)
    if kind == "upd":
        return done(x.update(**{f"n{k}": parse_val(v) for k, v in op[1]}, _inplace=inplace))
    if kind == "tfm":
        return done(x.transform(**{f"n{k}": tf_fn(f) for k, f in op[1]}, _inplace=inplace))
    if kind == "reset":
        return done(x.reset(_inplace=inplace))
    raise ValueError(op)


def op_targets(case, op, held):
    """names the op mutates when it succeeds (property text: assignment, deletion or any helper).
    `held` = names present in the receiver's __dict__ before the call: `reset()` deletes every managed
    attribute, which changes nothing for one that has neither a value nor a default."""
    k = op[0]
    if k == "read":
        return set()
    if k in ("upd", "tfm"):
        return {p[0] for p in op[1]}
    if k == "reset":
        mem = members_of(case)
        return {n for n in managed_names(case) if resettable(mem[n]) or n in held}
    return {op[1]}


def show_inst(ctx, obj):
    ents = []
    for n in sorted(ctx.mem):
        name = f"n{n}"
        if name in obj.__dict__:
            v = obj.__dict__[name]
            tag = ""
            if ctx.mem[n]["kind"] == "prop":
                tag = "o:" if isinstance(v, int) and v < 0 else "c:"
            ents.append(f"{n}={tag}{show_val(v)}")
    return "{" + ",".join(ents) + "}"


def show_world(ctx, insts):
    return " | ".join(show_inst(ctx, x) for x in insts)


def show_calls(calls):
    return "calls=" + (",".join(str(c) for c in calls) if calls else "-")


def run_case(case, observer=None):
    """Executes the case on the real library; returns the protocol lines.
    `observer(phase, ctx, insts, step)` is called around every op (oracle)."""
    ctx = Ctx(case)
    lines = []
    for cl in case["classes"]:
        lines.append("ok")
        lines.extend("ok" for _ in cl["members"])
    cls = render(case, ctx)
    insts = []
    state = {"entered": False}

    def one(i, inplace, op, where):
        ctx.log.clear()
        if not insts:
            lines.append("err IndexError ;; calls=- ;; " + show_world(ctx, insts))
            return
        i = i % len(insts)
        step = {"i": i, "inplace": inplace, "op": op, "where": where}
        if observer:
            observer("before", ctx, insts, step)
        try:
            out = apply_op(ctx, insts, i, inplace, op)
            step["ok"] = True
        except AssertionError:
            raise
        except Exception as e:  # noqa: BLE001
            out = "err " + err_name(e)
            step["ok"] = False
        step["out"] = out
        calls = list(ctx.log)
        step["calls"] = calls
        lines.append(f"{out} ;; {show_calls(calls)} ;; {show_world(ctx, insts)}")
        if observer:
            observer("after", ctx, insts, step)

    def post_hook(obj):
        state["entered"] = True
        insts.append(obj)
        lines.append("ok ;; calls=- ;; " + show_world(ctx, insts))
        if observer:
            observer("constructed", ctx, insts, {"where": "ctor"})
        for op in case.get("post", []):
            one(0, True, op, "post")

    ctx.post_hook = post_hook
    kwargs = {f"n{k}": parse_val(v) for k, v in case.get("ctor", [])}
    try:
        obj = cls(**kwargs)
        assert state["entered"] and insts[0] is obj
    except AssertionError:
        raise
    except Exception as e:  # noqa: BLE001
        if state["entered"]:
            raise
        lines.append(f"err {err_name(e)} ;; calls=- ;; ")
        for _ in case.get("post", []):
            lines.append("err IndexError ;; calls=- ;; ")
    ctx.post_hook = None
    for i, inplace, op in case["ops"]:
        one(i, bool(inplace), op, "ops")
    return lines


def real_lines(case):
    return ["ok"] + run_case(case)


# ---------------------------------------------------------------------------
# model protocol
# ---------------------------------------------------------------------------


def val_tok(v):
    if isinstance(v, list):
        return "[" + ";".join(str(x) for x in v) + "]"
    return str(v)


def op_tokens(op):
    k = op[0]
    if k == "read":
        return f"read {op[1]}"
    if k == "set":
        return f"set {op[1]} {val_tok(op[2])}"
    if k == "del":
        return f"del {op[1]}"
    if k in ("with", "withu"):  # with_<n>(v) / update_<n>(v)
        return f"{k} {op[1]} {val_tok(op[2])}"
    if k == "tf":
        return f"tf {op[1]} {op[2]}"
    if k == "rst":
        return f"rst {op[1]}"
    if k == "elem":
        return f"elem {op[1]} {op[2]} {val_tok(op[3])}"
    if k == "upd":
        return "upd " + ",".join(f"{a}={val_tok(v)}" for a, v in op[1])
    if k == "tfm":
        return "tfm " + ",".join(f"{a}={f}" for a, f in op[1])
    if k == "reset":
        return "reset"
    raise ValueError(op)


def model_lines(case):
    out = ["reset"]
    eff = members_of(case)
    for cl in case["classes"]:
        out.append(f"class {1 if cl['spec'] else 0}")
        for m in cl["members"]:
            # what the getter found under the name reads (one pool getter per name, whichever class declares it)
            reads = ",".join(str(r) for r in eff[m["n"]].get("reads", [])) or "-"
            inv = ",".join(str(k) for k in m.get("inv", [])) or "-"
            out.append(
                f"mem {m['n']} {m['kind']} {int(bool(m.get('c')))} {int(bool(m.get('o')))} {int(bool(m.get('a')))} "
                f"{val_tok(_dflt(m))} {reads} {inv} {form_of(m)}"
            )
    kw = ",".join(f"{k}={val_tok(v)}" for k, v in case.get("ctor", [])) or "-"
    out.append(f"new {kw}")
    for op in case.get("post", []):
        out.append(f"op 0 1 {op_tokens(op)}")
    for i, inplace, op in case["ops"]:
        out.append(f"op {i} {1 if inplace else 0} {op_tokens(op)}")
    return out


# ---------------------------------------------------------------------------
# independent oracle (property text; never consults the model)
# ---------------------------------------------------------------------------


def _snap(ctx, obj):
    return {n: copy.deepcopy(obj.__dict__[f"n{n}"]) for n in ctx.mem if f"n{n}" in obj.__dict__}


def _is_cache(ctx, n, v):
    return ctx.mem[n]["kind"] == "prop" and isinstance(v, int) and v >= 0


def _recompute(ctx, obj, n):
    """the getter of n evaluated on a cache-free clone of obj"""
    ctx.quiet += 1
    try:
        clone = copy.deepcopy(obj)
        for k in list(ctx.mem):
            name = f"n{k}"
            if name in clone.__dict__ and _is_cache(ctx, k, clone.__dict__[name]):
                del clone.__dict__[name]
        return pool_getter(ctx, clone, n)
    finally:
        ctx.quiet -= 1


def _read_on_clone(ctx, obj, n):
    """(value, getter was called) for `obj.n`, evaluated on a deep copy so the history is not disturbed"""
    clone = copy.deepcopy(obj)
    mark = len(ctx.log)
    try:
        v = getattr(clone, f"n{n}")
    finally:
        called = n in ctx.log[mark:]
        del ctx.log[mark:]
    return v, called


def oracle_raw(case):
    viol = []
    anc = ancestors(case)
    rch = reach(case)
    mem = members_of(case)
    derived = [n for n, m in mem.items() if m.get("inv")]
    props = [n for n, m in mem.items() if m["kind"] == "prop"]
    before = {}

    def check_fresh(ctx, insts, label):
        for j, y in enumerate(insts):
            for p in props:
                name = f"n{p}"
                slot = y.__dict__.get(name, None)
                want = _recompute(ctx, y, p)
                if name in y.__dict__ and _is_cache(ctx, p, slot) and slot != want:
                    viol.append(f"{label}: stale cache dep=n{p} inst={j} holds {slot} getter-on-cache-free-clone gives {want}")
                got, _ = _read_on_clone(ctx, y, p)
                if not (isinstance(got, int) and got < 0) and got != want:
                    viol.append(f"{label}: stale read dep=n{p} inst={j} reads {got} recomputed {want}")

    def obs(phase, ctx, insts, step):
        if phase == "constructed":
            check_fresh(ctx, insts, "after construction")
            return
        if phase == "before":
            before["snaps"] = [_snap(ctx, y) for y in insts]
            before["n"] = len(insts)
            return
        op, i = step["op"], step["i"]
        label = f"{step['where']} op {op} inplace={step['inplace']} on inst {i}"
        snaps = before["snaps"]
        # every other instance is untouched
        for j, y in enumerate(insts[: before["n"]]):
            if j != i and _snap(ctx, y) != snaps[j]:
                viol.append(f"{label}: instance {j} changed although the call was on {i}")
        recv_before = snaps[i]
        recv_after = _snap(ctx, insts[i])
        if not step["ok"]:
            # a failed mutation discards nothing
            for n, v in recv_before.items():
                if recv_after.get(n, "<gone>") != v:
                    viol.append(f"{label}: failed ({step['out']}) but dep=n{n} went from {v} to {recv_after.get(n, '<gone>')}")
            if len(insts) != before["n"]:
                viol.append(f"{label}: failed but an instance appeared")
        else:
            targets = op_targets(case, op, set(recv_before))
            result = insts[-1] if len(insts) > before["n"] else insts[i]
            res_after = _snap(ctx, result)
            if result is not insts[i]:
                # copy-on-write: the receiver loses nothing
                for n, v in recv_before.items():
                    if recv_after.get(n, "<gone>") != v:
                        viol.append(f"{label}: copy-on-write call changed the receiver's dep=n{n}")
            # the value an assignment stores survives the invalidation round it triggers itself
            assigned = None
            if op[0] in ("set", "with", "withu"):
                assigned = (op[1], parse_val(op[2]))
            elif op[0] == "upd" and len(op[1]) == 1:
                assigned = (op[1][0][0], parse_val(op[1][0][1]))
            if assigned is not None and res_after.get(assigned[0], "<gone>") != assigned[1]:
                t0 = assigned[0]
                holders = sorted(y for y in rch.get(t0, ()) if y != t0 and t0 in rch.get(y, ()) and y in recv_before)
                viol.append(
                    f"{label}: own value dep=n{t0} was assigned {assigned[1]} but holds {res_after.get(t0, '<gone>')} "
                    f"afterwards cycle-holders={holders}"
                )
            for t in derived:
                if t in targets:
                    continue
                m = mem[t]
                hit = targets & anc[t]
                if hit:
                    if m["kind"] == "prop":
                        if t in res_after:
                            viol.append(
                                f"{label}: dep=n{t} still holds {res_after[t]} after a dependency was mutated via={sorted(hit)}"
                            )
                        else:
                            got, called = _read_on_clone(ctx, result, t)
                            want = _recompute(ctx, result, t)
                            if not called or got != want:
                                viol.append(f"{label}: dep=n{t} next read gave {got} (getter called={called}), current state gives {want} via={sorted(hit)}")
                    elif m["kind"] in ("attr", "list"):
                        dv = _dflt(m)
                        if res_after.get(t, "<gone>") != dv:
                            viol.append(f"{label}: dep=n{t} is {res_after.get(t, '<gone>')}, not back at its default {dv} via={sorted(hit)}")
                    else:
                        if t in res_after:
                            viol.append(f"{label}: dep=n{t} (no default) still holds {res_after[t]} via={sorted(hit)}")
                else:
                    # unrelated mutation: nothing discarded
                    if t in recv_before and res_after.get(t, "<gone>") != recv_before[t]:
                        viol.append(
                            f"{label}: unrelated dep=n{t} went from {recv_before[t]} to {res_after.get(t, '<gone>')}"
                        )
        check_fresh(ctx, insts, label)

    try:
        run_case(case, obs)
    except RecursionError:
        raise
    return viol[:12]


def _plain_subclass_core(case, violation):
    """KF-C11-plain-subclass: every complaint is about a dependant declared in an undecorated subclass
    of the last spec class, or about a name downstream of one whose mutated dependencies (`via=`) reach
    it only through such a dependant (the library's map has no entry for it, so the chain is cut there)."""
    import re

    pp = plain_prefix_names(case)
    mem = members_of(case)
    bad = {n for n in pp if mem[n].get("inv")}
    if not bad or violation == ["correspondence"]:
        return False
    r = reach(case)
    tainted = set(bad)
    for b in bad:
        tainted |= r.get(b, set())
    # the graph the library actually uses: declarations of `bad` contribute nothing
    code_case = copy.deepcopy(case)
    for cl in code_case["classes"]:
        for m in cl["members"]:
            if m["n"] in bad:
                m["inv"] = []
    anc_code = ancestors(code_case)
    for line in violation:
        m = re.search(r"dep=n(\d+)", line)
        if not m:
            return False
        t = int(m.group(1))
        if t in bad:
            continue
        if t not in tainted:
            return False
        via = re.search(r"via=\[([0-9, ]*)\]", line)
        if via and any(int(x) in anc_code[t] for x in via.group(1).split(",") if x.strip()):
            return False
    return True


def middle_override_names(case):
    """names n such that an UNDECORATED class strictly between two spec classes declares n as a spec_property with an
    invalidated_by of its own while a spec class above it manages n (the shape of KF-C11-plain-middle-override)"""
    classes = case["classes"]
    spec_idx = [i for i, cl in enumerate(classes) if cl["spec"]]
    out = set()
    for ci, cl in enumerate(classes):
        if cl["spec"] or not (spec_idx and spec_idx[0] < ci < spec_idx[-1]):
            continue
        above = _effective({"classes": classes[:ci]}, True)
        for m in cl["members"]:
            if m["kind"] == "prop" and m.get("inv") and above.get(m["n"], {}).get("managed"):
                out.add(m["n"])
    return out


def _plain_middle_core(case, violation):
    """KF-C11-plain-middle-override: the instance's class is a spec class, and every complaint is about a name whose
    invalidated_by the library takes from the spec base although an undecorated class in between overrides the name
    with a property that declares its own (or about a name downstream of one), and is not explained by a dependency
    the library's own map does know (`via=`)."""
    import re

    if violation == ["correspondence"] or not case["classes"][-1]["spec"]:
        return False
    shape = middle_override_names(case)
    if not shape:
        return False
    full = _effective(case, True)
    code = _effective(case, False)
    key = lambda m: sorted(map(str, m.get("inv", [])))  # noqa: E731
    bad = {n for n in full if key(full[n]) != key(code[n])}
    if not bad or not bad <= shape:
        return False
    r = reach(case, full)
    rc = reach(case, code)
    tainted = set(bad)
    for b in bad:
        tainted |= r.get(b, set()) | rc.get(b, set())
    anc_code = ancestors(case, code)
    for line in violation:
        m = re.search(r"dep=n(\d+)", line)
        if not m:
            return False
        t = int(m.group(1))
        if t not in tainted:
            return False
        via = re.search(r"via=\[([0-9, ]*)\]", line)
        if via and any(int(x) in anc_code[t] for x in via.group(1).split(",") if x.strip()):
            return False
    return True


def _own_line_ok(case, line):
    """KF-C11-cycle-drops-own-value: the complaint is that the value just assigned to t is gone, t lies on a dependency
    cycle of the declared graph, and another name of such a cycle held a value before the call (its delattr succeeds,
    re-enters invalidate_attrs with a fresh _visited and comes back to t)."""
    import re

    m = re.search(r"own value dep=n(\d+) was assigned .* cycle-holders=\[([0-9, ]*)\]", line)
    if not m:
        return False
    t = int(m.group(1))
    hs = [int(x) for x in m.group(2).split(",") if x.strip()]
    r = reach(case)
    if not hs or t not in r.get(t, ()):
        return False
    return all(y != t and y in r.get(t, ()) and t in r.get(y, ()) for y in hs)


def _split_own(violation):
    own = [ln for ln in violation if "own value dep=" in ln]
    return own, [ln for ln in violation if "own value dep=" not in ln]


def _accept(case, violation, me):
    """One case can show several open findings at once: every line must be explained by one of them, and at least
    one line by the finding `me` whose matcher is asking."""
    if violation == ["correspondence"]:
        return False
    own, rest = _split_own(violation)
    if any(not _own_line_ok(case, ln) for ln in own):
        return False
    sub = bool(rest) and _plain_subclass_core(case, rest)
    mid = bool(rest) and not sub and _plain_middle_core(case, rest)
    if rest and not (sub or mid):
        return False
    return {"own": bool(own), "sub": sub, "mid": mid}[me]


def plain_subclass_dependant(case, violation):
    return _accept(case, violation, "sub")


def plain_middle_override(case, violation):
    return _accept(case, violation, "mid")


def own_value_dropped_by_full_cycle(case, violation):
    return _accept(case, violation, "own")


KNOWN_MATCHERS = {
    KF_MATCHER: plain_subclass_dependant,
    KF2_MATCHER: plain_middle_override,
    KF3_MATCHER: own_value_dropped_by_full_cycle,
}


def oracle(case):
    v = oracle_raw(case)
    if v and not _REGISTERED3:
        own, rest = _split_own(v)
        if own and all(_own_line_ok(case, ln) for ln in own):
            _SUPPRESSED3["cases"] += 1
            if _SUPPRESSED3["sample"] is None:
                _SUPPRESSED3["sample"] = {"case": case, "violation": own[:3]}
            v = rest
    if v and not _REGISTERED and plain_subclass_dependant(case, v):
        _SUPPRESSED["cases"] += 1
        if _SUPPRESSED["sample"] is None:
            _SUPPRESSED["sample"] = {"case": case, "violation": v[:3]}
        return []
    if v and not _REGISTERED2 and plain_middle_override(case, v):
        _SUPPRESSED2["cases"] += 1
        if _SUPPRESSED2["sample"] is None:
            _SUPPRESSED2["sample"] = {"case": case, "violation": v[:3]}
        return []
    return v


# ---------------------------------------------------------------------------
# generation
# ---------------------------------------------------------------------------

PROP_FLAVOURS = {
    "propC": dict(c=1, o=1, a=0),  # cached, overridable
    "propU": dict(c=0, o=1, a=0),  # uncached, overridable
    "propN": dict(c=1, o=0, a=0),  # cached, not overridable
    "propA": dict(c=1, o=1, a=1),  # cached, overridable, annotated (managed: with_/transform_/reset_ helpers)
}


def mk(n, kind, inv=(), d=None):
    m = {"n": n, "inv": list(inv)}
    if kind in PROP_FLAVOURS:
        m.update(kind="prop", **PROP_FLAVOURS[kind])
    else:
        m["kind"] = kind
    if m["kind"] in ("attr", "plain"):
        m["d"] = (3 + 2 * n) % 10 if d is None else d
    return m


def finish(case):
    """fills in what each pool getter reads: every name among its strict declared ancestors"""
    anc = ancestors(case)
    for cl in case["classes"]:
        for m in cl["members"]:
            if m["kind"] == "prop":
                m["reads"] = sorted(x for x in anc[m["n"]] if x != m["n"])
    _EFF_CACHE.pop(id(case["classes"]), None)  # the effective members carry the `reads`
    return case


def graph(*classes):
    return {"classes": [{"spec": sp, "members": list(ms)} for sp, ms in classes]}


def fixed_graphs():
    S, P = True, False
    g = []
    # chain a -> q -> p through cached / uncached / non-overridable intermediates
    for mid in ("propC", "propU", "propN", "propA", "attrnd"):
        g.append(graph((S, [mk(0, "attr"), mk(1, mid, [0]), mk(2, "propC", [1]), mk(3, "propC", [2])])))
    # resettable attribute in the middle and at the end of a chain
    g.append(graph((S, [mk(0, "attr"), mk(1, "attr", [0]), mk(2, "propC", [1]), mk(3, "attr", [2])])))
    # unmanaged dependencies, list dependency, wildcard
    g.append(graph((S, [mk(0, "plain"), mk(1, "plainnc"), mk(2, "propC", [0, 1]), mk(3, "attr", [0])])))
    g.append(graph((S, [mk(0, "list"), mk(1, "attr"), mk(2, "propC", [0]), mk(3, "propC", ["*"])])))
    g.append(graph((S, [mk(0, "attr"), mk(1, "propC", ["*"]), mk(2, "propC", ["*"]), mk(3, "propU", [1])])))
    g.append(graph((S, [mk(0, "attr"), mk(1, "attr", ["*"]), mk(2, "list"), mk(3, "plainnc")])))
    g.append(graph((S, [mk(0, "attr"), mk(1, "propA", [0, "*"]), mk(2, "propA", [1]), mk(3, "attrnd", [2])])))
    # collection dependencies: in-place element helpers re-assign the very same list object
    g.append(graph((S, [mk(0, "list"), mk(1, "attr", [0]), mk(2, "propC", [1]), mk(3, "propU", ["*"])])))
    g.append(graph((S, [mk(0, "list"), mk(1, "propU", [0]), mk(2, "propC", [1]), mk(3, "attr", [2])])))
    g.append(graph((S, [mk(0, "list"), mk(1, "list", [0]), mk(2, "propA", [1]), mk(3, "attrnd", [0])])))
    # property cycles (allowed: no default on the cycle)
    g.append(graph((S, [mk(0, "attr"), mk(1, "propC", [0, 2]), mk(2, "propC", [1]), mk(3, "propA", [2])])))
    # a cycle of explicit dependencies next to a wildcard dependant (the wildcard set must be unioned at every level)
    g.append(graph((S, [mk(0, "attr"), mk(1, "propC", [0, 2]), mk(2, "propC", [1]), mk(3, "propC", ["*"])])))
    g.append(graph((S, [mk(0, "attr"), mk(1, "propU", [0, 2]), mk(2, "attrnd", [1]), mk(3, "propA", ["*"])])))
    # diamond
    g.append(graph((S, [mk(0, "attr"), mk(1, "propU", [0]), mk(2, "propC", [0]), mk(3, "propC", [1, 2])])))
    # inheritance: dependants added in a spec subclass
    g.append(graph((S, [mk(0, "attr"), mk(1, "propC", [0])]), (S, [mk(2, "propC", [1]), mk(3, "attr", [0])])))
    g.append(graph((S, [mk(0, "attr"), mk(1, "list")]), (S, [mk(2, "propA", [1]), mk(3, "propC", ["*"])])))
    # redeclaration in a spec subclass changes invalidated_by
    g.append(graph((S, [mk(0, "attr"), mk(1, "attr"), mk(2, "propC", [0])]), (S, [mk(2, "propC", [1]), mk(3, "propC", [2])])))
    # plain class in the middle, spec class below it: members of the plain class are seen
    g.append(graph((S, [mk(0, "attr")]), (P, [mk(1, "propC", [0])]), (S, [mk(2, "propC", [1])])))
    return [finish(x) for x in g if well_formed(finish(x))]


def plain_graphs():
    S, P = True, False
    g = []
    g.append(graph((S, [mk(0, "attr"), mk(1, "propC", [0])]), (P, [mk(2, "propC", [0]), mk(3, "propC", [1])])))
    g.append(graph((S, [mk(0, "attr"), mk(1, "list")]), (P, [mk(2, "propC", ["*"]), mk(3, "propU", [1])])))
    g.append(graph((S, [mk(0, "attr")]), (S, [mk(1, "propC", [0])]), (P, [mk(2, "propC", [1]), mk(3, "propC", [0])])))
    return [finish(x) for x in g]


BASE_KINDS = ["attr", "attrnd", "list", "plain", "plainnc"]
DERIVED = ["attr", "attrnd", "propC", "propU", "propN", "propA"]


def random_graph(rng, nnames=4, allow_plain=False):
    for _ in range(200):
        kinds = []
        for n in range(nnames):
            if n == 0 or rng.random() < 0.3:
                kinds.append(rng.choice(BASE_KINDS + ["propU"] * (n > 0)))
            else:
                kinds.append(rng.choice(DERIVED + ["list"]))
        ms = []
        for n, k in enumerate(kinds):
            inv = []
            if k in DERIVED or (k == "list" and rng.random() < 0.3):
                if n == 0 and k not in DERIVED:
                    inv = []
                else:
                    keys = [x for x in range(nnames) if x != n] + ["*"]
                    inv = rng.sample(keys, rng.choice([0, 1, 1, 1, 2]))
                    if "*" in inv and rng.random() < 0.5:
                        inv.remove("*")
            ms.append(mk(n, k, inv, d=rng.randint(0, 9)))
        shape = rng.random()
        cut = rng.randint(1, nnames - 1) if nnames > 1 else nnames
        if shape < 0.55 or nnames == 1:
            classes = [(True, ms)]
        elif shape < 0.8 or not allow_plain:
            classes = [(True, ms[:cut]), (True, ms[cut:])]
        else:
            tail = ms[cut:]
            if any(m["kind"] != "prop" or m.get("a") for m in tail):
                continue
            classes = [(True, ms[:cut]), (False, tail)]
        c = finish(graph(*classes))
        if well_formed(c):
            return c
    return finish(graph((True, [mk(0, "attr"), mk(1, "propC", [0])])))


# ---- redeclarations: a name declared again further down the hierarchy --------------------------------------------

REDECL_INT_MANAGED = ["value", "propC", "propU", "propN", "bareattr", "bareattrnd", "attr", "attrnd", "propA"]
REDECL_LIST_MANAGED = ["value", "bareattr", "list"]  # (a property over a List[int] attribute would have to return lists)
REDECL_UNMANAGED = ["value", "propC", "propU", "propN", "attr", "attrnd", "propA"]
PLAIN_CLASS_OK = ("plain", "plainnc")


def redecl_member(n, form, inv, is_list, d):
    """the declaration of `n` in a subclass body: `form` says how it is written"""
    inv = list(inv)
    val = ([d % 3, 7] if d % 2 else [d]) if is_list else d
    if form == "value":  # `n = v`: no annotation, no Attr
        return {"n": n, "kind": "plain", "d": val, "inv": []}
    if form in PROP_FLAVOURS:  # propC/propU/propN: un-annotated property; propA: re-annotated
        return mk(n, form, inv)
    if form == "bareattr":  # `n = Attr(default=v, invalidated_by=...)`, no annotation
        return {"n": n, "kind": "list" if is_list else "attr", "d": val, "inv": inv, "f": "bareattr"}
    if form == "bareattrnd":  # `n = Attr(invalidated_by=...)`, no annotation, no default
        return {"n": n, "kind": "attrnd", "inv": inv, "f": "bareattr"}
    if form in ("attr", "list"):  # re-annotated with a default
        return {"n": n, "kind": "list" if is_list else "attr", "d": val, "inv": inv}
    if form == "attrnd":  # `n: int` (the class-level value of an ancestor shows through) / `n: int = Attr(invalidated_by=..)`
        return {"n": n, "kind": "attrnd", "inv": inv}
    raise ValueError(form)


def in_plain_class_ok(m):
    return m["kind"] in PLAIN_CLASS_OK or (m["kind"] == "prop" and not m.get("a"))


def random_redeclared_graph(rng, nnames=4):
    """a hierarchy of 2 or 3 classes in which 1-3 names are declared again in a subclass, in every form the
    class syntax offers (same or different invalidated_by, none at all, with and without annotation)"""
    for _ in range(200):
        base = random_graph(rng, nnames)
        ms = [m for cl in base["classes"] for m in cl["members"]]
        for m in ms:
            m.pop("reads", None)
        shape = rng.choice(["SS", "SS", "SSS", "SSS", "SPS", "SSP"])
        specs = [ch == "S" for ch in shape]
        spec_idx = [i for i, sp in enumerate(specs) if sp]
        last_spec = spec_idx[-1]
        classes = [[] for _ in shape]
        for m in ms:
            if shape == "SSP":
                ci = rng.choice([0, 0, 1])
            else:
                ci = rng.choice([0, 0, 1] if len(shape) == 2 else [0, 0, 0, 1, 1, 2])
            if not specs[ci] and not in_plain_class_ok(m):
                ci = 0
            classes[ci].append(m)
        if not classes[0]:
            continue
        ok = True
        for _k in range(rng.choice([1, 1, 2, 3])):
            # where: a class below the one that declares the name (never the undecorated tail)
            cands = [(m["n"], ci) for ci, cl in enumerate(classes[:last_spec]) for m in cl]
            if not cands:
                ok = False
                break
            n, src = rng.choice(cands)
            ti = rng.choice([i for i in range(src + 1, last_spec + 1)])
            if any(m["n"] == n for m in classes[ti]):
                continue
            eff = _effective({"classes": [{"spec": sp, "members": cl} for sp, cl in zip(specs[:ti], classes[:ti])]})
            e = eff[n]
            is_list = e["kind"] == "list" or isinstance(e.get("d"), list)
            if specs[ti]:
                forms = (REDECL_LIST_MANAGED if is_list else REDECL_INT_MANAGED) if e["managed"] else (["value", "propC", "list"] if is_list else REDECL_UNMANAGED)
            else:
                # an undecorated class between the spec classes; over a managed name a property with its own
                # invalidated_by is KF-C11-plain-middle-override
                forms = ["value"] if is_list else (["value", "propC", "propU", "propN"] if e["managed"] else ["value", "propC", "propU"])
                if e["managed"] and e["kind"] == "prop":
                    # (a plain value over a managed PROPERTY in an undecorated class: the entry stays masked, the value
                    #  is a class-level fallback without being a default -- not modelled, see docs/C11.md)
                    forms = ["propC", "propU", "propN"]
            form = rng.choice(forms)
            keys = [x for x in range(nnames) if x != n] + ["*"]
            how = rng.random()
            if how < 0.2:
                inv = []
            elif how < 0.35:
                inv = [k for k in e.get("inv", [])]
            else:
                inv = rng.sample(keys, rng.choice([1, 1, 2]))
            classes[ti].append(redecl_member(n, form, inv, is_list, rng.randint(0, 9)))
        if not ok:
            continue
        if shape == "SSP" and not all(in_plain_class_ok(m) and m["kind"] == "prop" for m in classes[2]):
            continue
        if shape == "SSP" and not _REGISTERED:
            continue
        c = graph(*zip(specs, classes))
        if not redeclared_names(c):
            continue
        c = finish(c)
        if well_formed(c):
            return c
    return finish(graph((True, [mk(0, "attr"), mk(1, "attr"), mk(2, "propA", [0])]), (True, [mk(2, "propC", [0, 1])])))


def redecl_grammar():
    """every (declaration in the base class) x (redeclaration in a spec subclass) pair of the grammar, the redeclared
    name in the middle of a chain n0/n1 -> n2 -> n3; as the instance's own class, and inherited once more by a
    silent spec subclass / a silent undecorated subclass"""
    out = []
    bases = [("attr", [0]), ("attr", []), ("attrnd", [0]), ("list", [0]), ("list", []), ("propA", [0]), ("propA", []),
             ("propC", [0]), ("propU", []), ("plain", [])]
    invs = [[], [1], [0, 1], ["*"]]
    for bk, binv in bases:
        is_list = bk == "list"
        managed = bk in ("attr", "attrnd", "list", "propA")
        forms = (REDECL_LIST_MANAGED if is_list else REDECL_INT_MANAGED) if managed else REDECL_UNMANAGED
        for form in forms:
            for inv in invs if form != "value" else [[]]:
                for depth in ("SS", "SSS", "SSP", "SPS"):
                    if depth == "SSP" and not _REGISTERED:
                        continue
                    b = mk(2, bk, binv)
                    r = redecl_member(2, form, inv, is_list, 4)
                    cls = [(True, [mk(0, "attr"), mk(1, "attr"), b]), (True, [r, mk(3, "propC", [2])])]
                    if depth == "SPS":  # the redeclaration sits in an undecorated class in the middle
                        if not in_plain_class_ok(r) or (is_list and r["kind"] == "prop") or (bk == "propA" and form == "value"):
                            continue
                        cls = [(True, [mk(0, "attr"), mk(1, "attr"), b]), (False, [r]), (True, [mk(3, "propC", [2])])]
                    if depth == "SSS":
                        cls.append((True, []))
                    elif depth == "SSP":
                        cls.append((False, []))
                    c = finish(graph(*copy.deepcopy(cls)))
                    if well_formed(c):
                        out.append(c)
    return out


def middle_graphs():
    """an undecorated class between two spec classes overrides a managed name (KF-C11-plain-middle-override when the
    override is a property with dependencies of its own)"""
    S, P = True, False
    g = []
    g.append(graph((S, [mk(0, "attr"), mk(1, "attr"), mk(2, "attr", [0])]), (P, [mk(2, "propC", [1])]), (S, [mk(3, "propC", [2])])))
    g.append(graph((S, [mk(0, "attr"), mk(1, "attr"), mk(2, "propA", [0])]), (P, [mk(2, "propU", [0, 1])]), (S, [mk(3, "attr", [2])])))
    g.append(graph((S, [mk(0, "attr"), mk(1, "list"), mk(2, "attrnd", [0])]), (P, [mk(2, "propN", ["*"])]), (S, [mk(3, "propC", [2])])))
    # no finding: the override declares nothing of its own / is a plain value / is overridden again by the spec class
    g.append(graph((S, [mk(0, "attr"), mk(1, "attr"), mk(2, "attr", [0])]), (P, [mk(2, "propC", [])]), (S, [mk(3, "propC", [2])])))
    g.append(graph((S, [mk(0, "attr"), mk(1, "attr", [0]), mk(2, "list", [0])]),
                   (P, [redecl_member(1, "value", [], False, 6), redecl_member(2, "value", [], True, 3)]), (S, [mk(3, "propC", [1, 2])])))
    g.append(graph((S, [mk(0, "attr"), mk(1, "attr"), mk(2, "attr", [0])]), (P, [mk(2, "propC", [1])]), (S, [mk(2, "propC", [0, 1]), mk(3, "propC", [2])])))
    g.append(graph((S, [mk(0, "attr"), mk(1, "attr"), mk(2, "attr", [0])]), (P, [mk(2, "propC", [1])]), (S, [mk(2, "attrnd"), mk(3, "propC", [2])])))
    return [finish(x) for x in g if well_formed(finish(x))]


def redecl_fixed_graphs():
    """hand-picked hierarchies: the instance's class (or an ancestor) overrides an inherited managed name"""
    S, P = True, False
    g = []
    # annotated cached property in the base; the subclass overrides it un-annotated with MORE dependencies
    g.append(graph((S, [mk(0, "attr"), mk(1, "attr"), mk(2, "propA", [0]), mk(3, "propC", [2])]), (S, [mk(2, "propC", [0, 1])])))
    # ... the base property has no dependencies at all (not cached there); the override is cached
    g.append(graph((S, [mk(0, "attr"), mk(1, "list"), {**mk(2, "propA", []), "c": 0}]), (S, [mk(2, "propC", [1]), mk(3, "propC", [2])])))
    # ... a different (disjoint) dependency, and the override is inherited once more
    g.append(graph((S, [mk(0, "attr"), mk(1, "attr"), mk(2, "propA", [0])]), (S, [mk(2, "propN", [1])]), (S, [mk(3, "propC", [2])])))
    # re-defaulting keeps the inherited invalidated_by (attr and list); un-annotated property without dependencies too
    g.append(graph((S, [mk(0, "attr"), mk(1, "attr", [0]), mk(2, "list", [0]), mk(3, "propC", [1, 2])]),
                   (S, [redecl_member(1, "value", [], False, 8), redecl_member(2, "value", [], True, 5)])))
    g.append(graph((S, [mk(0, "attr"), mk(1, "attr", [0]), mk(2, "propA", [0])]), (S, [mk(1, "propC", []), mk(2, "propU", []), mk(3, "propC", [1, 2])])))
    # `n = Attr(...)` replaces the declaration: other / no dependencies
    g.append(graph((S, [mk(0, "attr"), mk(1, "attr"), mk(2, "attr", [0]), mk(3, "propC", [2])]),
                   (S, [redecl_member(2, "bareattr", [1], False, 6)]), (S, [redecl_member(2, "bareattr", [], False, 2)])))
    # `n: int` only: the inherited class-level value (default / property) shows through, its Attr options do not
    g.append(graph((S, [mk(0, "attr"), mk(1, "attr", [0]), mk(2, "propA", [0]), mk(3, "plain")]),
                   (S, [mk(1, "attrnd"), mk(2, "attrnd"), mk(3, "attrnd")])))
    # an attribute becomes a property and an attribute again, three levels
    g.append(graph((S, [mk(0, "attr"), mk(1, "attr"), mk(2, "attr", [0])]), (S, [mk(2, "propC", [1]), mk(3, "propC", [2])]),
                   (S, [redecl_member(2, "value", [], False, 1)])))
    # unmanaged property redeclared in an undecorated class in the middle, then annotated by the instance's class
    g.append(graph((S, [mk(0, "attr"), mk(1, "attr"), mk(2, "propC", [0])]), (P, [mk(2, "propC", [1])]), (S, [mk(3, "propC", [2])])))
    g.append(graph((S, [mk(0, "attr"), mk(1, "attr"), mk(2, "propC", [0])]), (P, [mk(2, "propU", [1])]), (S, [mk(2, "attrnd"), mk(3, "propC", [2])])))
    # wildcard on one side only
    g.append(graph((S, [mk(0, "attr"), mk(1, "list"), mk(2, "propA", ["*"])]), (S, [mk(2, "propC", [0]), mk(3, "attr", [2])])))
    g.append(graph((S, [mk(0, "attr"), mk(1, "list"), mk(2, "propA", [0])]), (S, [mk(2, "propC", ["*"]), mk(3, "attr", [2])])))
    return [finish(x) for x in g if well_formed(finish(x))]


def grammar3():
    """every graph of the 3-name grammar: n0 a dependency, n1/n2 derived with a non-empty invalidated_by of size <= 2"""
    out = []
    keysets = {}
    for n in (1, 2):
        keys = [x for x in range(3) if x != n] + ["*"]
        keysets[n] = [list(c) for r in (1, 2) for c in itertools.combinations(keys, r)]
    for k0 in ("attr", "plainnc", "list", "propU"):
        for k1 in DERIVED:
            for i1 in keysets[1]:
                for k2 in DERIVED:
                    for i2 in keysets[2]:
                        ms = [mk(0, k0), mk(1, k1, i1), mk(2, k2, i2)]
                        shapes = [[(True, ms)], [(True, ms[:2]), (True, ms[2:])]]
                        if k2 in ("propC", "propU", "propN"):
                            shapes.append([(True, ms[:2]), (False, ms[2:])])
                        for sh in shapes:
                            c = finish(graph(*copy.deepcopy(sh)))
                            if well_formed(c):
                                out.append(c)
    return out


def random_op(rng, case, ninst, hist_bias=None):
    """[instance index (taken modulo the number of live instances on both sides), inplace, op]"""
    mem = members_of(case)
    names = sorted(mem)
    managed = sorted(managed_names(case))
    props = [n for n in names if mem[n]["kind"] == "prop"]
    lists = [x for x in managed if mem[x]["kind"] == "list"]
    i = rng.randrange(4)
    inplace = rng.random() < 0.6

    def good_val(n):
        k = mem[n]["kind"]
        if k == "prop":
            return -rng.randint(1, 9)
        if k == "list":
            return [rng.randint(0, 9) for _ in range(rng.randint(0, 3))]
        return rng.randint(0, 9)

    def some_val(n):
        if n in managed and mem[n]["kind"] != "list" and rng.random() < 0.12:
            return "bad"
        return good_val(n)

    def fn_for(n):
        if rng.random() < 0.12 and mem[n]["kind"] != "list":
            return "bad"
        return "neg" if mem[n]["kind"] == "prop" else "inc"

    kinds = ["read"] * 28 + ["readany"] * 4 + ["set"] * 18 + ["del"] * 8
    if managed:
        kinds += ["with"] * 12 + ["tf"] * 7 + ["rst"] * 6 + ["upd"] * 4 + ["tfm"] * 4 + ["reset"] * 3
    if lists:
        kinds += ["elem"] * 16
    for _ in range(20):
        k = rng.choice(kinds)
        if k == "read" and props:
            return [i, True, ["read", rng.choice(props)]]
        if k == "readany":
            return [i, True, ["read", rng.choice(names)]]
        if k == "set":
            n = rng.choice(names)
            return [i, True, ["set", n, some_val(n)]]
        if k == "del":
            return [i, True, ["del", rng.choice(names)]]
        if k == "with":
            n = rng.choice(managed)
            return [i, inplace, [rng.choice(["with", "with", "withu"]), n, some_val(n)]]
        if k == "tf":
            n = rng.choice(managed)
            return [i, inplace, ["tf", n, fn_for(n)]]
        if k == "rst":
            return [i, inplace, ["rst", rng.choice(managed)]]
        if k == "upd":
            ks = rng.sample(managed, min(len(managed), rng.choice([1, 1, 2, 3])))
            return [i, inplace, ["upd", [[x, some_val(x)] for x in ks]]]
        if k == "tfm":
            ks = rng.sample(managed, min(len(managed), rng.choice([1, 1, 2, 3])))
            return [i, inplace, ["tfm", [[x, fn_for(x)] for x in ks]]]
        if k == "reset":
            return [i, inplace, ["reset"]]
        if k == "elem":
            l = rng.choice(lists)
            ek = rng.choice(["app", "app", "ins", "rem", "remi", "tfi"])
            arg = "bad" if ek in ("app", "ins") and rng.random() < 0.15 else rng.randint(0, 3 if ek in ("remi", "tfi") else 9)
            return [i, inplace, ["elem", l, ek, arg]]
    n = rng.choice(names)
    return [i, True, ["set", n, some_val(n)]]


def root_mutations(rng, case, root):
    """every way of mutating `root` that the API offers for its kind: [inplace, op]"""
    mem = members_of(case)
    m = mem[root]
    managed = set(managed_names(case))
    k = m["kind"]

    def val():
        if k == "prop":
            return -rng.randint(1, 9)
        if k == "list":
            return [rng.randint(0, 9) for _ in range(rng.randint(0, 3))]
        return rng.randint(0, 9)

    out = [[True, ["set", root, val()]], [True, ["del", root]]]
    if root in managed:
        for ip in (True, False):
            out += [[ip, ["with", root, val()]], [ip, ["withu", root, val()]], [ip, ["rst", root]],
                    [ip, ["tf", root, "neg" if k == "prop" else "inc"]], [ip, ["upd", [[root, val()]]]],
                    [ip, ["tfm", [[root, "neg" if k == "prop" else "inc"]]]], [ip, ["reset"]]]
            if k == "list":
                out += [[ip, ["elem", root, ek, rng.randint(0, 2)]] for ek in ("app", "ins", "rem", "remi", "tfi")]
    return out


def patterned_history(rng, graph_case, rounds):
    """Repeated mutations of the same root, each through another entry point, with reads, overrides and
    deletions of the links in between (state leaking from one call to the next shows on the SECOND round)."""
    case = random_history(rng, graph_case, 0)
    mem = members_of(case)
    r = reach(case)
    roots = [n for n in sorted(mem) if r.get(n)]
    if not roots:
        return random_history(rng, graph_case, 3 * rounds)
    root = rng.choice(roots)
    down = sorted(r[root])
    props = [n for n in down if mem[n]["kind"] == "prop"]
    ops = []
    copies = 0
    cur = 0  # index of the instance the pattern follows
    ninst = 1
    for _ in range(rounds):
        for p in rng.sample(props, len(props)) if rng.random() < 0.8 else props[:1]:
            ops.append([cur, True, ["read", p]])
        # set a non-default value on a defaulted dependant, override / delete a link
        for d in down:
            md = mem[d]
            x = rng.random()
            if md["kind"] in ("attr",) and x < 0.5:
                ops.append([cur, True, ["set", d, rng.randint(0, 9)]])
            elif md["kind"] == "prop" and md.get("o") and x < 0.2:
                ops.append([cur, True, ["set", d, -rng.randint(1, 9)]])
            elif md["kind"] == "prop" and x < 0.35:
                ops.append([cur, True, ["del", d]])
        ip, op = rng.choice(root_mutations(rng, case, root))
        if not ip and copies >= 3:
            ip = True
        ops.append([cur, ip, op])
        if not ip:
            copies += 1
            ninst += 1
            if rng.random() < 0.6:
                cur = ninst - 1  # follow the copy (if the call failed the modulo keeps the index valid)
        if rng.random() < 0.3:
            ops.append(random_op(rng, case, 1))
            if not ops[-1][1]:
                ops[-1][1] = True
    for p in props:
        ops.append([cur, True, ["read", p]])
    case["ops"] = ops
    return case


def random_history(rng, graph_case, length, with_post=None):
    case = copy.deepcopy(graph_case)
    mem = members_of(case)
    managed = managed_names(case)
    ctor = []
    for n in managed:
        m = mem[n]
        need = m["kind"] == "attrnd" and rng.random() < 0.7
        if need or rng.random() < 0.25:
            if m["kind"] == "prop":
                if not m.get("o"):
                    continue
                ctor.append([n, -rng.randint(1, 9)])
            elif m["kind"] == "list":
                ctor.append([n, [rng.randint(0, 9) for _ in range(rng.randint(0, 2))]])
            else:
                ctor.append([n, "bad" if rng.random() < 0.02 else rng.randint(0, 9)])
    case["ctor"] = ctor
    post = []
    if with_post or (with_post is None and rng.random() < 0.35):
        props = [n for n in mem if mem[n]["kind"] == "prop"]
        for _ in range(rng.randint(1, 3)):
            if props and rng.random() < 0.6:
                post.append(["read", rng.choice(props)])
            else:
                _, _, op = random_op(rng, case, 1)
                if op[0] in ("read", "set", "del", "with", "tf", "rst", "elem"):
                    post.append(op)
    case["post"] = post
    ops = []
    copies = 0
    for _ in range(length):
        i, inplace, op = random_op(rng, case, 1)
        if op[0] in ("read", "set", "del"):
            inplace = True
        if not inplace:
            copies += 1
            if copies > 3:  # at most 4 live instances
                inplace = True
        ops.append([i, inplace, op])
    case["ops"] = ops
    return case


def gen_cases(tier, rng):
    fixed = fixed_graphs()
    plain = plain_graphs()
    refixed = redecl_fixed_graphs() + middle_graphs()
    regrammar = redecl_grammar()
    if tier == "search":
        while True:
            x = rng.random()
            if x < 0.2:
                g = rng.choice(fixed)
            elif x < 0.3:
                g = rng.choice(refixed)
            elif x < 0.4:
                g = rng.choice(regrammar)
            elif x < 0.6:
                g = random_redeclared_graph(rng, rng.choice([3, 4, 4]))
            else:
                g = random_graph(rng, rng.choice([2, 3, 4, 4]), allow_plain=_REGISTERED)
            if rng.random() < 0.35:
                yield patterned_history(rng, g, rng.randint(2, 4))
            else:
                yield random_history(rng, g, rng.randint(4, 14))
        return
    if tier == "quick":
        for g in fixed:
            for _ in range(12):
                c = random_history(rng, g, rng.randint(8, 14))
                c["origin"] = "fixed"
                yield c
            for _ in range(6):
                c = patterned_history(rng, g, rng.randint(2, 4))
                c["origin"] = "fixed-patterned"
                yield c
        for g in plain:
            for _ in range(8):
                c = random_history(rng, g, rng.randint(8, 14))
                c["origin"] = "plain-subclass"
                yield c
        for g in refixed:
            for _ in range(4):
                c = random_history(rng, g, rng.randint(8, 14))
                c["origin"] = "redecl-fixed"
                yield c
            for _ in range(4):
                c = patterned_history(rng, g, rng.randint(2, 4))
                c["origin"] = "redecl-fixed-patterned"
                yield c
        for g in rng.sample(regrammar, 90):  # a different ninth of the grammar per seed (thorough: all of it)
            if rng.random() < 0.5:
                c = patterned_history(rng, g, rng.randint(2, 4))
                c["origin"] = "redecl-grammar-patterned"
            else:
                c = random_history(rng, g, rng.randint(8, 14))
                c["origin"] = "redecl-grammar"
            yield c
        for k in range(1500):
            if k % 5 == 4:
                g = random_redeclared_graph(rng, rng.choice([3, 4, 4]))
                tag = "random-redecl"
            else:
                g = random_graph(rng, rng.choice([2, 3, 4, 4, 4]), allow_plain=True)
                tag = "random"
            if k % 3 == 2:
                c = patterned_history(rng, g, rng.randint(2, 4))
                c["origin"] = tag + "-patterned"
            else:
                c = random_history(rng, g, rng.randint(8, 14))
                c["origin"] = tag
            yield c
        return
    # thorough
    for g in fixed:
        for _ in range(60):
            c = random_history(rng, g, rng.randint(12, 24))
            c["origin"] = "fixed"
            yield c
        for _ in range(30):
            c = patterned_history(rng, g, rng.randint(3, 6))
            c["origin"] = "fixed-patterned"
            yield c
    for g in plain:
        for _ in range(40):
            c = random_history(rng, g, rng.randint(12, 24))
            c["origin"] = "plain-subclass"
            yield c
    for g in grammar3():
        c = random_history(rng, g, rng.randint(10, 16))
        c["origin"] = "grammar3"
        yield c
        c = patterned_history(rng, g, rng.randint(2, 4))
        c["origin"] = "grammar3-patterned"
        yield c
    for g in refixed:
        for _ in range(30):
            c = random_history(rng, g, rng.randint(12, 24))
            c["origin"] = "redecl-fixed"
            yield c
        for _ in range(20):
            c = patterned_history(rng, g, rng.randint(3, 6))
            c["origin"] = "redecl-fixed-patterned"
            yield c
    for g in regrammar:
        c = random_history(rng, g, rng.randint(10, 16))
        c["origin"] = "redecl-grammar"
        yield c
        c = patterned_history(rng, g, rng.randint(2, 4))
        c["origin"] = "redecl-grammar-patterned"
        yield c
    for k in range(6000):
        if k % 4 == 3:
            g = random_redeclared_graph(rng, 4)
            tag = "random4-redecl"
        else:
            g = random_graph(rng, 4, allow_plain=True)
            tag = "random4"
        if k % 3 == 2:
            c = patterned_history(rng, g, rng.randint(3, 6))
            c["origin"] = tag + "-patterned"
        else:
            c = random_history(rng, g, rng.randint(12, 24))
            c["origin"] = tag
        yield c


def shrink(case, at=None):
    ops = case["ops"]
    nconf = 1 + sum(1 + len(cl["members"]) for cl in case["classes"]) + 1 + len(case.get("post", []))
    if at is not None and at >= nconf:
        yield {**case, "ops": ops[: at - nconf + 1]}
    for i in range(len(ops)):
        yield {**case, "ops": ops[:i] + ops[i + 1 :]}
    if case.get("post"):
        yield {**case, "post": []}


def _graph_key(case):
    return [
        [cl["spec"], [[m["n"], m["kind"], m.get("c"), m.get("o"), m.get("a"), m.get("inv"), form_of(m), m.get("d") if isinstance(m.get("d"), list) else None] for m in cl["members"]]]
        for cl in case["classes"]
    ]


def nontrivial(case, real):
    keys = []
    gk = _graph_key(case)
    body = [ln for ln in real if " ;; " in ln]
    allops = [["new"]] + [[0, True, op] for op in case.get("post", [])] + list(case["ops"])
    prev = ""
    for ln, op in zip(body, allops):
        parts = ln.split(" ;; ")
        world = parts[2] if len(parts) > 2 else ""
        if world != prev or parts[0].startswith("err") or parts[1] != "calls=-":
            keys.append((gk, prev, op))
        prev = world
    return keys


def tags(case, real):
    t = [f"origin:{case.get('origin', 'corpus')}", f"classes:{''.join('S' if c['spec'] else 'P' for c in case['classes'])}"]
    mem = members_of(case)
    for m in mem.values():
        t.append("kind:" + (m["kind"] if m["kind"] != "prop" else f"prop(c={m.get('c')},o={m.get('o')},a={m.get('a')})"))
        if "*" in m.get("inv", []):
            t.append("wildcard")
    if case.get("post"):
        t.append("post_init-ops")
    firsts = {}
    for ci, cl in enumerate(case["classes"]):
        for m in cl["members"]:
            if m["n"] in firsts:
                b = firsts[m["n"]]
                how = "annotated" if _annotated(m) else ("Attr" if form_of(m) == "bareattr" else "bare")
                inv = "none" if not m.get("inv") else ("same" if sorted(map(str, m["inv"])) == sorted(map(str, b.get("inv", []))) else "other")
                t.append(f"redecl:{b['kind']}->{m['kind']}:{how}:inv={inv}:{'spec' if cl['spec'] else 'plain'}-class")
            firsts[m["n"]] = m
    body = [ln for ln in real if " ;; " in ln][1 + len(case.get("post", [])):]
    for (i, inplace, op), ln in zip(case["ops"], body):
        head = ln.split(" ;; ")[0]
        t.append(f"op:{op[0]}:{'inplace' if inplace else 'copy'}")
        if head.startswith("err"):
            t.append("err:" + head.split()[1] + ":" + op[0])
        if " calls=-" not in ln and op[0] == "read":
            t.append("read:miss")
        elif op[0] == "read":
            t.append("read:hit-or-plain")
    return t


def extra(tier, rng):
    return {
        "evaluations": 0,
        "info": {
            "known_finding_registered": _REGISTERED,
            "plain_subclass_violations_suppressed_until_registered": _SUPPRESSED["cases"],
            "plain_subclass_sample": _SUPPRESSED["sample"],
            "middle_override_finding_registered": _REGISTERED2,
            "middle_override_violations_suppressed_until_registered": _SUPPRESSED2["cases"],
            "middle_override_sample": _SUPPRESSED2["sample"],
            "cycle_own_value_finding_registered": _REGISTERED3,
            "cycle_own_value_violations_suppressed_until_registered": _SUPPRESSED3["cases"],
            "cycle_own_value_sample": _SUPPRESSED3["sample"],
        },
    }


MANIFEST_ENTRY = {
    "level_text": "Lean 4 proof, about a hand-written executable model of bootstrap's assembly of metadata.attrs along the class hierarchy (which declaration of a redeclared name counts) / invalidation_map / invalidate_attrs / mutate_attr / __delattr__ / spec_property and every mutation entry point, that (a) invalidate_attrs terminates within a cubic fuel bound on every table with no dependency cycle through a defaulted attribute and clears exactly the transitive dependants of the mutated name, whatever the iteration order and cache state; (b) the invariant Fresh (every cached, non-overridden slot equals its getter on the cache-free state; every invalidated_by attribute is at its default if a dependency was assigned later) holds after construction and after every history of reads, overrides and mutations through every entry point, in place or on a copy; (c) the next read after a dependency change recomputes, unrelated and failed mutations discard nothing; (d) the invalidation map is exactly what the effective declarations say: a property declared by the instance's own spec class with dependencies of its own is invalidated by exactly those whatever the ancestors declared, a re-defaulted attribute keeps the inherited invalidated_by. The model is tied to /repo on every run by executing the same histories on rendered spec classes and on the model and comparing value read, getter-call log and every instance __dict__ after each step; an independent oracle recomputes each getter on a cache-free clone.",
    "level_note": "Trusted: Lean kernel; axioms propext/Classical.choice/Quot.sound; the hand-written model and the harness. Assumes pure getters that read only declared (transitive) dependencies and no cycle through a defaulted attribute. OPEN: dependants declared in an undecorated subclass are never invalidated (KF-C11-plain-subclass): proved only under OwnerCoversDependants, with a decided counter-witness for the full statement; a property that an undecorated class BETWEEN two spec classes puts over a managed attribute is invalidated by the inherited instead of its own invalidated_by (KF-C11-plain-middle-override): owner_covers_of_spec_head is proved only under PlainClassesSilent, with the decided counter-witness middle_override_not_covered; a value just assigned to a member of a dependency cycle survives its own invalidation round only if no other member of the cycle holds a value (set_keeps_own_value / set_drops_own_value_of_full_cycle, KF-C11-cycle-drops-own-value).",
    "technique": "Lean 4 invariant proof (all histories) + exact characterisation of the invalidation fixpoint over a hand-written model; differential correspondence against the real library with a getter-call counter",
}
