"""
C12 — spec_property / classproperty: correspondence between
`spec_classes.types.spec_property` (real code from /repo) and the Lean Impl
model `SpecVerif.C12` (Drivers/C12.lean), plus the independent oracle: an
explicit override/cache/getter state machine written from the property text.

Case shapes (JSON):
  {"kind": "sp", "cfg": "<ov><ca><fs><fd>", "host": "plain|spec|specann|specprep" or a layout "d/sap",
   "hg": 1, "aae": 1, "ann": "int|opt|any|str", "getter": [tok...], "ops": ["r", "a i1", "d", "b", ...]}
"ann" is the annotation every annotating class of the layout gives `x`: int (default), Optional[int], Any, str.
Every decorated class also annotates a second attribute `y: int = 0`; the instance-level ops
  c (obj = copy.deepcopy(obj))   w <v> (obj = obj.with_y(v))   u <v> (obj = obj.update_y(v))   Z (obj = obj.reset_y())
  y <v> (obj.y = v, in place)    W <v> (obj = obj.with_x(v))   R (obj = obj.reset_x())
continue on the instance the helper returned (a copy, a copy of a copy, ...); their result is `ok same` (the instance
itself came back) or `ok new ^<state of the instance the helper was applied to>` (which must not have changed).
A layout is the inheritance chain of type(instance), base first, classes separated by `/`, each class a subset of
the letters s (decorated with @spec_class) d (declares the spec_property) a (annotates `x: int`) p (defines
`_prepare_x`), `-` for none; the four named hosts are the one-class layouts d, sd, sda, sdap. When several classes
declare the property, the lower ones are copies of the one above made with `.getter()` / `.setter()`.
  {"kind": "cp", "cfg": "<ov><ca><ps><fs><fd>", "hg": 1, "aae": 1,
   "getter": [tok...], "ops": ["r c0", "r o1", "a o2 i1", "a c1 i2", "d o0", "d c2", "b"]}
An op may be prefixed `@k `: rewind to the state after the first k operations of the
current path, then apply the op. The model side rewinds its (pure) state; the real side
rebuilds a fresh object and replays the k operations. One case can thus carry a whole
tree of operation sequences (one protocol line per tree edge).
Value tokens: i<int> (an int; i0 is falsy), s<int> (the str "s<int>"), M/E/U (MISSING/EMPTY/UNCHANGED),
N/F/e/L (the falsy None / False / "" / []; the preparer of a host that has one turns None / "" / [] into
3000 / 3001 / 3002); i97 / i96 / s3, s7, .. make the preparer raise TypeError / AttributeError / ValueError; getter tokens additionally !A !R !V !K !T (the getter raises
that class) and z (a falsy value depending on the class the classproperty getter runs on: 0, "", None).
"build" says how the descriptor is put together: "ctor" (everything through the constructor), "deco"
(decorator-with-options, then .setter/.deleter), "chain-gsd"/"chain-dsg" (.getter/.setter/.deleter chains
in two orders starting from a getter-less property); all must behave like the nominal configuration.
"""
import copy
import itertools

PID = "C12"
LEAN_TARGETS = ["SpecVerif.Props.C12"]
AUDIT = [("SpecVerif.Props.C12", "SpecVerif.Props.C12")]
DRIVER = "Drivers/C12.lean"
# library files the model mirrors beyond the property's anchor (spec_property.py): a change in any of them directs
# the deeper differential run (escalation) as well
SOURCE_FILES = [
    "spec_classes/utils/mutation.py", "spec_classes/methods/core.py", "spec_classes/methods/scalar.py",
    "spec_classes/spec_class.py",
]
REQUIRED_THEOREMS = [
    "SpecVerif.Props.C12.protocol",
    "SpecVerif.Props.C12.read_protocol",
    "SpecVerif.Props.C12.cache_hit_stable",
    "SpecVerif.Props.C12.override_stable",
    "SpecVerif.Props.C12.set_rejected",
    "SpecVerif.Props.C12.delete_semantics",
    "SpecVerif.Props.C12.custom_accessors",
    "SpecVerif.Props.C12.getter_result_checked",
    "SpecVerif.Props.C12.reads_conform",
    "SpecVerif.Props.C12.prepare_uses_preparer",
    "SpecVerif.Props.C12.failed_op_changes_nothing",
    "SpecVerif.Props.C12.failed_read_leaves_no_trace",
    "SpecVerif.Props.C12.assign_preparer_error",
    "SpecVerif.Props.C12.resolve_managed_iff",
    "SpecVerif.Props.C12.resolve_onSpec_iff",
    "SpecVerif.Props.C12.resolve_declares_irrelevant",
    "SpecVerif.Props.C12.resolve_preparer",
    "SpecVerif.Props.C12.inherited_reads_conform",
    "SpecVerif.Props.C12.inherited_getter_result_checked",
    "SpecVerif.Props.C12.resolveMI_nil_right",
    "SpecVerif.Props.C12.resolveMI_managed_iff",
    "SpecVerif.Props.C12.mi_inherited_reads_conform",
    "SpecVerif.Props.C12.deepcopy_keeps_everything",
    "SpecVerif.Props.C12.cow_forms",
    "SpecVerif.Props.C12.instance_history_projects",
    "SpecVerif.Props.C12.copies_follow_protocol",
    "SpecVerif.Props.C12.other_attribute_ops_invisible",
    "SpecVerif.Props.C12.override_survives_copies",
    "SpecVerif.Props.C12.cache_survives_copies",
    "SpecVerif.Props.C12.failed_helper_changes_nothing",
    "SpecVerif.Props.C12.cp_protocol",
    "SpecVerif.Props.C12.cp_read_protocol",
    "SpecVerif.Props.C12.cp_set_rejected",
    "SpecVerif.Props.C12.cp_delete_semantics",
    "SpecVerif.Props.C12.cp_custom_accessors",
    "SpecVerif.Props.C12.cp_per_subclass_independent",
    "SpecVerif.Props.C12.cp_shared_slot",
    "SpecVerif.Props.C12.cp_instance_acts_on_type",
]
RULE = (
    "spec_property: every one of the 16 (overridable, cache, setter, deleter) combinations x 4 hosts (plain class, "
    "spec class without annotation, spec class with managed int annotation, the same with a preparer) x EVERY "
    "operation sequence up to length 4 / 6 (quick / thorough), one longer (5 / 7) on the plain and preparer hosts, over "
    "{read, assign 0, assign 2, delete, bump underlying state} with getter results alternating falsy and truthy "
    "values (0, 11, None, 13, '', 15, False, 17, []; the preparer host turns None / '' / [] into 3000 / 3001 / 3002), the descriptor built in four ways (constructor, decorator with "
    "options, .getter/.setter/.deleter chains in two orders) rotating over the subtrees, walked as a tree with one compared protocol line per "
    "edge (`@k op` rewinds to depth k; the real side rebuilds the object and replays), then a seeded "
    "malformed stream (getters returning sentinels / ill-typed values / raising, assignment of sentinels and ill-typed "
    "values incl. the falsy None/False/''/[]/0, falsy preparer results, no getter, allow_attribute_error off) with "
    "sequences up to length 12; WHERE THE PROPERTY LIVES: every inheritance chain of one and two classes (each class "
    "decorated with @spec_class or not, declaring the spec_property or not, annotating x or not, defining _prepare_x or "
    "not; at least one declares; 200 layouts) x every sequence up to length 3 (quick) / 4 over {read, assign 97 (the "
    "preparer raises), assign 2, delete, bump}, once with overridable+cache and getter results that make a preparer "
    "raise ValueError / TypeError / AttributeError, once with one of the 16 combinations in rotation (main table, or "
    "allow_attribute_error off with AttributeErrors from getter and preparer) over {read, assign 2, delete, bump, "
    "obj = obj.with_y(5) [helper of ANOTHER attribute: what follows happens on a copy, a copy of a copy, ...], "
    "obj = obj.with_x(3)} with the annotation of x rotating over int / Optional[int] / Any; INSTANCE-LEVEL HISTORIES: "
    "all 16 combinations on the spec hosts x every sequence up to length 3 (quick) / 4 over {read, assign 2, delete, bump, "
    "copy.deepcopy, with_y, with_x, reset_x}, one level deeper without deepcopy / reset_x on the preparer host; "
    "ANNOTATIONS: Optional[int], Any, str on the annotated hosts x 16 combinations x every sequence up to length 3 / 4 "
    "over {read, assign 0, assign None, delete, bump, with_x(None)} with getter results None / '' / a sentinel / an "
    "ill-typed value first; every three-class chain (3584) to "
    "depth 2 and multiple inheritance class Leaf(L, R) over all single-class L, R, Leaf (3584 shapes) to depth 2: all "
    "at thorough, a seeded sample of 1000 each at quick; the random streams draw a named host or a random layout "
    "(chains up to 4 classes, two base chains joined and continued) and an annotation per drawn host, three histories per host, "
    "60 % of them mixed with deepcopy / with_y / update_y / reset_y / obj.y = v / with_x / reset_x (ill-typed and "
    "sentinel arguments in the malformed stream); classproperty: 32 "
    "(overridable, cache, cache_per_subclass, setter, deleter) combinations over a three-class chain A>B>C, every "
    "sequence up to length 3 (quick) / 4 (thorough) over a 13-letter alphabet of reads/assignments/deletions through classes and "
    "instances and bump, then seeded random sequences over the full 25-letter alphabet. A step is non-trivial when "
    "it changed the slot/cache/log or raised; distinct = distinct (kind, configuration, host, pre-state, operation)."
)
EXHAUSTIVE = {"quick": True, "thorough": True}
ASSUMPTIONS = [
    "getter, preparer, custom setter and deleter are deterministic functions of their arguments and the underlying state; the custom setter/deleter only record the call",
    "managed annotation is a scalar type (int, Optional[int], Any, str; one annotation per hierarchy): no collection preparation, no dict-as-constructor-arguments branch of mutate_value; the annotation's constructor gives int() / str() or raises TypeError (typing.Union(), typing.Any())",
    "instance-level operations: the host has ONE other managed attribute `y: int = 0` (annotated by the base-most decorated class of each chain) without preparer; instance-dict values are immutable scalars (a deep copy of a value is the value); no do_not_copy, no __post_copy__, not frozen; update_y is only given real values; with_x / reset_x are not generated where an undecorated class joins two bases",
    "class hierarchies are linear chains, or two linear base chains joined by one class and continued linearly; every class declaring the property declares the same nominal configuration (a copy of the one above); no class attribute named x other than the property; a _prepare_x defined in a class is visible to it and everything below (ordinary attribute lookup)",
    "the preparer is a deterministic function of the value (it may raise); it is called bound to the instance (checked by the harness's preparer)",
    "the instance __dict__ slot of the property is written only through the descriptor (no direct obj.__dict__ pokes); spec class not frozen; no invalidated_by (that is C11)",
    "a value assigned on a spec class reaches the property as the spec-class assignment layer delivers it (prepared, type-checked, sentinels dropped): that layer is the environment of C12, its own guarantees are C01/C03/C05",
    "a custom setter/deleter replaces storing/clearing (DESIGN C12 custom_accessors): the protocol state is then untouched",
    "classproperty assignment/deletion 'through a class' is the descriptor's __set__/__delete__ invoked with the class (plain `Cls.x = v` rebinds the class attribute in Python and never reaches a descriptor)",
    "warnings (warn_on_override) and messages are not modelled",
]

HOSTS = ["plain", "spec", "specann", "specprep"]
SP_ALPHABET = ["r", "a i0", "a i2", "d", "b"]  # assigned values: the falsy int 0 and a truthy int
DEEP_HOSTS = ("plain", "specprep")  # one op deeper on these two hosts (quick: 5 vs 4, thorough: 7 vs 6)
# getter results by underlying state: falsy and truthy values alternate (0, False conform to int; "", None, [] do not)
# (None comes third: `b b r` reads it, and the preparer of a host that has one must turn it into 3000)
MAIN_TABLE = ["i0", "i11", "N", "i13", "e", "i15", "F", "i17", "L", "i19", "i0", "i21"]
# classproperty: `z` is a falsy value that still tells the class the getter ran on (0 / "" / None)
CP_TABLE = ["z", "i11", "z", "i13", "F", "i15", "L", "i17", "N", "i19"]
# layout trees: the first getter results make a preparer raise (ValueError, then after `bump bump` TypeError), so a
# failed read followed by a read / a bump and a read / a deletion is inside the first three operations
PREP_TABLE = ["s3", "i11", "i97", "e", "i96", "i13", "s7", "i15"]
# ... and with allow_attribute_error off: an AttributeError of the preparer (96) is not the getter's, the getter's (!A) is
AE_TABLE = ["i96", "!A", "i11", "F", "s3", "i13"]
LAYOUT_ALPHABET = ["r", "a i97", "a i2", "d", "b"]  # `a i97`: the preparer raises while the assignment is delivered
# second walk of every layout: property operations mixed with a helper of ANOTHER attribute (`w`: the next reads are
# on a copy, a copy of a copy, ...) and the copy-on-write assignment of the property itself
LAYOUT_COPY_ALPHABET = ["r", "a i2", "d", "b", "w i5", "W i3"]
# instance-level trees on the named spec hosts
COPY_ALPHABET = ["r", "a i2", "d", "b", "c", "w i5", "W i3", "R"]
COPY_DEEP_ALPHABET = ["r", "a i2", "d", "b", "w i5", "W i3"]
OBJ_OPS = "cwuZyWR"
ANNS = {"int": "i", "opt": "o", "any": "y", "str": "t"}
# annotation trees: None / a sentinel (the constructor of Optional / Any raises) / an ill-typed str come first
ANN_TABLES = {"opt": ["N", "i11", "M", "s1", "e", "i13"], "any": ["N", "i11", "M", "s1", "e", "i13"],
              "str": ["e", "s1", "M", "i11", "N", "s5"]}
ANN_ALPHABET = ["r", "a i0", "a N", "d", "b", "W N"]
LAYOUT_CFG = "1100"  # overridable + cache: every layout is walked with it, and with one more combination in rotation
BUILDS = ["deco", "ctor", "chain-gsd", "chain-dsg"]
CP_SMALL = [
    "r c0", "r c1", "r c2", "r o1",
    "a o0 i0", "a o1 i0", "a o2 i0", "a c1 i2",
    "d o0", "d o1", "d o2", "d c2",
    "b",
]
CP_FULL = (
    [f"r {t}{k}" for t in "co" for k in range(3)]
    + [f"a {t}{k} {v}" for t in "co" for k in range(3) for v in ("i0", "i2")]
    + [f"d {t}{k}" for t in "co" for k in range(3)]
    + ["b"]
)

_S = {}  # lazily filled: spec_classes objects


def setup():
    from spec_classes import classproperty, spec_class, spec_property
    from spec_classes.types.missing import EMPTY, MISSING, UNCHANGED

    _S.update(
        spec_class=spec_class, spec_property=spec_property, classproperty=classproperty,
        M=MISSING, E=EMPTY, U=UNCHANGED, classes={},
    )


# ---------------------------------------------------------------------------
# tokens
# ---------------------------------------------------------------------------

EXC = {"!A": AttributeError, "!R": RuntimeError, "!V": ValueError, "!K": KeyError, "!T": TypeError}
ERRS = (
    "NestedAttributeError", "FrozenInstanceError", "TypeError", "ValueError", "KeyError", "IndexError",
    "AttributeError", "RuntimeError",
)


class _PerClassFalsy:
    """getter-table entry `z`"""

    def __deepcopy__(self, memo):  # the getter table travels with the instance dict through copies
        return self


PCF = _PerClassFalsy()
FALSY = {"N": None, "F": False, "e": ""}


def untok(t):
    if t in ("M", "E", "U"):
        return _S[t]
    if t in FALSY:
        return FALSY[t]
    if t == "L":
        return []
    if t == "z":
        return PCF
    if t in EXC:
        return EXC[t]
    if t[0] == "i":
        return int(t[1:])
    if t[0] == "s":
        return t
    raise ValueError(t)


def tok(v):
    if v is _S["M"]:
        return "M"
    if v is _S["E"]:
        return "E"
    if v is _S["U"]:
        return "U"
    if v is None:
        return "N"
    if v is False:
        return "F"
    if isinstance(v, bool):
        return f"?{v!r}"
    if isinstance(v, int):
        return f"i{v}"
    if isinstance(v, str):
        return v if v else "e"
    if isinstance(v, list) and not v:
        return "L"
    return f"?{v!r}"


def err_name(e):
    for klass in type(e).__mro__:
        if klass.__name__ in ERRS:
            return klass.__name__
    return type(e).__name__


def the_preparer(self, v):
    """`_prepare_x` of the hosts that have one (mirrored by `thePreparer` in the driver and `o_prep` in the oracle).
    It raises for 97 (TypeError), 96 (AttributeError) and the strs s3, s7, ... (ValueError, like `int("x")`).
    None, "" and [] are values like any other: it turns them into 3000, 3001, 3002 (a preparer supplying a fallback)."""
    if "_tab" not in getattr(self, "__dict__", ()):  # must be bound to the instance being read / assigned
        raise RuntimeError("preparer called on something that is not the instance")
    if isinstance(v, int):  # bool included: False + 1000 == 1000
        if v == 97:
            raise TypeError("raised by the preparer")
        if v == 96:
            raise AttributeError("raised by the preparer")
        return _S["M"] if v == 99 else 0 if v == 98 else v + 1000
    if isinstance(v, str) and v:
        n = int(v[1:])
        if n % 4 == 3:
            raise ValueError("raised by the preparer")
        return n + 2000 if n % 2 == 0 else v
    if v is None:
        return 3000
    if isinstance(v, str):
        return 3001
    if isinstance(v, list) and not v:
        return 3002
    return v


# ---------------------------------------------------------------------------
# layouts: the inheritance chain of type(instance)
# ---------------------------------------------------------------------------

NAMED_HOSTS = {"plain": "d", "spec": "sd", "specann": "sda", "specprep": "sdap"}
CLASS_KINDS = ["-"] + [
    "".join(ch for ch, on in zip("sdap", bits) if on) for bits in itertools.product((0, 1), repeat=4) if any(bits)
]


def parse_layout(host):
    """-> (L, R, T): lists of letter strings, base first. A chain has L = R = None; with multiple inheritance
    (`Lchain+Rchain>leaf/tail..`) T[0] is the class with the two bases L[-1], R[-1]."""
    s = NAMED_HOSTS.get(host, host)

    def chain(t):
        return [("" if k == "-" else k) for k in t.split("/")] if t else []

    if ">" in s:
        bases, rest = s.split(">")
        left, right = bases.split("+")
        return chain(left), chain(right), chain(rest)
    return None, None, chain(s)


def layout_str(host):
    left, right, tail = parse_layout(host)
    j = lambda ks: "/".join(k or "-" for k in ks)  # noqa: E731
    return j(tail) if left is None else f"{j(left)}+{j(right)}>{j(tail)}"


def all_layouts(n):
    """every chain of n classes in which at least one class declares the property"""
    return ["/".join(ks) for ks in itertools.product(CLASS_KINDS, repeat=n) if any("d" in k for k in ks)]


def all_mi_layouts():
    """every `class Leaf(L, R)` over single-class bases in which at least one of the three declares the property"""
    return [f"{a}+{b}>{c}" for a, b, c in itertools.product(CLASS_KINDS, repeat=3) if any("d" in k for k in (a, b, c))]


# ---------------------------------------------------------------------------
# real hosts
# ---------------------------------------------------------------------------


def _fget(self):
    d = self.__dict__
    tab = d["_tab"]
    r = tab[d["_n"] % len(tab)]
    if isinstance(r, type) and issubclass(r, BaseException):
        raise r("raised by the getter")
    if r is PCF:
        return 0
    return r


def _fset(self, value):
    self.__dict__["_log"].append("S:" + tok(value))


def _fdel(self):
    self.__dict__["_log"].append("D")


def build_prop(factory, fget, fset, fdel, kw, build):
    """The same nominal configuration put together in different ways."""
    if build == "ctor":
        return factory(fget, fset, fdel, **kw)
    if build == "deco":
        p = factory(**kw)(fget) if fget else factory(None, **kw)
        links = [("setter", fset), ("deleter", fdel)]
    elif build == "chain-gsd":
        p = factory(None, **kw)
        links = [("getter", fget), ("setter", fset), ("deleter", fdel)]
    elif build == "chain-dsg":
        p = factory(None, **kw)
        links = [("deleter", fdel), ("setter", fset), ("getter", fget)]
    else:
        raise ValueError(build)
    for name, fn in links:
        if fn is not None:
            p = getattr(p, name)(fn)
    return p


def ann_type(ann):
    from typing import Any, Optional

    return {"int": int, "opt": Optional[int], "any": Any, "str": str}[ann]


def sp_class(cfg, host, hg, aae, build="deco", ann="int"):
    key = (cfg, host, hg, aae, build, ann)
    cls = _S["classes"].get(key)
    if cls is not None:
        return cls
    if len(_S["classes"]) > 6000:  # the search generator is endless: keep the memo bounded
        _S["classes"].clear()
    ov, ca, fs, fd = (c == "1" for c in cfg)
    desc = [None]

    def make(kind, name, bases):
        ns = {}
        if "d" in kind:
            if desc[0] is None:
                desc[0] = build_prop(
                    _S["spec_property"], _fget if hg else None, _fset if fs else None, _fdel if fd else None,
                    dict(overridable=ov, cache=ca, allow_attribute_error=bool(aae)), build,
                )
            else:  # declared once more: the usual idiom, a copy of the property made with .getter() / .setter()
                desc[0] = desc[0].getter(desc[0].fget) if hg else desc[0].setter(desc[0].fset)
            ns["x"] = desc[0]
        if "a" in kind:
            ns["__annotations__"] = {"x": ann_type(ann)}
        if "s" in kind and not any(hasattr(b, "__spec_class__") for b in bases):
            # every spec-class instance manages a second attribute (annotated by the base-most decorated class of each
            # chain, inherited below): the copy-on-write helpers of `y` exist on it
            ns.setdefault("__annotations__", {})["y"] = int
            ns["y"] = 0
        if "p" in kind:
            ns["_prepare_x"] = the_preparer
        c = type(f"{name}_{kind or 'none'}", bases, ns)
        if "s" in kind:
            c = _S["spec_class"](bootstrap=True)(c)
        return c

    def make_chain(kinds, name, bases):
        for i, kind in enumerate(kinds):
            bases = (make(kind, f"{name}{i}", bases),)
        return bases

    left, right, tail = parse_layout(host)
    if left is None:
        cls = make_chain(tail, "K", ())[0]
    else:
        cls = make_chain(tail, "K", make_chain(left, "L", ()) + make_chain(right, "R", ()))[0]
    _S["classes"][key] = cls
    return cls


def sp_new(case):
    cls = sp_class(case["cfg"], case["host"], case.get("hg", 1), case.get("aae", 1), case.get("build", "deco"),
                   case.get("ann", "int"))
    o = cls()
    o.__dict__.update(_n=0, _tab=[untok(t) for t in case["getter"]], _log=[])
    return o


def sp_state(o):
    d = o.__dict__
    slot = tok(d["x"]) if "x" in d else "-"
    other = tok(d["y"]) if "y" in d else "-"
    log = ",".join(d["_log"]) if d["_log"] else "-"
    return f"{slot} ;; {d['_n']} ;; {other} ;; {log}"


def sp_apply(box, op):
    """`box[0]` is the current instance; the instance-level ops replace it by what the helper returned."""
    o = box[0]
    c = op[0]
    if c in OBJ_OPS:
        if c == "c":
            new = copy.deepcopy(o)
        elif c == "w":
            new = o.with_y(untok(op[2:]))
        elif c == "u":
            new = o.update_y(untok(op[2:]))
        elif c == "Z":
            new = o.reset_y()
        elif c == "y":
            o.y = untok(op[2:])
            new = o
        elif c == "W":
            new = o.with_x(untok(op[2:]))
        else:
            new = o.reset_x()
        if new is o:
            return "ok same"
        box[0] = new
        return "ok new ^" + sp_state(o).replace(" ;; ", "|")
    if c == "r":
        return "val " + tok(o.x)
    if c == "a":
        o.x = untok(op[2:])
        return "ok"
    if c == "d":
        del o.x
        return "ok"
    if c == "b":
        o.__dict__["_n"] += 1
        return "ok"
    raise ValueError(op)


_CHAINS = {}


def chain_for(case):
    """A pristine chain for the case. The three classes and the descriptor are built once per (configuration, build)
    and handed out again after being reset: the descriptor's `_cache` dict emptied (everything a classproperty
    remembers lives there -- `state()` prints all of it), counter, log and getter table replaced."""
    key = (case["cfg"], case.get("hg", 1), case.get("aae", 1), case.get("build", "deco"))
    ch = _CHAINS.get(key)
    if ch is None:
        ch = _CHAINS[key] = Chain(case)
    else:
        ch.desc._cache.clear()
        ch.st["n"] = 0
        ch.st["log"].clear()
        ch.tab[:] = [untok(t) for t in case["getter"]]
    return ch


class Chain:
    """Three-class chain A > B > C with one classproperty `x` defined on A."""

    def __init__(self, case):
        ov, ca, ps, fs, fd = (c == "1" for c in case["cfg"])
        st = self.st = {"n": 0, "log": []}
        tab = self.tab = [untok(t) for t in case["getter"]]

        def fget(cls):
            r = tab[st["n"] % len(tab)]
            if isinstance(r, type) and issubclass(r, BaseException):
                raise r("raised by the getter")
            if r is PCF:
                return (0, "", None)[cls._idx]
            if isinstance(r, int) and not isinstance(r, bool) and r >= 10:
                return r + cls._base
            return r

        def fset(cls, value):
            st["log"].append(f"S{cls._idx}:" + tok(value))

        def fdel(cls):
            st["log"].append(f"D{cls._idx}")

        p = build_prop(
            _S["classproperty"], fget if case.get("hg", 1) else None, fset if fs else None, fdel if fd else None,
            dict(overridable=ov, cache=ca, cache_per_subclass=ps, allow_attribute_error=bool(case.get("aae", 1))),
            case.get("build", "deco"),
        )
        A = type("A", (), {"x": p, "_base": 100, "_idx": 0})
        B = type("B", (A,), {"_base": 200, "_idx": 1})
        C = type("C", (B,), {"_base": 300, "_idx": 2})
        self.classes = [A, B, C]
        self.objs = [A(), B(), C()]
        self.desc = A.__dict__["x"]

    def state(self):
        cache = self.desc._cache
        parts = []
        for name, key in (("N", None), ("0", self.classes[0]), ("1", self.classes[1]), ("2", self.classes[2])):
            if key in cache:
                parts.append(f"{name}={tok(cache[key])}")
        extra = [k for k in cache if k is not None and k not in self.classes]
        if extra:
            parts.append("?extra")
        log = ",".join(self.st["log"]) if self.st["log"] else "-"
        return "{" + ",".join(parts) + "} ;; " + f"{self.st['n']} ;; {log}"

    def apply(self, op):
        ts = op.split(" ")
        if ts[0] == "b":
            self.st["n"] += 1
            return "ok"
        via, k = ts[1][0], int(ts[1][1:])
        if ts[0] == "r":
            return "val " + tok(getattr(self.classes[k] if via == "c" else self.objs[k], "x"))
        if ts[0] == "a":
            v = untok(ts[2])
            if via == "c":
                self.desc.__set__(self.classes[k], v)
            else:
                setattr(self.objs[k], "x", v)
            return "ok"
        if ts[0] == "d":
            if via == "c":
                self.desc.__delete__(self.classes[k])
            else:
                delattr(self.objs[k], "x")
            return "ok"
        raise ValueError(op)


# ---------------------------------------------------------------------------
# protocol
# ---------------------------------------------------------------------------


def sp_flags(case):
    return case["cfg"] + str(case.get("hg", 1)) + str(case.get("aae", 1)) + ANNS[case.get("ann", "int")]


def model_lines(case):
    if case["kind"] == "sp":
        head = "sp " + sp_flags(case) + " " + layout_str(case["host"]) + " " + " ".join(case["getter"])
    else:
        head = "cp " + case["cfg"] + str(case.get("hg", 1)) + str(case.get("aae", 1)) + " " + " ".join(case["getter"])
    return [head] + list(case["ops"])


def split_op(line, depth):
    """-> (k, op): the depth the op applies at, and the bare op."""
    if line[0] == "@":
        head, op = line.split(" ", 1)
        return int(head[1:]), op
    return depth, line


def fresh(case):
    """-> (state_fn, apply_fn) on a new real object / class chain."""
    if case["kind"] == "sp":
        box = [sp_new(case)]
        return (lambda: sp_state(box[0])), (lambda op: sp_apply(box, op))
    ch = chain_for(case)
    return ch.state, ch.apply


def replay(case, path):
    state, apply = fresh(case)
    for op in path:
        try:
            apply(op)
        except Exception:  # noqa: BLE001
            pass
    return state, apply


_OBS = {"case": None, "obs": None}


def observe(case):
    """Run the case on the real code: -> (initial state, rows); one row (k, op, state before, result, state after)
    per protocol line, None for a malformed line. `real_lines` prints it and the oracle judges it; the last
    observation is kept so that the oracle, called right after `real_lines` on the same case object, judges that
    very execution instead of paying for a second one."""
    if _OBS["case"] is case:
        return _OBS["obs"]
    state, apply = fresh(case)
    s0 = state()
    states, path, rows = [s0], [], []
    for line in case["ops"]:
        k, op = split_op(line, len(path))
        if k > len(path):
            rows.append(None)
            continue
        if k != len(path):
            path = path[:k]
            del states[k + 1:]
            state, apply = replay(case, path)
        path.append(op)
        try:
            r = apply(op)
        except Exception as e:  # noqa: BLE001
            r = "err " + err_name(e)
        after = state()
        rows.append((k, op, states[k], r, after))
        states.append(after)
    _OBS["case"], _OBS["obs"] = case, (s0, rows)
    return s0, rows


def real_lines(case):
    s0, rows = observe(case)
    return ["ok ;; " + s0] + ["bad-op" if row is None else row[3] + " ;; " + row[4] for row in rows]


# ---------------------------------------------------------------------------
# independent oracle: the protocol of the property text as an explicit
# (set-valued, where the text is silent) state machine
# ---------------------------------------------------------------------------

ANY = "<any>"  # an override whose value the text does not determine (bound by the next read)
SENT = ("M", "E", "U")
FALSY_TOKENS = ("i0", "N", "F", "e", "L")


def o_conforms(t, ann="int"):
    """does the value conform to the annotation (int / Optional[int] / Any / str)? check_type(False, int) holds"""
    if ann == "any":
        return True
    if ann == "str":
        return t[0] == "s" or t == "e"
    return t[0] == "i" or t == "F" or (ann == "opt" and t == "N")


def o_helper_result(out):
    """a helper of ANOTHER attribute / a plain copy: it returns an instance, or rejects its own argument (TypeError)
    or does not exist on this host (AttributeError); none of that is the property's business"""
    return out in ("ok", "err TypeError", "err AttributeError")


o_helper_result.label = "ok | err TypeError | err AttributeError"


def o_prep(t):
    """the attribute's preparer, on tokens; `!T` / `!A` / `!V`: it raises that class"""
    if t[0] == "i":
        n = int(t[1:])
        if n == 97:
            return "!T"
        if n == 96:
            return "!A"
        return "M" if n == 99 else "i0" if n == 98 else f"i{n + 1000}"
    if t == "F":
        return "i1000"
    if t[0] == "s":
        n = int(t[1:])
        if n % 4 == 3:
            return "!V"
        return f"i{n + 2000}" if n % 2 == 0 else t
    return {"N": "i3000", "e": "i3001", "L": "i3002"}.get(t, t)


def o_readings(host):
    """What the property text makes of a class hierarchy: the list of admissible (on a spec class, managed, has
    preparer), one reading for the whole case. The spec class of an instance is the most derived decorated class of
    its MRO; `x` is a managed attribute of it iff that class or a class it derives from is a spec class annotating
    `x` -- whichever class declares the property. "The attribute's preparer": a `_prepare_x` defined in the (most
    derived) spec class that annotates `x`, or in a class that one derives from, certainly is one; none anywhere in
    the hierarchy certainly is none; in between (defined only further down, or on the other side of a multiple
    inheritance) the text does not decide and both readings are admitted. Likewise when the only annotating spec
    classes are not among the ancestors of the instance's spec class (other side of a multiple inheritance)."""
    left, right, tail = parse_layout(host)
    # nodes: (kind, ancestors-or-self as indices into `nodes`), most derived first (the MRO)
    nodes = []
    if left is None:
        n = len(tail)
        for i in range(n - 1, -1, -1):
            nodes.append((tail[i], set(range(n - 1 - i, n))))
    else:
        nt, nl, nr = len(tail), len(left), len(right)
        total = nt + nl + nr
        for j in range(nt - 1, -1, -1):
            nodes.append((tail[j], set(range(nt - 1 - j, total))))
        for i in range(nl - 1, -1, -1):
            nodes.append((left[i], set(range(nt + nl - 1 - i, nt + nl))))
        for i in range(nr - 1, -1, -1):
            nodes.append((right[i], set(range(nt + nl + nr - 1 - i, total))))
    spec_idx = [i for i, (k, _) in enumerate(nodes) if "s" in k]
    if not spec_idx:
        return [(False, False, False)]
    mine = nodes[spec_idx[0]][1]  # the instance's spec class and everything it derives from
    annot = [i for i in sorted(mine) if "s" in nodes[i][0] and "a" in nodes[i][0]]
    anywhere = any("s" in k and "a" in k for k, _ in nodes)
    if not annot:
        return [(True, False, False)] + ([(True, True, True), (True, True, False)] if anywhere else [])
    if any("p" in nodes[i][0] for i in nodes[annot[0]][1]):
        return [(True, True, True)]
    if any("p" in k for k, _ in nodes):
        return [(True, True, True), (True, True, False)]
    return [(True, True, False)]


def o_val_any(out):
    return out.startswith("val ")


def sp_options(case, st, op, n):
    """All (expected output | predicate, new protocol state, log entry or None) the text allows.
    Protocol state: (override, cached) of tokens / None / ANY."""
    ov, ca, fs, fd = (c == "1" for c in case["cfg"])
    on_spec, managed, prep = case["_reading"]
    ann = case.get("ann", "int")
    override, cached = st
    c = op[0]
    if c == "b":
        return [("ok", st, None)]
    if c in "cwuZy":
        # a copy is neither an assignment nor a deletion, and neither is anything done to another attribute: the
        # instance that comes back has the override / cached value of the one that went in
        return [(o_helper_result, st, None)]
    if c in "WR":
        # copy-on-write forms: the assignment / deletion happens to the copy that is returned; where `x` is not a
        # managed attribute the helper does not exist
        res = sp_options(case, st, "a " + op[2:] if c == "W" else "d", n)
        if not (on_spec and managed):
            res = res + [("err AttributeError", st, None)]
        return res
    if c == "r":
        if override == ANY:
            return [(o_val_any, "bind-override", None)]
        if override is not None:
            return [("val " + override, st, None)]
        if ca and cached is not None:
            return [("val " + cached, st, None)]
        if not case.get("hg", 1):
            return [("err AttributeError", st, None)]
        g = case["getter"][n % len(case["getter"])]
        if g in EXC:
            name = EXC[g].__name__
            if name == "AttributeError" and not case.get("aae", 1):
                name = "NestedAttributeError"
            return [("err " + name, st, None)]
        if g == "z":
            g = "i0"
        lenient = False
        if managed:
            if g in SENT:
                lenient = True
            else:
                v = o_prep(g) if prep else g
                if v in SENT:
                    lenient = True
        else:
            v = g
        if lenient:  # the text does not say what a sentinel becomes on a managed attribute (the annotation's
            # constructor is called for MISSING / EMPTY; that of Optional / Any raises TypeError)
            return [("err ValueError", st, None), ("err TypeError", st, None), (o_val_any, "bind-cached-maybe", None)]
        if managed and v in EXC:  # the preparer raised: that is what the read raises, and nothing is cached
            res = [("err " + EXC[v].__name__, st, None)]
            if v == "!A" and not case.get("aae", 1):  # whether allow_attribute_error covers the preparer is not in the text
                res.append(("err NestedAttributeError", st, None))
            return res
        if managed and not o_conforms(v, ann):
            return [("err ValueError", st, None)]
        if not ca:
            return [("val " + v, st, None)]
        if v in SENT:  # whether a sentinel result counts as "cached" is not in the text
            return [("val " + v, st, None), ("val " + v, (None, v), None)]
        return [("val " + v, (None, v), None)]
    if c == "a":
        v = op[2:]
        stored = v
        loose = False
        if on_spec:
            if managed:
                if v in SENT:
                    loose = True
                else:
                    stored = o_prep(v) if prep else v
                    if stored in SENT:
                        loose = True
            elif v in SENT:
                loose = True
        if loose:
            # assigning a sentinel on a spec class is C05's subject: anything consistent is accepted
            res = [("ok", st, None), ("ok", (ANY, None), None), ("err TypeError", st, None)]
            if not ov and not fs:
                res.append(("err AttributeError", st, None))
            if fs:
                res.append(("ok", st, "S:*"))
            return res
        if managed and stored in EXC:
            # the preparer raised while the value was being delivered: that exception, nothing changes
            res = [("err " + EXC[stored].__name__, st, None)]
            if not ov and not fs:
                res.append(("err AttributeError", st, None))
            return res
        if managed and not o_conforms(stored, ann):
            # ill-typed value on a managed attribute: the spec-class type check (C03) may reject it first
            res = [("err TypeError", st, None)]
            if not ov and not fs:
                res.append(("err AttributeError", st, None))
            return res
        if fs:
            return [("ok", st, "S:" + stored)]
        if ov:
            return [("ok", (stored, None), None)]
        return [("err AttributeError", st, None)]
    if c == "d":
        if fd:
            return [("ok", st, "D")]
        if override is not None or (cached is not None):
            return [("ok", (None, None), None)]
        return [("err AttributeError", st, None)]
    raise ValueError(op)


def oracle_step(case, options, ost, op, before, out, after):
    """One observed operation (state before, result, state after on the real object) judged against the set of
    protocol states `ost` = (states, n, explogs). Returns (new ost, violation message or None)."""
    states, n, explogs = ost
    if op[0] in OBJ_OPS and out.startswith("ok"):
        # `ok same` / `ok new ^<state of the instance the helper was applied to>`: an operation on a copy is not an
        # operation on the original
        if out.startswith("ok new ^") and out[8:] != before.replace(" ;; ", "|"):
            return ost, (
                f"{op!r}: returned a new instance but the one it was applied to changed: "
                f"{before!r} -> {out[8:]!r}"
            )
        out = "ok"
    new_states, new_logs = set(), {}
    wanted = []
    for st in states:
        for exp, st2, logent in options(case, st, op, n):
            wanted.append(exp if isinstance(exp, str) else getattr(exp, "label", "val <any>"))
            ok = exp(out) if callable(exp) else (exp == out)
            if not ok:
                continue
            if st2 == "bind-override":
                st2 = (out[4:], None)
            elif st2 == "bind-cached-maybe":
                new_states.add(st)
                st2 = (None, out[4:]) if case["cfg"][1] == "1" else st
            new_states.add(st2)
            for lg in explogs:
                new_logs[lg + ((logent,) if logent else ())] = None
    if not new_states:
        return ost, (
            f"{op!r}: real code gave {out!r}; the protocol allows {sorted(set(wanted))} "
            f"(protocol states {sorted(map(str, states))}, underlying state {n})"
        )
    if op[0] == "b":
        n += 1
    # accessor-call log: exactly the calls the protocol prescribes, once each
    real_log = after.rsplit(" ;; ", 1)[-1]
    got = [] if real_log == "-" else real_log.split(",")

    def log_ok(lg):
        if len(got) != len(lg):
            return False
        return all(e == g or (e.endswith("*") and g.startswith(e[:-1])) for e, g in zip(lg, got))

    if not any(log_ok(lg) for lg in new_logs):
        return ost, f"{op!r}: accessor-call log is {real_log!r}, protocol expects one of {sorted(new_logs)}"
    # "raises ... and changes nothing"; a read that raises has not produced a value, so it has cached none either
    if out.startswith("err") and op[0] != "b" and before != after:
        return ost, f"{op!r}: raised {out[4:]} but the state changed: {before!r} -> {after!r}"
    return (new_states, n, new_logs), None


def run_oracle(case, options, init_state, obs):
    """Set-of-states checker walking the case's tree of operation sequences as observed on the real code
    (`observe`: fresh object + replay at every rewind). `options(case, st, op, n)` as in sp_options."""
    stack = [({init_state}, 0, {(): None})]
    path = []
    for line, row in zip(case["ops"], obs[1]):
        if row is None:
            return [f"malformed case: {line!r} at depth {len(path)}"]
        k, op, before, out, after = row
        if k != len(path):
            path = path[:k]
            del stack[k + 1:]
        path.append(op)
        ost, msg = oracle_step(case, options, stack[-1], op, before, out, after)
        if msg:
            return [f"sequence {path}: op#{len(path) - 1} " + msg]
        stack.append(ost)
    return []


def cp_options(case, st, op, n):
    """Protocol state: tuple of (key, override, cached) sorted by str(key); key None (shared) or class index."""
    ov, ca, ps, fs, fd = (c == "1" for c in case["cfg"])
    ts = op.split(" ")
    if ts[0] == "b":
        return [("ok", st, None)]
    k = int(ts[1][1:])  # a class, or an instance of it: the protocol state is that of type(obj)
    key = k if ps else None
    d = {a: (b, c) for a, b, c in st}
    override, cached = d.get(key, (None, None))

    def put(o, c_):
        d2 = dict(d)
        if o is None and c_ is None:
            d2.pop(key, None)
        else:
            d2[key] = (o, c_)
        return tuple(sorted(((a, b, c) for a, (b, c) in d2.items()), key=lambda x: str(x[0])))

    if ts[0] == "r":
        if override is not None:
            return [("val " + override, st, None)]
        if cached is not None:
            return [("val " + cached, st, None)]
        if not case.get("hg", 1):
            return [("err AttributeError", st, None)]
        g = case["getter"][n % len(case["getter"])]
        if g in EXC:
            name = EXC[g].__name__
            if name == "AttributeError" and not case.get("aae", 1):
                name = "NestedAttributeError"
            return [("err " + name, st, None)]
        if g == "z":
            v = ("i0", "e", "N")[k]
        elif g[0] == "i" and int(g[1:]) >= 10:
            v = f"i{int(g[1:]) + 100 * (k + 1)}"
        else:
            v = g
        if not ca:
            return [("val " + v, st, None)]
        if v in SENT:
            return [("val " + v, st, None), ("val " + v, put(None, v), None)]
        return [("val " + v, put(None, v), None)]
    if ts[0] == "a":
        v = ts[2]
        if fs:
            return [("ok", st, f"S{k}:{v}")]
        if ov:
            return [("ok", put(v, None), None)]
        return [("err AttributeError", st, None)]
    if ts[0] == "d":
        if fd:
            return [("ok", st, f"D{k}")]
        if override is not None or cached is not None:
            return [("ok", put(None, None), None)]
        return [("err AttributeError", st, None)]
    raise ValueError(op)


def oracle(case):
    obs = observe(case)
    if case["kind"] == "sp":
        first = None
        for reading in o_readings(case["host"]):
            v = run_oracle({**case, "_reading": reading}, sp_options, (None, None), obs)
            if not v:
                return []
            first = first or v
        return first
    return run_oracle(case, cp_options, (), obs)


# ---------------------------------------------------------------------------
# generation
# ---------------------------------------------------------------------------

SP_CFGS = ["".join(b) for b in itertools.product("01", repeat=4)]
CP_CFGS = ["".join(b) for b in itertools.product("01", repeat=5)]
G_POOL = ["i10", "i11", "i12", "i13", "s1", "s2", "s3", "s4", "M", "E", "U", "!A", "!R", "!K", "i99",
          "i0", "N", "F", "e", "L", "i98", "z", "i97", "i96", "s7"]
A_POOL = ["i1", "i2", "i3", "s1", "s2", "M", "E", "U", "i99", "i0", "N", "F", "e", "L", "i98", "i97", "i96", "s3"]


def random_layout(rng):
    """a chain of 1..4 classes, or two base chains joined by a class (multiple inheritance) and continued below it;
    at least one class declares the property"""
    if rng.random() < 0.3:
        parts = [[rng.choice(CLASS_KINDS) for _ in range(rng.choice((1, 1, 2)))] for _ in range(3)]
    else:
        parts = [[rng.choice(CLASS_KINDS) for _ in range(rng.choice((1, 2, 2, 3, 3, 3, 4)))]]
    flat = [(p, i) for p in parts for i in range(len(p))]
    if not any("d" in p[i] for p, i in flat):
        p, i = rng.choice(flat)
        p[i] = "".join(ch for ch in "sdap" if ch == "d" or ch in p[i])
    if len(parts) == 3:
        if "s" not in parts[2][0]:
            # Shape left out: an UNDECORATED class joining two bases with a decorated class below it. The class below
            # inherits only the left base's attrs (for_class goes through getattr(parent, "__spec_class__")) while its
            # generated __init__ walks the whole MRO, so constructing it raises KeyError when the right base manages
            # an attribute the left one does not -- a constructor matter (C09's subject), observed on the unchanged
            # tree, nothing a spec_property does.
            parts[2] = [parts[2][0]] + [k.replace("s", "") or "-" for k in parts[2][1:]]
        return "/".join(parts[0]) + "+" + "/".join(parts[1]) + ">" + "/".join(parts[2])
    return "/".join(parts[0])


def cow_ok(host):
    """Do `with_x` / `reset_x` exist exactly where the instance's metadata manages `x`? Not when an UNDECORATED class
    joins two bases: the helpers are found along the MRO (either base chain) while `__spec_class__` is the left chain's
    if it has one -- the model has no such split, so `W` / `R` are not generated on these layouts."""
    left, _, tail = parse_layout(host)
    return left is None or "s" in tail[0]


# instance-level operations in the random streams (a third of the draws of a case that has them)
COPY_POOL = ["c", "w i5", "u i6", "Z", "y i7", "W i3", "W i0", "R", "w i5", "c"]
COPY_POOL_MALFORMED = ["c", "w i5", "w s1", "w U", "w M", "w N", "w F", "u i6", "u s1", "Z", "y i7", "y N", "y M",
                       "W i3", "W N", "W i97", "W M", "W U", "W s1", "W s2", "W e", "W i99", "R", "R"]
ANN_DRAW = ["int"] * 5 + ["opt", "opt", "any", "any", "str"]


def sp_random(rng, malformed, maxlen, like=None):
    """`like`: an earlier case whose host classes are used again (same options, layout, build, annotation; building a
    spec-class hierarchy is the expensive part of a case) with another getter table and another history."""
    if like is not None:
        cfg, host, ann = like["cfg"], like["host"], like["ann"]
    else:
        cfg = rng.choice(SP_CFGS)
        host = rng.choice(HOSTS) if rng.random() < 0.5 else random_layout(rng)
        ann = rng.choice(ANN_DRAW)
    if malformed:
        tab = [rng.choice(G_POOL) for _ in range(rng.randint(1, 5))]
        hg = 0 if rng.random() < 0.08 else 1
        aae = 0 if rng.random() < 0.3 else 1
        if like is not None:
            hg, aae = like["hg"], like["aae"]
        pool = ["r", "r", "d", "b", "b"] + ["a " + v for v in A_POOL]
        extra = COPY_POOL_MALFORMED
    else:
        tab, hg, aae = (MAIN_TABLE if rng.random() < 0.5 else PREP_TABLE), 1, 1
        pool = SP_ALPHABET + ["r", "a F", "a i1", "a i97"]
        extra = COPY_POOL
    if rng.random() < 0.6:  # histories that mix property operations with copies and helpers of other attributes
        if not cow_ok(host):
            extra = [e for e in extra if e[0] not in "WR"]
        k = max(1, len(pool) // 2)
        pool = pool + [rng.choice(extra) for _ in range(k)]
    ops = [rng.choice(pool) for _ in range(rng.randint(1, maxlen))]
    return {"kind": "sp", "cfg": cfg, "host": host, "hg": hg, "aae": aae, "ann": ann,
            "build": like["build"] if like is not None else rng.choice(BUILDS),
            "getter": list(tab), "ops": ops, "origin": "sp-malformed" if malformed else "sp-random"}


def sp_random_stream(rng, malformed, maxlen, n):
    """n cases, three histories per drawn host"""
    base = None
    for i in range(n):
        base = sp_random(rng, malformed, maxlen, like=base if i % 3 else None)
        yield base


def cp_random(rng, malformed, maxlen):
    cfg = rng.choice(CP_CFGS)
    if malformed:
        tab = [rng.choice(G_POOL) for _ in range(rng.randint(1, 4))]
        hg = 0 if rng.random() < 0.08 else 1
        aae = 0 if rng.random() < 0.3 else 1
        pool = CP_FULL + [f"a {t}{k} {v}" for t in "co" for k in range(3) for v in ("s1", "M", "U", "N", "F", "e", "L")]
    else:
        tab, hg, aae = CP_TABLE, 1, 1
        pool = CP_FULL + [f"a o{k} {v}" for k in range(3) for v in ("N", "e")]
    ops = [rng.choice(pool) for _ in range(rng.randint(1, maxlen))]
    return {"kind": "cp", "cfg": cfg, "hg": hg, "aae": aae, "build": rng.choice(BUILDS), "getter": list(tab),
            "ops": ops, "origin": "cp-malformed" if malformed else "cp-random"}


def gen_cases(tier, rng):
    if tier == "search":
        while True:
            r = rng.random()
            if r < 0.35:
                yield from sp_random_stream(rng, False, 10, 3)
            elif r < 0.6:
                yield from sp_random_stream(rng, True, 10, 3)
            elif r < 0.85:
                yield cp_random(rng, False, 10)
            else:
                yield cp_random(rng, True, 10)
        return
    sp_len, cp_len = (4, 3) if tier == "quick" else (6, 4)
    n_sp_rand, n_sp_mal, n_cp_rand, n_cp_mal = (1500, 4000, 3000, 1500) if tier == "quick" else (20000, 60000, 40000, 20000)
    # --- spec_property, exhaustive: the full tree of sequences up to sp_len, one case per (cfg, host, 2-op prefix)
    for cfg in SP_CFGS:
        for host in HOSTS:
            depth = sp_len + 1 if host in DEEP_HOSTS else sp_len
            for i, prefix in enumerate(itertools.product(SP_ALPHABET, repeat=2)):
                # the four ways of building the descriptor rotate over the 25 subtrees of each (cfg, host)
                yield {"kind": "sp", "cfg": cfg, "host": host, "hg": 1, "aae": 1, "build": BUILDS[i % 4],
                       "getter": MAIN_TABLE, "ops": tree_ops(list(prefix), SP_ALPHABET, depth),
                       "origin": "sp-exhaustive"}
    # --- instance-level histories on the named spec hosts: EVERY sequence over property operations, deepcopy, a helper
    # of another attribute and the copy-on-write assignment / deletion of the property; one level deeper (without
    # `c` and `R`) on the preparer host
    copy_len = 3 if tier == "quick" else 4
    for cfg in SP_CFGS:
        for i, (host, alphabet, depth) in enumerate((("spec", COPY_ALPHABET, copy_len), ("specann", COPY_ALPHABET, copy_len),
                                                     ("specprep", COPY_DEEP_ALPHABET, copy_len + 1))):
            yield {"kind": "sp", "cfg": cfg, "host": host, "hg": 1, "aae": 1, "build": BUILDS[(int(cfg, 2) + i) % 4],
                   "getter": MAIN_TABLE, "ops": tree_ops([], alphabet, depth), "origin": "sp-copy"}
    # --- other annotations of `x` (Optional[int], Any, str) on the annotated hosts: None / "" as getter result and as
    # assigned value, a sentinel getter result (the constructor of Optional / Any raises)
    for cfg in SP_CFGS:
        for host in ("specann", "specprep"):
            for i, ann in enumerate(("opt", "any", "str")):
                yield {"kind": "sp", "cfg": cfg, "host": host, "hg": 1, "aae": 1, "ann": ann,
                       "build": BUILDS[(int(cfg, 2) + i) % 4], "getter": ANN_TABLES[ann],
                       "ops": tree_ops([], ANN_ALPHABET, copy_len), "origin": "sp-ann"}
    # --- spec_property, every layout of one and two classes (where the property is declared x which class is
    # decorated / annotates / defines the preparer): the full tree of sequences up to lay_len over LAYOUT_ALPHABET,
    # once with overridable+cache and a getter whose results make a preparer raise, once with one of the 16
    # combinations (rotating) and the main table / AE_TABLE; every three-class chain and every `class Leaf(L, R)`
    # to depth 2 (thorough), a seeded sample of 1000 each (quick)
    lay_len = 3 if tier == "quick" else 4
    for i, host in enumerate(all_layouts(1) + all_layouts(2)):
        yield {"kind": "sp", "cfg": LAYOUT_CFG, "host": host, "hg": 1, "aae": 1, "build": BUILDS[i % 4],
               "getter": PREP_TABLE, "ops": tree_ops([], LAYOUT_ALPHABET, lay_len), "origin": "sp-layout"}
        j = i // 2  # consecutive layouts share the rotating combination: one with the main table, one with AE_TABLE
        # ... walked with the helper of another attribute and the copy-on-write assignment in the alphabet, the
        # annotation rotating over int / Optional[int] / Any
        yield {"kind": "sp", "cfg": SP_CFGS[j % 16], "host": host, "hg": 1, "aae": 1 - i % 2, "build": BUILDS[(i // 4) % 4],
               "ann": ("int", "opt", "any")[j % 3],
               "getter": AE_TABLE if i % 2 else MAIN_TABLE,
               "ops": tree_ops([], LAYOUT_COPY_ALPHABET, lay_len),
               "origin": "sp-layout"}
    # multiple inheritance `class Leaf(L, R)`: a seeded sample (quick) / all (thorough) of the 3584 shapes, depth 2
    mi = all_mi_layouts()
    if tier == "quick":
        mi = rng.sample(mi, 1000)
    for i, host in enumerate(mi):
        yield {"kind": "sp", "cfg": SP_CFGS[(5 * i) % 16] if i % 2 else LAYOUT_CFG, "host": host, "hg": 1,
               "aae": 1, "build": BUILDS[i % 4], "getter": PREP_TABLE if i % 4 < 2 else MAIN_TABLE,
               "ops": tree_ops([], LAYOUT_ALPHABET, 2), "origin": "sp-layout-mi"}
    chains3 = all_layouts(3)
    if tier == "quick":
        chains3 = rng.sample(chains3, 1000)
    for i, host in enumerate(chains3):
        yield {"kind": "sp", "cfg": SP_CFGS[(5 * i) % 16] if i % 2 else LAYOUT_CFG, "host": host, "hg": 1,
               "aae": 1, "build": BUILDS[i % 4], "getter": PREP_TABLE if i % 4 < 2 else MAIN_TABLE,
               "ops": tree_ops([], LAYOUT_ALPHABET, 2), "origin": "sp-layout3"}
    yield from sp_random_stream(rng, False, 12, n_sp_rand)
    yield from sp_random_stream(rng, True, 12, n_sp_mal)
    # --- classproperty, exhaustive over the small alphabet: one case per (cfg, first op)
    for cfg in CP_CFGS:
        for i, first in enumerate(CP_SMALL):
            yield {"kind": "cp", "cfg": cfg, "hg": 1, "aae": 1, "build": BUILDS[i % 4], "getter": CP_TABLE,
                   "ops": tree_ops([first], CP_SMALL, cp_len), "origin": "cp-exhaustive"}
    for _ in range(n_cp_rand):
        yield cp_random(rng, False, 10)
    for _ in range(n_cp_mal):
        yield cp_random(rng, True, 10)


def tree_ops(prefix, alphabet, depth):
    """Depth-first walk of every sequence over `alphabet` extending `prefix` up to length `depth`,
    one `@k op` line per edge."""
    ops = list(prefix)

    def rec(k):
        if k >= depth:
            return
        for a in alphabet:
            ops.append(f"@{k} {a}")
            rec(k + 1)

    rec(len(prefix))
    return ops


def shrink(case, at=None):
    """The single path that leads to protocol line `at`, then that path with ops removed."""
    path = []
    for i, line in enumerate(case["ops"]):
        k, op = split_op(line, len(path))
        path = path[:k] + [op]
        if at is not None and i + 1 >= at:
            break
    yield {**case, "ops": list(path)}
    for i in range(len(path)):
        yield {**case, "ops": path[:i] + path[i + 1:]}


def extra(tier, rng):
    """Nothing is validated outside the line protocol; this only reports how many distinct operation
    sequences the tree-shaped exhaustive cases stand for."""
    sp_len, cp_len = (4, 3) if tier == "quick" else (6, 4)
    n_sp = 0
    for host in HOSTS:
        d = sp_len + 1 if host in DEEP_HOSTS else sp_len
        n_sp += len(SP_CFGS) * sum(len(SP_ALPHABET) ** k for k in range(2, d + 1))
    n_cp = len(CP_CFGS) * sum(len(CP_SMALL) ** k for k in range(1, cp_len + 1))
    lay_len = 3 if tier == "quick" else 4
    n_lay = (len(all_layouts(1)) + len(all_layouts(2))) * (
        sum(len(LAYOUT_ALPHABET) ** k for k in range(1, lay_len + 1))
        + sum(len(LAYOUT_COPY_ALPHABET) ** k for k in range(1, lay_len + 1)))
    copy_len = 3 if tier == "quick" else 4
    n_copy = len(SP_CFGS) * (2 * sum(len(COPY_ALPHABET) ** k for k in range(1, copy_len + 1))
                             + sum(len(COPY_DEEP_ALPHABET) ** k for k in range(1, copy_len + 2)))
    n_ann = len(SP_CFGS) * 6 * sum(len(ANN_ALPHABET) ** k for k in range(1, copy_len + 1))
    per2 = sum(len(LAYOUT_ALPHABET) ** k for k in range(1, 3))
    n_lay += (2000 if tier == "quick" else len(all_mi_layouts()) + len(all_layouts(3))) * per2
    return {"evaluations": 0, "info": {
        "spec_property_sequences_exhaustive": n_sp, "classproperty_sequences_exhaustive": n_cp,
        "spec_property_layout_sequences": n_lay,
        "spec_property_instance_level_sequences": n_copy, "spec_property_annotation_sequences": n_ann,
        "layouts": {"chains_1_2": len(all_layouts(1)) + len(all_layouts(2)), "chains_3": len(all_layouts(3)),
                    "multiple_inheritance": len(all_mi_layouts())},
        "note": "each tree edge is one compared protocol line; every sequence of the tree is judged by the oracle",
    }}


_seen_keys = set()


def steps(case, real):
    """(op, pre-state, post line) per protocol line, following rewinds."""
    stack = [real[0].split(" ;; ", 1)[-1]]
    for i, line in enumerate(case["ops"]):
        if i + 1 >= len(real) or " ;; " not in real[i + 1]:
            break
        k, op = split_op(line, len(stack) - 1)
        if k >= len(stack):
            break
        del stack[k + 1:]
        post = real[i + 1]
        yield op, stack[k], post
        stack.append(post.split(" ;; ", 1)[-1])


def nontrivial(case, real):
    keys = []
    cfg = (case["kind"], case["cfg"], case.get("host", ""), case.get("hg", 1), case.get("aae", 1),
           case.get("build", "deco"), case.get("ann", "int"))
    gk = 0 if case["getter"] in (MAIN_TABLE, CP_TABLE) else tuple(case["getter"][:4])
    for op, pre, post in steps(case, real):
        if post.startswith("err") or post.split(" ;; ", 1)[-1] != pre:
            k = (cfg, pre, op, gk)
            if k not in _seen_keys:
                _seen_keys.add(k)
                keys.append(k)
    return keys


def tags(case, real):
    t = [f"origin:{case.get('origin', 'corpus')}", f"build:{case['kind']}:{case.get('build', 'deco')}"]
    if case["kind"] == "sp":
        host = case["host"]
        left, right, tail = parse_layout(host)
        if host in NAMED_HOSTS:
            t.append("host:" + host)
        elif left is None:
            t.append(f"host:chain{len(tail)}")
        else:
            t.append("host:multiple-inheritance")
        readings = o_readings(host)
        t.append("reading:" + ("ambiguous" if len(readings) > 1 else
                               "plain" if not readings[0][0] else "unmanaged" if not readings[0][1] else
                               "managed+preparer" if readings[0][2] else "managed"))
        ks = tail if left is None else left + right + tail
        declaring = [k for k in ks if "d" in k]
        if readings[0][1] and declaring:
            # where the (effective) declaration sits relative to management: on a class that is itself a spec class
            # annotating x, on another spec class, or on a plain class (mixin)
            d = declaring[-1]
            t.append("declared-on:" + ("managing-class" if "s" in d and "a" in d else "other-spec-class" if "s" in d
                                       else "plain-class"))
        t.append("ann:" + case.get("ann", "int"))
    depth = 0
    gens = [0]  # gens[k]: how many times the instance has been replaced by a copy after the first k operations
    for i, line in enumerate(case["ops"]):
        k, op = split_op(line, depth)
        depth = k + 1
        t.append(f"depth:{depth}")
        if case["kind"] == "sp" and k < len(gens) and i + 1 < len(real):
            del gens[k + 1:]
            head = real[i + 1].split(" ;; ")
            gens.append(gens[k] + (1 if head[0].startswith("ok new") else 0))
            if op[0] == "r" and gens[k] and head[0].startswith("val "):
                # a read on a first / second / third-or-later generation copy; `stored`: override or cached value
                stored = len(head) > 1 and head[1] != "-" and head[0][4:] == head[1]
                t.append(f"read-on-copy:gen{min(gens[k], 3)}:{'stored' if stored else 'getter'}")
    for op, pre, post in steps(case, real):
        t.append(f"op:{case['kind']}:{op[0]}")
        head = post.split(" ;; ")[0]
        if head.startswith("val ") and head[4:] in FALSY_TOKENS:
            # a falsy value was read; `hit` when it came from the slot/cache rather than from the getter
            hit = pre.split(" ;; ")[0] not in ("-", "{}")
            t.append(f"falsy-read:{case['kind']}:{'stored' if hit else 'fresh'}")
        if op[0] == "a" and op.rsplit(" ", 1)[-1] in FALSY_TOKENS:
            t.append(f"falsy-assign:{case['kind']}")
        if head.startswith("err"):
            t.append(f"{case['kind']}:{head.replace(' ', ':')}")
            if case["kind"] == "sp" and readings == [(True, True, True)]:
                # the preparer raised: on a read of a fresh getter result, or while an assignment was delivered
                if op[0] == "r" and pre.split(" ;; ")[0] == "-":
                    g = case["getter"][int(pre.split(" ;; ")[1]) % len(case["getter"])]
                    if g not in EXC and g not in SENT and g != "z" and o_prep(g) in EXC:
                        t.append("preparer-raised:read")
                elif op[0] == "a" and op[2:] not in SENT and o_prep(op[2:]) in EXC:
                    t.append("preparer-raised:assign")
    return t


MANIFEST_ENTRY = {
    "level_text": "Lean 4 proof, for a universally quantified configuration (overridable, cache, custom setter, custom deleter, plain/spec host, managed annotation, preparer, getter present, allow_attribute_error: all combinations at once) and operation sequences of any length, that the Impl model of spec_property.__get__/__set__/__delete__ (one instance-dict slot) refines the override/cache/getter protocol of the property text (ghost override and cache; invariant relating the slot to them): a read returns the override if set, else the value cached since the last deletion when caching is on, else the prepared and type-checked getter result on current state; cached and overridden values are stable under changes of the underlying state; assignment with neither overridable nor a setter raises AttributeError and changes nothing; deletion clears or raises; custom accessors are called exactly once and leave the slot alone; every value read on a managed spec-class attribute conforms to the annotation; an operation that raises (getter, preparer -- which may raise --, type check, assignment layer, __set__, __delete__) leaves slot, underlying state and log exactly as they were, so a failed read leaves no trace; the instance as a whole (Obj: protocol state + another managed attribute) under copy.deepcopy, the copy-on-write helpers of the other attribute and with_x / reset_x: the generated __deepcopy__ carries every instance-dict entry over, with_x / reset_x are assignment / deletion on a copy, any history interleaving all of these leaves an n-th generation copy in the protocol state of the projected history (override and cached value survive copies of copies; operations on other attributes are invisible), a helper that raises returns no new instance and changes nothing; which values reach the preparer is decided by the sentinel tests alone (None, '', [] are prepared), the annotation's constructor may raise; the host flags are a function (resolve / resolveMI, mirroring spec_class.bootstrap for one attribute) of the inheritance hierarchy of type(instance): managed iff some spec class of the chain annotates the attribute, wherever the descriptor is declared (plain mixin, un-annotating spec parent, subclass), also across a class joining two base chains; the same protocol per cache key for classproperty over an arbitrary set of classes, per-subclass independence over whole operation sequences, a single shared slot otherwise, instance access acting on type(obj). The model is tied to /repo on every run by executing EVERY operation sequence up to length 4-5 (quick tier; 5 on the plain and the preparer host) / 6-7 (thorough) over {read, assign v1, assign v2, delete, bump} for all 16 option combinations on four hosts, every sequence up to length 3 / 4 (4 / 5 on the preparer host) over property operations mixed with copy.deepcopy, the copy-on-write helper of another attribute and with_x / reset_x (and the classproperty analogue, 32 combinations over a three-class chain, length 3 / 4) on the real descriptors and on the model, every sequence up to length 3 / 4 on all 200 one- and two-class layouts (which class is decorated / declares the property / annotates / defines the preparer) with getter results and assigned values that make the preparer raise, three-class chains and multiple-inheritance shapes to depth 2, with falsy values (0, False, '', None, []) in every value position and the descriptor built in four ways (constructor, decorator with options, two .getter/.setter/.deleter chain orders), comparing value / exception class / slot or cache dict / accessor-call log after every step; an independent explicit state machine written from the property text judges every case.",
    "level_note": "Trusted: Lean kernel; axioms propext/Classical.choice/Quot.sound only; the hand-written model (incl. the spec-class assignment layer in front of the descriptor and the one-attribute model of the class bootstrap) and the correspondence harness. The theorems are about the model; the per-run correspondence ties them to the code. Not covered: invalidated_by (C11), warn_on_override, frozen spec classes, collection-typed annotations, mutable values in the instance dict (sharing between a copy and its original), do_not_copy, transform_<attr>, class hierarchies other than chains / two joined chains, plain `Cls.x = v` rebinding of a classproperty.",
    "technique": "Lean 4 refinement proof (ghost-state invariant, induction over operation sequences) over a hand-written model; exhaustive small-scope differential correspondence against the real descriptors",
}
