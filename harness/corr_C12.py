"""
C12 — spec_property / classproperty: correspondence between
`spec_classes.types.spec_property` (real code from /repo) and the Lean Impl
model `SpecVerif.C12` (Drivers/C12.lean), plus the independent oracle: an
explicit override/cache/getter state machine written from the property text.

Case shapes (JSON):
  {"kind": "sp", "cfg": "<ov><ca><fs><fd>", "host": "plain|spec|specann|specprep",
   "hg": 1, "aae": 1, "getter": [tok...], "ops": ["r", "a i1", "d", "b", ...]}
  {"kind": "cp", "cfg": "<ov><ca><ps><fs><fd>", "hg": 1, "aae": 1,
   "getter": [tok...], "ops": ["r c0", "r o1", "a o2 i1", "a c1 i2", "d o0", "d c2", "b"]}
An op may be prefixed `@k `: rewind to the state after the first k operations of the
current path, then apply the op. The model side rewinds its (pure) state; the real side
rebuilds a fresh object and replays the k operations. One case can thus carry a whole
tree of operation sequences (one protocol line per tree edge).
Value tokens: i<int> (an int; i0 is falsy), s<int> (the str "s<int>"), M/E/U (MISSING/EMPTY/UNCHANGED),
N/F/e/L (the falsy None / False / "" / []); getter tokens additionally !A !R !V !K !T (the getter raises
that class) and z (a falsy value depending on the class the classproperty getter runs on: 0, "", None).
"build" says how the descriptor is put together: "ctor" (everything through the constructor), "deco"
(decorator-with-options, then .setter/.deleter), "chain-gsd"/"chain-dsg" (.getter/.setter/.deleter chains
in two orders starting from a getter-less property); all must behave like the nominal configuration.
"""
import itertools

PID = "C12"
LEAN_TARGETS = ["SpecVerif.Props.C12"]
AUDIT = [("SpecVerif.Props.C12", "SpecVerif.Props.C12")]
DRIVER = "Drivers/C12.lean"
REQUIRED_THEOREMS = [
    "SpecVerif.Props.C12.protocol",
    "SpecVerif.Props.C12.read_protocol",
    "SpecVerif.Props.C12.cache_hit_stable",
    "SpecVerif.Props.C12.override_stable",
    "SpecVerif.Props.C12.set_rejected",
    "SpecVerif.Props.C12.delete_semantics",
    "SpecVerif.Props.C12.custom_accessors",
    "SpecVerif.Props.C12.getter_result_checked",
    "SpecVerif.Props.C12.reads_conform",
    "SpecVerif.Props.C12.cp_protocol",
    "SpecVerif.Props.C12.cp_read_protocol",
    "SpecVerif.Props.C12.cp_set_rejected",
    "SpecVerif.Props.C12.cp_delete_semantics",
    "SpecVerif.Props.C12.cp_custom_accessors",
    "SpecVerif.Props.C12.cp_per_subclass_independent",
    "SpecVerif.Props.C12.cp_shared_slot",
    "SpecVerif.Props.C12.cp_instance_acts_on_type",
]
RULE = (
    "spec_property: every one of the 16 (overridable, cache, setter, deleter) combinations x 4 hosts (plain class, "
    "spec class without annotation, spec class with managed int annotation, the same with a preparer) x EVERY "
    "operation sequence up to length 5 (quick) / 6, and 7 on the plain and preparer hosts (thorough) over "
    "{read, assign 0, assign 2, delete, bump underlying state} with getter results alternating falsy and truthy "
    "values (0, 11, False, 13, '', 15, None, 17, []), the descriptor built in four ways (constructor, decorator with "
    "options, .getter/.setter/.deleter chains in two orders) rotating over the subtrees, walked as a tree with one compared protocol line per "
    "edge (`@k op` rewinds to depth k; the real side rebuilds the object and replays), then a seeded "
    "malformed stream (getters returning sentinels / ill-typed values / raising, assignment of sentinels and ill-typed "
    "values incl. the falsy None/False/''/[]/0, falsy preparer results, no getter, allow_attribute_error off) with "
    "sequences up to length 12; classproperty: 32 "
    "(overridable, cache, cache_per_subclass, setter, deleter) combinations over a three-class chain A>B>C, every "
    "sequence up to length 3 (quick) / 4 (thorough) over a 13-letter alphabet of reads/assignments/deletions through classes and "
    "instances and bump, then seeded random sequences over the full 25-letter alphabet. A step is non-trivial when "
    "it changed the slot/cache/log or raised; distinct = distinct (kind, configuration, host, pre-state, operation)."
)
EXHAUSTIVE = {"quick": True, "thorough": True}
ASSUMPTIONS = [
    "getter, preparer, custom setter and deleter are deterministic functions of their arguments and the underlying state; the custom setter/deleter only record the call",
    "managed annotation is a scalar type (int): no collection preparation, no dict-as-constructor-arguments branch of mutate_value",
    "the instance __dict__ slot of the property is written only through the descriptor (no direct obj.__dict__ pokes); spec class not frozen; no invalidated_by (that is C11)",
    "a value assigned on a spec class reaches the property as the spec-class assignment layer delivers it (prepared, type-checked, sentinels dropped): that layer is the environment of C12, its own guarantees are C01/C03/C05",
    "a custom setter/deleter replaces storing/clearing (DESIGN C12 custom_accessors): the protocol state is then untouched",
    "classproperty assignment/deletion 'through a class' is the descriptor's __set__/__delete__ invoked with the class (plain `Cls.x = v` rebinds the class attribute in Python and never reaches a descriptor)",
    "warnings (warn_on_override) and messages are not modelled",
]

HOSTS = ["plain", "spec", "specann", "specprep"]
SP_ALPHABET = ["r", "a i0", "a i2", "d", "b"]  # assigned values: the falsy int 0 and a truthy int
DEEP_HOSTS = ("plain", "specprep")  # thorough tier: one op deeper on these two hosts
# getter results by underlying state: falsy and truthy values alternate (0, False conform to int; "", None, [] do not)
MAIN_TABLE = ["i0", "i11", "F", "i13", "e", "i15", "N", "i17", "L", "i19", "i0", "i21"]
# classproperty: `z` is a falsy value that still tells the class the getter ran on (0 / "" / None)
CP_TABLE = ["z", "i11", "z", "i13", "F", "i15", "L", "i17", "N", "i19"]
BUILDS = ["deco", "ctor", "chain-gsd", "chain-dsg"]
CP_SMALL = [
    "r c0", "r c1", "r c2", "r o1",
    "a o0 i0", "a o1 i0", "a o2 i0", "a c1 i2",
    "d o0", "d o1", "d o2", "d c2",
    "b",
]
CP_FULL = (
    [f"r {t}{k}" for t in "co" for k in range(3)]
    + [f"a {t}{k} {v}" for t in "co" for k in range(3) for v in ("i0", "i2")]
    + [f"d {t}{k}" for t in "co" for k in range(3)]
    + ["b"]
)

_S = {}  # lazily filled: spec_classes objects


def setup():
    from spec_classes import classproperty, spec_class, spec_property
    from spec_classes.types.missing import EMPTY, MISSING, UNCHANGED

    _S.update(
        spec_class=spec_class, spec_property=spec_property, classproperty=classproperty,
        M=MISSING, E=EMPTY, U=UNCHANGED, classes={},
    )


# ---------------------------------------------------------------------------
# tokens
# ---------------------------------------------------------------------------

EXC = {"!A": AttributeError, "!R": RuntimeError, "!V": ValueError, "!K": KeyError, "!T": TypeError}
ERRS = (
    "NestedAttributeError", "FrozenInstanceError", "TypeError", "ValueError", "KeyError", "IndexError",
    "AttributeError", "RuntimeError",
)


class _PerClassFalsy:
    """getter-table entry `z`"""


PCF = _PerClassFalsy()
FALSY = {"N": None, "F": False, "e": ""}


def untok(t):
    if t in ("M", "E", "U"):
        return _S[t]
    if t in FALSY:
        return FALSY[t]
    if t == "L":
        return []
    if t == "z":
        return PCF
    if t in EXC:
        return EXC[t]
    if t[0] == "i":
        return int(t[1:])
    if t[0] == "s":
        return t
    raise ValueError(t)


def tok(v):
    if v is _S["M"]:
        return "M"
    if v is _S["E"]:
        return "E"
    if v is _S["U"]:
        return "U"
    if v is None:
        return "N"
    if v is False:
        return "F"
    if isinstance(v, bool):
        return f"?{v!r}"
    if isinstance(v, int):
        return f"i{v}"
    if isinstance(v, str):
        return v if v else "e"
    if isinstance(v, list) and not v:
        return "L"
    return f"?{v!r}"


def err_name(e):
    for klass in type(e).__mro__:
        if klass.__name__ in ERRS:
            return klass.__name__
    return type(e).__name__


def the_preparer(self, v):
    """`_prepare_x` of the `specprep` host (mirrored by `thePreparer` in the driver and `o_prep` in the oracle)."""
    if isinstance(v, int):  # bool included: False + 1000 == 1000
        return _S["M"] if v == 99 else 0 if v == 98 else v + 1000
    if isinstance(v, str) and v:
        n = int(v[1:])
        return n + 2000 if n % 2 == 0 else v
    return v


# ---------------------------------------------------------------------------
# real hosts
# ---------------------------------------------------------------------------


def _fget(self):
    d = self.__dict__
    tab = d["_tab"]
    r = tab[d["_n"] % len(tab)]
    if isinstance(r, type) and issubclass(r, BaseException):
        raise r("raised by the getter")
    if r is PCF:
        return 0
    return r


def _fset(self, value):
    self.__dict__["_log"].append("S:" + tok(value))


def _fdel(self):
    self.__dict__["_log"].append("D")


def build_prop(factory, fget, fset, fdel, kw, build):
    """The same nominal configuration put together in different ways."""
    if build == "ctor":
        return factory(fget, fset, fdel, **kw)
    if build == "deco":
        p = factory(**kw)(fget) if fget else factory(None, **kw)
        links = [("setter", fset), ("deleter", fdel)]
    elif build == "chain-gsd":
        p = factory(None, **kw)
        links = [("getter", fget), ("setter", fset), ("deleter", fdel)]
    elif build == "chain-dsg":
        p = factory(None, **kw)
        links = [("deleter", fdel), ("setter", fset), ("getter", fget)]
    else:
        raise ValueError(build)
    for name, fn in links:
        if fn is not None:
            p = getattr(p, name)(fn)
    return p


def sp_class(cfg, host, hg, aae, build="deco"):
    key = (cfg, host, hg, aae, build)
    cls = _S["classes"].get(key)
    if cls is not None:
        return cls
    ov, ca, fs, fd = (c == "1" for c in cfg)
    p = build_prop(
        _S["spec_property"], _fget if hg else None, _fset if fs else None, _fdel if fd else None,
        dict(overridable=ov, cache=ca, allow_attribute_error=bool(aae)), build,
    )
    ns = {"x": p}
    if host in ("specann", "specprep"):
        ns["__annotations__"] = {"x": int}
    if host == "specprep":
        ns["_prepare_x"] = the_preparer
    cls = type("Host_" + host, (), ns)
    if host != "plain":
        cls = _S["spec_class"](bootstrap=True)(cls)
    _S["classes"][key] = cls
    return cls


def sp_new(case):
    cls = sp_class(case["cfg"], case["host"], case.get("hg", 1), case.get("aae", 1), case.get("build", "deco"))
    o = cls()
    o.__dict__.update(_n=0, _tab=[untok(t) for t in case["getter"]], _log=[])
    return o


def sp_state(o):
    d = o.__dict__
    slot = tok(d["x"]) if "x" in d else "-"
    log = ",".join(d["_log"]) if d["_log"] else "-"
    return f"{slot} ;; {d['_n']} ;; {log}"


def sp_apply(o, op):
    c = op[0]
    if c == "r":
        return "val " + tok(o.x)
    if c == "a":
        o.x = untok(op[2:])
        return "ok"
    if c == "d":
        del o.x
        return "ok"
    if c == "b":
        o.__dict__["_n"] += 1
        return "ok"
    raise ValueError(op)


class Chain:
    """Three-class chain A > B > C with one classproperty `x` defined on A."""

    def __init__(self, case):
        ov, ca, ps, fs, fd = (c == "1" for c in case["cfg"])
        st = self.st = {"n": 0, "log": []}
        tab = [untok(t) for t in case["getter"]]

        def fget(cls):
            r = tab[st["n"] % len(tab)]
            if isinstance(r, type) and issubclass(r, BaseException):
                raise r("raised by the getter")
            if r is PCF:
                return (0, "", None)[cls._idx]
            if isinstance(r, int) and not isinstance(r, bool) and r >= 10:
                return r + cls._base
            return r

        def fset(cls, value):
            st["log"].append(f"S{cls._idx}:" + tok(value))

        def fdel(cls):
            st["log"].append(f"D{cls._idx}")

        p = build_prop(
            _S["classproperty"], fget if case.get("hg", 1) else None, fset if fs else None, fdel if fd else None,
            dict(overridable=ov, cache=ca, cache_per_subclass=ps, allow_attribute_error=bool(case.get("aae", 1))),
            case.get("build", "deco"),
        )
        A = type("A", (), {"x": p, "_base": 100, "_idx": 0})
        B = type("B", (A,), {"_base": 200, "_idx": 1})
        C = type("C", (B,), {"_base": 300, "_idx": 2})
        self.classes = [A, B, C]
        self.objs = [A(), B(), C()]
        self.desc = A.__dict__["x"]

    def state(self):
        cache = self.desc._cache
        parts = []
        for name, key in (("N", None), ("0", self.classes[0]), ("1", self.classes[1]), ("2", self.classes[2])):
            if key in cache:
                parts.append(f"{name}={tok(cache[key])}")
        extra = [k for k in cache if k is not None and k not in self.classes]
        if extra:
            parts.append("?extra")
        log = ",".join(self.st["log"]) if self.st["log"] else "-"
        return "{" + ",".join(parts) + "} ;; " + f"{self.st['n']} ;; {log}"

    def apply(self, op):
        ts = op.split(" ")
        if ts[0] == "b":
            self.st["n"] += 1
            return "ok"
        via, k = ts[1][0], int(ts[1][1:])
        if ts[0] == "r":
            return "val " + tok(getattr(self.classes[k] if via == "c" else self.objs[k], "x"))
        if ts[0] == "a":
            v = untok(ts[2])
            if via == "c":
                self.desc.__set__(self.classes[k], v)
            else:
                setattr(self.objs[k], "x", v)
            return "ok"
        if ts[0] == "d":
            if via == "c":
                self.desc.__delete__(self.classes[k])
            else:
                delattr(self.objs[k], "x")
            return "ok"
        raise ValueError(op)


# ---------------------------------------------------------------------------
# protocol
# ---------------------------------------------------------------------------


def sp_flags(case):
    host = case["host"]
    return (
        case["cfg"]
        + ("0" if host == "plain" else "1")
        + ("1" if host in ("specann", "specprep") else "0")
        + ("1" if host == "specprep" else "0")
        + str(case.get("hg", 1))
        + str(case.get("aae", 1))
    )


def model_lines(case):
    if case["kind"] == "sp":
        head = "sp " + sp_flags(case) + " " + " ".join(case["getter"])
    else:
        head = "cp " + case["cfg"] + str(case.get("hg", 1)) + str(case.get("aae", 1)) + " " + " ".join(case["getter"])
    return [head] + list(case["ops"])


def split_op(line, depth):
    """-> (k, op): the depth the op applies at, and the bare op."""
    if line[0] == "@":
        head, op = line.split(" ", 1)
        return int(head[1:]), op
    return depth, line


def fresh(case):
    """-> (state_fn, apply_fn) on a new real object / class chain."""
    if case["kind"] == "sp":
        o = sp_new(case)
        return (lambda: sp_state(o)), (lambda op: sp_apply(o, op))
    ch = Chain(case)
    return ch.state, ch.apply


def replay(case, path):
    state, apply = fresh(case)
    for op in path:
        try:
            apply(op)
        except Exception:  # noqa: BLE001
            pass
    return state, apply


def real_lines(case):
    state, apply = fresh(case)
    out = ["ok ;; " + state()]
    path = []
    for line in case["ops"]:
        k, op = split_op(line, len(path))
        if k > len(path):
            out.append("bad-op")
            continue
        if k != len(path):
            path = path[:k]
            state, apply = replay(case, path)
        path.append(op)
        try:
            r = apply(op)
        except Exception as e:  # noqa: BLE001
            r = "err " + err_name(e)
        out.append(r + " ;; " + state())
    return out


# ---------------------------------------------------------------------------
# independent oracle: the protocol of the property text as an explicit
# (set-valued, where the text is silent) state machine
# ---------------------------------------------------------------------------

ANY = "<any>"  # an override whose value the text does not determine (bound by the next read)
SENT = ("M", "E", "U")
FALSY_TOKENS = ("i0", "N", "F", "e", "L")


def o_conforms(t):
    return t[0] == "i" or t == "F"  # check_type(False, int) holds (bool is an int)


def o_prep(t):
    """the attribute's preparer, on tokens"""
    if t[0] == "i":
        n = int(t[1:])
        return "M" if n == 99 else "i0" if n == 98 else f"i{n + 1000}"
    if t == "F":
        return "i1000"
    if t[0] == "s":
        n = int(t[1:])
        return f"i{n + 2000}" if n % 2 == 0 else t
    return t


def o_val_any(out):
    return out.startswith("val ")


def sp_options(case, st, op, n):
    """All (expected output | predicate, new protocol state, log entry or None) the text allows.
    Protocol state: (override, cached) of tokens / None / ANY."""
    ov, ca, fs, fd = (c == "1" for c in case["cfg"])
    host = case["host"]
    managed = host in ("specann", "specprep")
    prep = host == "specprep"
    override, cached = st
    c = op[0]
    if c == "b":
        return [("ok", st, None)]
    if c == "r":
        if override == ANY:
            return [(o_val_any, "bind-override", None)]
        if override is not None:
            return [("val " + override, st, None)]
        if ca and cached is not None:
            return [("val " + cached, st, None)]
        if not case.get("hg", 1):
            return [("err AttributeError", st, None)]
        g = case["getter"][n % len(case["getter"])]
        if g in EXC:
            name = EXC[g].__name__
            if name == "AttributeError" and not case.get("aae", 1):
                name = "NestedAttributeError"
            return [("err " + name, st, None)]
        if g == "z":
            g = "i0"
        lenient = False
        if managed:
            if g in SENT:
                lenient = True
            else:
                v = o_prep(g) if prep else g
                if v in SENT:
                    lenient = True
        else:
            v = g
        if lenient:  # the text does not say what a sentinel becomes on a managed attribute
            return [("err ValueError", st, None), (o_val_any, "bind-cached-maybe", None)]
        if managed and not o_conforms(v):
            return [("err ValueError", st, None)]
        if not ca:
            return [("val " + v, st, None)]
        if v in SENT:  # whether a sentinel result counts as "cached" is not in the text
            return [("val " + v, st, None), ("val " + v, (None, v), None)]
        return [("val " + v, (None, v), None)]
    if c == "a":
        v = op[2:]
        stored = v
        loose = False
        if host != "plain":
            if managed:
                if v in SENT:
                    loose = True
                else:
                    stored = o_prep(v) if prep else v
                    if stored in SENT:
                        loose = True
            elif v in SENT:
                loose = True
        if loose:
            # assigning a sentinel on a spec class is C05's subject: anything consistent is accepted
            res = [("ok", st, None), ("ok", (ANY, None), None), ("err TypeError", st, None)]
            if not ov and not fs:
                res.append(("err AttributeError", st, None))
            if fs:
                res.append(("ok", st, "S:*"))
            return res
        if managed and not o_conforms(stored):
            # ill-typed value on a managed attribute: the spec-class type check (C03) may reject it first
            res = [("err TypeError", st, None)]
            if not ov and not fs:
                res.append(("err AttributeError", st, None))
            return res
        if fs:
            return [("ok", st, "S:" + stored)]
        if ov:
            return [("ok", (stored, None), None)]
        return [("err AttributeError", st, None)]
    if c == "d":
        if fd:
            return [("ok", st, "D")]
        if override is not None or (cached is not None):
            return [("ok", (None, None), None)]
        return [("err AttributeError", st, None)]
    raise ValueError(op)


def oracle_step(case, options, ost, op, state_fn, apply):
    """One operation on the real object judged against the set of protocol states `ost` =
    (states, n, explogs). Returns (new ost, violation message or None)."""
    states, n, explogs = ost
    before = state_fn()
    try:
        out = apply(op)
    except Exception as e:  # noqa: BLE001
        out = "err " + err_name(e)
    after = state_fn()
    new_states, new_logs = set(), {}
    wanted = []
    for st in states:
        for exp, st2, logent in options(case, st, op, n):
            wanted.append(exp if isinstance(exp, str) else "val <any>")
            ok = exp(out) if callable(exp) else (exp == out)
            if not ok:
                continue
            if st2 == "bind-override":
                st2 = (out[4:], None)
            elif st2 == "bind-cached-maybe":
                new_states.add(st)
                st2 = (None, out[4:]) if case["cfg"][1] == "1" else st
            new_states.add(st2)
            for lg in explogs:
                new_logs[lg + ((logent,) if logent else ())] = None
    if not new_states:
        return ost, (
            f"{op!r}: real code gave {out!r}; the protocol allows {sorted(set(wanted))} "
            f"(protocol states {sorted(map(str, states))}, underlying state {n})"
        )
    if op[0] == "b":
        n += 1
    # accessor-call log: exactly the calls the protocol prescribes, once each
    real_log = after.rsplit(" ;; ", 1)[-1]
    got = [] if real_log == "-" else real_log.split(",")

    def log_ok(lg):
        if len(got) != len(lg):
            return False
        return all(e == g or (e.endswith("*") and g.startswith(e[:-1])) for e, g in zip(lg, got))

    if not any(log_ok(lg) for lg in new_logs):
        return ost, f"{op!r}: accessor-call log is {real_log!r}, protocol expects one of {sorted(new_logs)}"
    # "raises ... and changes nothing"
    if out.startswith("err") and op[0] in "ad" and before != after:
        return ost, f"{op!r}: raised {out[4:]} but the state changed: {before!r} -> {after!r}"
    return (new_states, n, new_logs), None


def run_oracle(case, options, init_state):
    """Set-of-states checker walking the case's tree of operation sequences on the real code
    (fresh object + replay at every rewind). `options(case, st, op, n)` as in sp_options."""
    state_fn, apply = fresh(case)
    stack = [({init_state}, 0, {(): None})]
    path = []
    for line in case["ops"]:
        k, op = split_op(line, len(path))
        if k > len(path):
            return [f"malformed case: {line!r} at depth {len(path)}"]
        if k != len(path):
            path = path[:k]
            del stack[k + 1:]
            state_fn, apply = replay(case, path)
        path.append(op)
        ost, msg = oracle_step(case, options, stack[-1], op, state_fn, apply)
        if msg:
            return [f"sequence {path}: op#{len(path) - 1} " + msg]
        stack.append(ost)
    return []


def cp_options(case, st, op, n):
    """Protocol state: tuple of (key, override, cached) sorted by str(key); key None (shared) or class index."""
    ov, ca, ps, fs, fd = (c == "1" for c in case["cfg"])
    ts = op.split(" ")
    if ts[0] == "b":
        return [("ok", st, None)]
    k = int(ts[1][1:])  # a class, or an instance of it: the protocol state is that of type(obj)
    key = k if ps else None
    d = {a: (b, c) for a, b, c in st}
    override, cached = d.get(key, (None, None))

    def put(o, c_):
        d2 = dict(d)
        if o is None and c_ is None:
            d2.pop(key, None)
        else:
            d2[key] = (o, c_)
        return tuple(sorted(((a, b, c) for a, (b, c) in d2.items()), key=lambda x: str(x[0])))

    if ts[0] == "r":
        if override is not None:
            return [("val " + override, st, None)]
        if cached is not None:
            return [("val " + cached, st, None)]
        if not case.get("hg", 1):
            return [("err AttributeError", st, None)]
        g = case["getter"][n % len(case["getter"])]
        if g in EXC:
            name = EXC[g].__name__
            if name == "AttributeError" and not case.get("aae", 1):
                name = "NestedAttributeError"
            return [("err " + name, st, None)]
        if g == "z":
            v = ("i0", "e", "N")[k]
        elif g[0] == "i" and int(g[1:]) >= 10:
            v = f"i{int(g[1:]) + 100 * (k + 1)}"
        else:
            v = g
        if not ca:
            return [("val " + v, st, None)]
        if v in SENT:
            return [("val " + v, st, None), ("val " + v, put(None, v), None)]
        return [("val " + v, put(None, v), None)]
    if ts[0] == "a":
        v = ts[2]
        if fs:
            return [("ok", st, f"S{k}:{v}")]
        if ov:
            return [("ok", put(v, None), None)]
        return [("err AttributeError", st, None)]
    if ts[0] == "d":
        if fd:
            return [("ok", st, f"D{k}")]
        if override is not None or cached is not None:
            return [("ok", put(None, None), None)]
        return [("err AttributeError", st, None)]
    raise ValueError(op)


def oracle(case):
    if case["kind"] == "sp":
        return run_oracle(case, sp_options, (None, None))
    return run_oracle(case, cp_options, ())


# ---------------------------------------------------------------------------
# generation
# ---------------------------------------------------------------------------

SP_CFGS = ["".join(b) for b in itertools.product("01", repeat=4)]
CP_CFGS = ["".join(b) for b in itertools.product("01", repeat=5)]
G_POOL = ["i10", "i11", "i12", "i13", "s1", "s2", "s3", "s4", "M", "E", "U", "!A", "!R", "!K", "i99",
          "i0", "N", "F", "e", "L", "i98", "z"]
A_POOL = ["i1", "i2", "i3", "s1", "s2", "M", "E", "U", "i99", "i0", "N", "F", "e", "L", "i98"]


def sp_random(rng, malformed, maxlen):
    cfg = rng.choice(SP_CFGS)
    host = rng.choice(HOSTS)
    if malformed:
        tab = [rng.choice(G_POOL) for _ in range(rng.randint(1, 5))]
        hg = 0 if rng.random() < 0.08 else 1
        aae = 0 if rng.random() < 0.3 else 1
        pool = ["r", "r", "d", "b", "b"] + ["a " + v for v in A_POOL]
    else:
        tab, hg, aae = MAIN_TABLE, 1, 1
        pool = SP_ALPHABET + ["r", "a F", "a i1"]
    ops = [rng.choice(pool) for _ in range(rng.randint(1, maxlen))]
    return {"kind": "sp", "cfg": cfg, "host": host, "hg": hg, "aae": aae, "build": rng.choice(BUILDS),
            "getter": list(tab), "ops": ops, "origin": "sp-malformed" if malformed else "sp-random"}


def cp_random(rng, malformed, maxlen):
    cfg = rng.choice(CP_CFGS)
    if malformed:
        tab = [rng.choice(G_POOL) for _ in range(rng.randint(1, 4))]
        hg = 0 if rng.random() < 0.08 else 1
        aae = 0 if rng.random() < 0.3 else 1
        pool = CP_FULL + [f"a {t}{k} {v}" for t in "co" for k in range(3) for v in ("s1", "M", "U", "N", "F", "e", "L")]
    else:
        tab, hg, aae = CP_TABLE, 1, 1
        pool = CP_FULL + [f"a o{k} {v}" for k in range(3) for v in ("N", "e")]
    ops = [rng.choice(pool) for _ in range(rng.randint(1, maxlen))]
    return {"kind": "cp", "cfg": cfg, "hg": hg, "aae": aae, "build": rng.choice(BUILDS), "getter": list(tab),
            "ops": ops, "origin": "cp-malformed" if malformed else "cp-random"}


def gen_cases(tier, rng):
    if tier == "search":
        while True:
            r = rng.random()
            if r < 0.35:
                yield sp_random(rng, False, 10)
            elif r < 0.6:
                yield sp_random(rng, True, 10)
            elif r < 0.85:
                yield cp_random(rng, False, 10)
            else:
                yield cp_random(rng, True, 10)
        return
    sp_len, cp_len = (5, 3) if tier == "quick" else (6, 4)
    n_sp_rand, n_sp_mal, n_cp_rand, n_cp_mal = (1500, 4000, 3000, 1500) if tier == "quick" else (20000, 60000, 40000, 20000)
    # --- spec_property, exhaustive: the full tree of sequences up to sp_len, one case per (cfg, host, 2-op prefix)
    for cfg in SP_CFGS:
        for host in HOSTS:
            depth = sp_len + 1 if (tier == "thorough" and host in DEEP_HOSTS) else sp_len
            for i, prefix in enumerate(itertools.product(SP_ALPHABET, repeat=2)):
                # the four ways of building the descriptor rotate over the 25 subtrees of each (cfg, host)
                yield {"kind": "sp", "cfg": cfg, "host": host, "hg": 1, "aae": 1, "build": BUILDS[i % 4],
                       "getter": MAIN_TABLE, "ops": tree_ops(list(prefix), SP_ALPHABET, depth),
                       "origin": "sp-exhaustive"}
    for _ in range(n_sp_rand):
        yield sp_random(rng, False, 12)
    for _ in range(n_sp_mal):
        yield sp_random(rng, True, 12)
    # --- classproperty, exhaustive over the small alphabet: one case per (cfg, first op)
    for cfg in CP_CFGS:
        for i, first in enumerate(CP_SMALL):
            yield {"kind": "cp", "cfg": cfg, "hg": 1, "aae": 1, "build": BUILDS[i % 4], "getter": CP_TABLE,
                   "ops": tree_ops([first], CP_SMALL, cp_len), "origin": "cp-exhaustive"}
    for _ in range(n_cp_rand):
        yield cp_random(rng, False, 10)
    for _ in range(n_cp_mal):
        yield cp_random(rng, True, 10)


def tree_ops(prefix, alphabet, depth):
    """Depth-first walk of every sequence over `alphabet` extending `prefix` up to length `depth`,
    one `@k op` line per edge."""
    ops = list(prefix)

    def rec(k):
        if k >= depth:
            return
        for a in alphabet:
            ops.append(f"@{k} {a}")
            rec(k + 1)

    rec(len(prefix))
    return ops


def shrink(case, at=None):
    """The single path that leads to protocol line `at`, then that path with ops removed."""
    path = []
    for i, line in enumerate(case["ops"]):
        k, op = split_op(line, len(path))
        path = path[:k] + [op]
        if at is not None and i + 1 >= at:
            break
    yield {**case, "ops": list(path)}
    for i in range(len(path)):
        yield {**case, "ops": path[:i] + path[i + 1:]}


def extra(tier, rng):
    """Nothing is validated outside the line protocol; this only reports how many distinct operation
    sequences the tree-shaped exhaustive cases stand for."""
    sp_len, cp_len = (5, 3) if tier == "quick" else (6, 4)
    n_sp = 0
    for host in HOSTS:
        d = sp_len + 1 if (tier == "thorough" and host in DEEP_HOSTS) else sp_len
        n_sp += len(SP_CFGS) * sum(len(SP_ALPHABET) ** k for k in range(2, d + 1))
    n_cp = len(CP_CFGS) * sum(len(CP_SMALL) ** k for k in range(1, cp_len + 1))
    return {"evaluations": 0, "info": {
        "spec_property_sequences_exhaustive": n_sp, "classproperty_sequences_exhaustive": n_cp,
        "note": "each tree edge is one compared protocol line; every sequence of the tree is judged by the oracle",
    }}


_seen_keys = set()


def steps(case, real):
    """(op, pre-state, post line) per protocol line, following rewinds."""
    stack = [real[0].split(" ;; ", 1)[-1]]
    for i, line in enumerate(case["ops"]):
        if i + 1 >= len(real) or " ;; " not in real[i + 1]:
            break
        k, op = split_op(line, len(stack) - 1)
        if k >= len(stack):
            break
        del stack[k + 1:]
        post = real[i + 1]
        yield op, stack[k], post
        stack.append(post.split(" ;; ", 1)[-1])


def nontrivial(case, real):
    keys = []
    cfg = (case["kind"], case["cfg"], case.get("host", ""), case.get("hg", 1), case.get("aae", 1),
           case.get("build", "deco"))
    gk = 0 if case["getter"] in (MAIN_TABLE, CP_TABLE) else tuple(case["getter"][:4])
    for op, pre, post in steps(case, real):
        if post.startswith("err") or post.split(" ;; ", 1)[-1] != pre:
            k = (cfg, pre, op, gk)
            if k not in _seen_keys:
                _seen_keys.add(k)
                keys.append(k)
    return keys


def tags(case, real):
    t = [f"origin:{case.get('origin', 'corpus')}", f"build:{case['kind']}:{case.get('build', 'deco')}"]
    if case["kind"] == "sp":
        t.append("host:" + case["host"])
    depth = 0
    for line in case["ops"]:
        k, _ = split_op(line, depth)
        depth = k + 1
        t.append(f"depth:{depth}")
    for op, pre, post in steps(case, real):
        t.append(f"op:{case['kind']}:{op[0]}")
        head = post.split(" ;; ")[0]
        if head.startswith("val ") and head[4:] in FALSY_TOKENS:
            # a falsy value was read; `hit` when it came from the slot/cache rather than from the getter
            hit = pre.split(" ;; ")[0] not in ("-", "{}")
            t.append(f"falsy-read:{case['kind']}:{'stored' if hit else 'fresh'}")
        if op[0] == "a" and op.rsplit(" ", 1)[-1] in FALSY_TOKENS:
            t.append(f"falsy-assign:{case['kind']}")
        if head.startswith("err"):
            t.append(f"{case['kind']}:{head.replace(' ', ':')}")
    return t


MANIFEST_ENTRY = {
    "level_text": "Lean 4 proof, for a universally quantified configuration (overridable, cache, custom setter, custom deleter, plain/spec host, managed annotation, preparer, getter present, allow_attribute_error: all combinations at once) and operation sequences of any length, that the Impl model of spec_property.__get__/__set__/__delete__ (one instance-dict slot) refines the override/cache/getter protocol of the property text (ghost override and cache; invariant relating the slot to them): a read returns the override if set, else the value cached since the last deletion when caching is on, else the prepared and type-checked getter result on current state; cached and overridden values are stable under changes of the underlying state; assignment with neither overridable nor a setter raises AttributeError and changes nothing; deletion clears or raises; custom accessors are called exactly once and leave the slot alone; every value read on a managed spec-class attribute conforms to the annotation; the same protocol per cache key for classproperty over an arbitrary set of classes, per-subclass independence over whole operation sequences, a single shared slot otherwise, instance access acting on type(obj). The model is tied to /repo on every run by executing EVERY operation sequence up to length 5 (quick tier) / 6-7 (thorough) over {read, assign v1, assign v2, delete, bump} for all 16 option combinations on four hosts (and the classproperty analogue, 32 combinations over a three-class chain, length 3 / 4) on the real descriptors and on the model, with falsy values (0, False, '', None, []) in every value position and the descriptor built in four ways (constructor, decorator with options, two .getter/.setter/.deleter chain orders), comparing value / exception class / slot or cache dict / accessor-call log after every step; an independent explicit state machine written from the property text judges every case.",
    "level_note": "Trusted: Lean kernel; axioms propext/Classical.choice/Quot.sound only; the hand-written model (incl. the spec-class assignment layer in front of the descriptor) and the correspondence harness. The theorems are about the model; the per-run correspondence ties them to the code. Not covered: invalidated_by (C11), warn_on_override, frozen spec classes, collection-typed annotations, plain `Cls.x = v` rebinding of a classproperty.",
    "technique": "Lean 4 refinement proof (ghost-state invariant, induction over operation sequences) over a hand-written model; exhaustive small-scope differential correspondence against the real descriptors",
}
